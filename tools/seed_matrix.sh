#!/bin/bash
# usage: tools/seed_matrix.sh <out-file> [seed]   -- every seeded change x every check (quick tier), one line per pair.
# Applies each patch to /repo's working tree, runs the checks, restores the tree.  Nothing is committed in /repo.
out=$1; seed=${2:-3}
cd /verif
ids=$(python3 -c "import json;print(' '.join(c['property_id'] for c in json.load(open('MANIFEST.json'))['checks']))")
export VERIF_WATCHDOG_SCALE=1
: > $out
for d in seeded/C*/[ab]; do
  m=${d#seeded/}
  if [ -n "$(git -C /repo status --porcelain -- src)" ]; then echo "repo not clean" >&2; exit 2; fi
  if ! git -C /repo apply --check $(readlink -f $d/patch.diff) 2>/dev/null; then echo "$m PATCH-DOES-NOT-APPLY" >> $out; continue; fi
  git -C /repo apply $(readlink -f $d/patch.diff)
  for id in $ids; do
    o=$(timeout 900 ./check $id --tier quick --seed $seed 2>&1); rc=$?
    keys=$(echo "$o" | grep -E "^\s+key=" | sed 's/^\s*key=//' | sort -u | head -4 | tr '\n' ' ')
    echo "$m $id rc=$rc $keys" >> $out
  done
  git -C /repo checkout -- .
done
echo DONE >> $out
