#!/usr/bin/env python3
"""Render the seeded-change matrix (tools/seed_matrix.sh output) as markdown for DESIGN.md §10.5."""
import json, sys, os, re, collections
VERIF = os.path.dirname(os.path.dirname(os.path.abspath(__file__)))
mat = collections.OrderedDict()
for line in open(sys.argv[1]):
    p = line.split()
    if len(p) < 3 or not p[2].startswith("rc="):
        continue
    m, cid, rc = p[0], p[1], int(p[2][3:])
    mat.setdefault(m, {})[cid] = (rc, p[3:])
first = {}
if len(sys.argv) > 2:
    first = json.load(open(sys.argv[2]))
print("| change | what was changed (sub-agent's summary, shortened) | own check | keys reported by the own check | other checks that also fire |")
print("|---|---|---|---|---|")
for m, row in mat.items():
    pid, v = m.split("/")
    meta = json.load(open(os.path.join(VERIF, "seeded", pid, v, "meta.json")))
    files = ", ".join(os.path.basename(f) for f in meta.get("files_changed", []))
    summ = re.sub(r"\s+", " ", meta.get("summary", ""))
    summ = summ[:230] + ("…" if len(summ) > 230 else "")
    own = row.get(pid, (None, []))
    own_s = {0: "**missed**", 1: "caught", 2: "harness error", 124: "timeout (hang)"}.get(own[0], "rc=%s" % own[0])
    if m in first:
        own_s += " (first run: %s)" % first[m]
    others = [c for c, (rc, k) in row.items() if c != pid and rc == 1]
    print("| %s | `%s`: %s | %s | %s | %s |" % (m, files, summ.replace("|", "/"), own_s,
                                             " ".join("`%s`" % k for k in own[1][:3]), " ".join(others) or "—"))
caught = sum(1 for m, row in mat.items() if row.get(m.split("/")[0], (0,))[0] == 1)
print()
print("%d of %d seeded changes are caught by the check of the property they were aimed at." % (caught, len(mat)))
