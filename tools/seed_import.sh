#!/bin/bash
# usage: tools/seed_import.sh <id> <variant>  -- copy a confirmed seeded change into /verif/seeded/<id>/<variant>/
id=$1; v=$2; src=${SEED_ROOT:-/tmp/seed}_$id/OUT/$v; dst=/verif/seeded/$id/$v
mkdir -p $dst/demo
cp $src/patch.diff $dst/patch.diff
cp $src/meta.json $dst/meta.json
for f in $src/demo/*; do
  case "$(file -b "$f")" in *ELF*) ;; *) [ -f "$f" ] && [ $(stat -c %s "$f") -lt 300000 ] && cp "$f" $dst/demo/ ;; esac
done
cp $src/confirm_changed.txt $dst/demo/confirm_changed.txt 2>/dev/null
cp $src/confirm_unchanged.txt $dst/demo/confirm_unchanged.txt 2>/dev/null
# make run.sh path-independent note
echo "$id/$v imported: $(ls $dst/demo | tr '\n' ' ')"
