#!/bin/bash
# usage: tools/seed_eval.sh <patch.diff> <tier> <seed> <check-id>...
# Applies a seeded change to /repo's working tree, runs the given checks, restores the tree.
# Never commits anything in /repo.  Prints one line per check: id rc keys...
patch=$(readlink -f "$1"); tier=$2; seed=$3; shift 3
cd /verif
if [ -n "$(git -C /repo status --porcelain -- src)" ]; then echo "repo working tree not clean" >&2; exit 2; fi
restore() { git -C /repo checkout -- . ; }
trap restore EXIT
git -C /repo apply "$patch" || { echo "patch does not apply" >&2; exit 2; }
for id in "$@"; do
  out=$(timeout 3600 ./check $id --tier $tier --seed $seed 2>&1); rc=$?
  keys=$(echo "$out" | grep -E "^\s+key=" | sed 's/^\s*key=//' | sort | uniq -c | sort -rn | head -6 | awk '{printf "%s(x%s) ", $2, $1}')
  echo "$id rc=$rc $(echo "$out" | tail -1 | sed 's/.*processes, //') :: $keys"
done
