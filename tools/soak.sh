#!/bin/bash
# usage: tools/soak.sh <tier> <seed>... ; runs every claimed check once per seed, prints one line each
tier=$1; shift
cd /verif
ids=$(python3 -c "import json;print(' '.join(c['property_id'] for c in json.load(open('MANIFEST.json'))['checks']))" 2>/dev/null)
for seed in "$@"; do
  for id in $ids; do
    out=$(timeout 7200 ./check $id --tier $tier --seed $seed 2>&1); rc=$?
    echo "seed=$seed rc=$rc $(echo "$out" | tail -1)"
    if [ $rc -ne 0 ]; then echo "$out" | tail -30 > /verif/logs/soakfail_${id}_${seed}.txt; fi
  done
done
