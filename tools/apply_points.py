#!/usr/bin/env python3
"""One-shot helper used to insert the ABTI_VERIF_POINT/COV sites into /repo
(kept for documentation; the result is committed in /repo)."""
import sys
REPO = sys.argv[1] if len(sys.argv) > 1 else "/repo"

def ins(path, anchor, text, after=True, occurrence=1, count=None):
    p = REPO + "/" + path
    s = open(p).read()
    n = s.count(anchor)
    if count is not None:
        assert n == count, (path, anchor, n)
    assert n >= occurrence, (path, anchor, n)
    idx = -1
    for _ in range(occurrence):
        idx = s.index(anchor, idx + 1)
    if after:
        e = idx + len(anchor)
        s = s[:e] + text + s[e:]
    else:
        s = s[:idx] + text + s[idx:]
    open(p, "w").write(s)

# ---------------- pools -----------------
ins("src/pool/thread_queue.h",
    "        /* The pool is empty.  Lock is not taken. */\n        return 1;\n    }\n",
    "    ABTI_VERIF_POINT(ABTI_VERIF_P_POP_NONEMPTY_SEEN);\n", count=1)
ins("src/pool/thread_queue.h",
    "        /* Lock acquisition failed.  Check the size. */\n",
    "        ABTI_VERIF_COV(ABTI_VERIF_C_POP_LOCK_CONTENDED);\n", count=1)
ins("src/pool/thread_queue.h",
    "                /* The pool becomes empty.  Lock is not taken. */\n",
    "                ABTI_VERIF_COV(ABTI_VERIF_C_POP_BECAME_EMPTY);\n", count=1)
ins("src/include/abti_pool.h",
    "    ABTD_atomic_relaxed_store_int(&p_thread->state, ABT_THREAD_STATE_READY);\n",
    "    ABTI_VERIF_POINT(ABTI_VERIF_P_PUSH_BEFORE_LOCK);\n", count=1)
# ---------------- yield / suspend / resume -----------------
ins("src/ythread.c",
    "                                               ABT_pool_context context)\n{\n    ABTI_ythread *p_prev = (ABTI_ythread *)arg;\n",
    "    ABTI_VERIF_POINT(ABTI_VERIF_P_YIELD_SAVED);\n", count=1)
# all "Set this thread's state to BLOCKED." sites (5)
p = REPO + "/src/ythread.c"
s = open(p).read()
old = "    /* Set this thread's state to BLOCKED. */\n    ABTD_atomic_release_store_int(&p_prev->thread.state,\n                                  ABT_THREAD_STATE_BLOCKED);\n"
assert s.count(old) == 5
s = s.replace(old, "    ABTI_VERIF_POINT(ABTI_VERIF_P_SUSPEND_BEFORE_BLOCKED);\n" + old +
              "    ABTI_VERIF_POINT(ABTI_VERIF_P_SUSPEND_AFTER_BLOCKED);\n")
open(p, "w").write(s)
ins("src/include/abti_ythread.h",
    "    ABTI_pool_add_thread(&p_ythread->thread, ABT_POOL_CONTEXT_OP_THREAD_RESUME);\n",
    "    ABTI_VERIF_POINT(ABTI_VERIF_P_RESUME_AFTER_PUSH);\n", count=1)
# ---------------- join / exit -----------------
ins("src/include/abti_ythread.h",
    "        ABTD_atomic_acquire_load_ythread_context_ptr(&p_ctx->p_link);\n    if (!p_link) {\n",
    "        ABTI_VERIF_POINT(ABTI_VERIF_P_GET_JOINER_BEFORE_REQ);\n", count=1)
ins("src/include/abti_ythread.h",
    "            /* This case means there is no join request. */\n",
    "            ABTI_VERIF_COV(ABTI_VERIF_C_GET_JOINER_NONE);\n", count=1)
ins("src/include/abti_ythread.h",
    "             * setting p_link.  Wait for it. */\n",
    "            ABTI_VERIF_COV(ABTI_VERIF_C_GET_JOINER_WAITED);\n", count=1)
ins("src/include/abti_ythread.h",
    "        /* There is a join request. */\n",
    "        ABTI_VERIF_COV(ABTI_VERIF_C_GET_JOINER_READY);\n", count=1)
ins("src/include/abti_ythread.h",
    "             * jump to the joiner ULT.  Note that a parent ULT cannot be a\n             * joiner. */\n",
    "            ABTI_VERIF_COV(ABTI_VERIF_C_EXIT_JUMP_TO_JOINER);\n", count=1)
ins("src/include/abti_ythread.h",
    "             * main scheduler needs to take this path. */\n",
    "            ABTI_VERIF_COV(ABTI_VERIF_C_EXIT_PUSH_JOINER);\n", count=1)
ins("src/include/abti_ythread.h",
    "                (ABTD_futex_single *)p_joiner->thread.p_arg;\n            ABTD_futex_resume(p_futex);\n        } else\n",
    "            ABTI_VERIF_COV(ABTI_VERIF_C_EXIT_FUTEX_JOINER);\n", after=False, count=1)
# the line above must be inserted before "ABTD_futex_resume(p_futex);\n        } else" -- fix position:
s = open(REPO + "/src/include/abti_ythread.h").read()
bad = "            ABTI_VERIF_COV(ABTI_VERIF_C_EXIT_FUTEX_JOINER);\n                (ABTD_futex_single *)p_joiner->thread.p_arg;\n            ABTD_futex_resume(p_futex);\n        } else\n"
good = "                (ABTD_futex_single *)p_joiner->thread.p_arg;\n            ABTI_VERIF_COV(ABTI_VERIF_C_EXIT_FUTEX_JOINER);\n            ABTD_futex_resume(p_futex);\n        } else\n"
assert s.count(bad) == 1
s = s.replace(bad, good)
open(REPO + "/src/include/abti_ythread.h", "w").write(s)
# terminate
p = REPO + "/src/include/abti_thread.h"
s = open(p).read()
old = "         * TERMINATED. */\n        ABTD_atomic_release_store_int(&p_thread->state,\n"
assert s.count(old) == 1
s = s.replace(old, "         * TERMINATED. */\n        ABTI_VERIF_POINT(ABTI_VERIF_P_TERMINATE_BEFORE_STORE);\n        ABTD_atomic_release_store_int(&p_thread->state,\n")
open(p, "w").write(s)
# thread_join
ins("src/thread.c",
    "static inline void thread_join(ABTI_local **pp_local, ABTI_thread *p_thread)\n{\n    if (ABTD_atomic_acquire_load_int(&p_thread->state) ==\n        ABT_THREAD_STATE_TERMINATED) {\n",
    "        ABTI_VERIF_COV(ABTI_VERIF_C_JOIN_ALREADY_TERMINATED);\n", count=1)
ins("src/thread.c",
    "        /* Fall-back to the yield-based join. */\n",
    "        ABTI_VERIF_COV(ABTI_VERIF_C_JOIN_YIELD_LOOP);\n", count=1)
ins("src/thread.c",
    "    } else {\n        /* Suspend the current ULT */\n",
    "        ABTI_VERIF_COV(ABTI_VERIF_C_JOIN_SUSPEND);\n        ABTI_VERIF_POINT(ABTI_VERIF_P_JOIN_AFTER_REQ);\n", count=1)
ins("src/thread.c",
    "         * completion. */\n",
    "        ABTI_VERIF_POINT(ABTI_VERIF_P_JOIN_BEFORE_FINAL_WAIT);\n", count=1)
ins("src/thread.c",
    "        if (!(req & ABTI_THREAD_REQ_JOIN)) {\n            ABTD_futex_single futex;\n",
    "            ABTI_VERIF_COV(ABTI_VERIF_C_JOIN_FUTEX);\n            ABTI_VERIF_POINT(ABTI_VERIF_P_JOIN_FUTEX_AFTER_REQ);\n", count=1)
# ---------------- requests -----------------
ins("src/include/abti_ythread.h",
    "        /* If p_thread is cancelled, there's nothing to do. */\n",
    "        ABTI_VERIF_COV(ABTI_VERIF_C_SCHEDULE_CANCELLED);\n", count=1)
ins("src/include/abti_ythread.h",
    "        /* If p_thread is migrated, let's push p_thread back to its pool. */\n",
    "        ABTI_VERIF_COV(ABTI_VERIF_C_SCHEDULE_MIGRATED);\n", count=1)
ins("src/thread.c",
    "    /* Unset the migration request. */\n",
    "    ABTI_VERIF_POINT(ABTI_VERIF_P_MIGRATE_BEFORE_CLEAR);\n", count=1)
ins("src/thread.c",
    "    ABTD_atomic_relaxed_store_ptr(&p_mig_data->p_migration_pool,\n                                  (void *)p_pool);\n",
    "    ABTI_VERIF_POINT(ABTI_VERIF_P_MIGRATE_AFTER_TARGET_SET);\n", count=1)
ins("src/sched/sched.c",
    "    if (!ABTI_sched_has_unit(p_sched)) {\n",
    "        ABTI_VERIF_POINT(ABTI_VERIF_P_SCHED_STOP_AFTER_SIZE);\n", count=1)
ins("src/thread.c",
    "        p_sched->run(ABTI_sched_get_handle(p_sched));\n",
    "        ABTI_VERIF_POINT(ABTI_VERIF_P_MAIN_SCHED_AFTER_RUN);\n", count=1)
# ---------------- mutex -----------------
ins("src/include/abti_mutex.h",
    "        /* Failed to take a lock, so let's add it to the waiter list. */\n",
    "        ABTI_VERIF_POINT(ABTI_VERIF_P_MUTEX_LOCK_AFTER_FAIL);\n", count=1)
ins("src/include/abti_mutex.h",
    "        /* Maybe the mutex lock has been already released.  Check it. */\n",
    "        ABTI_VERIF_POINT(ABTI_VERIF_P_MUTEX_LOCK_BEFORE_RETRY);\n", count=1)
ins("src/include/abti_mutex.h",
    "            /* Lock has been taken. */\n",
    "            ABTI_VERIF_COV(ABTI_VERIF_C_MUTEX_LOCK_RETRY_WON);\n", count=1)
ins("src/include/abti_mutex.h",
    "        /* Wait on waitlist. */\n",
    "        ABTI_VERIF_COV(ABTI_VERIF_C_MUTEX_LOCK_WAIT);\n", count=1)
ins("src/include/abti_mutex.h",
    "    ABTD_spinlock_release(&p_mutex->lock);\n    /* Operations of waitlist must be done while taking waiter_lock. */\n",
    "    ABTI_VERIF_POINT(ABTI_VERIF_P_MUTEX_UNLOCK_BEFORE_RELEASE);\n", after=False, count=1)
ins("src/include/abti_mutex.h",
    "    /* Operations of waitlist must be done while taking waiter_lock. */\n",
    "    ABTI_VERIF_POINT(ABTI_VERIF_P_MUTEX_UNLOCK_BEFORE_BROADCAST);\n", count=1)
# ---------------- waitlist -----------------
ins("src/include/abti_waitlist.h",
    "            ABTD_futex_wait_and_unlock(&p_waitlist->futex, p_lock);\n",
    "            ABTI_VERIF_POINT(ABTI_VERIF_P_WAITLIST_EXT_AFTER_WAKE);\n", count=1)
ins("src/include/abti_waitlist.h",
    "        /* Suspend the current ULT */\n",
    "        ABTI_VERIF_COV(ABTI_VERIF_C_WAITLIST_ULT_WAIT);\n", count=1)
# before re-lock in the yieldable timed path
s = open(REPO + "/src/include/abti_waitlist.h").read()
old = "            if (cur_time >= target_time) {\n                ABTD_spinlock_acquire(p_lock);\n                goto timeout;\n            }\n            ABTI_ythread_yield("
new = "            if (cur_time >= target_time) {\n                ABTI_VERIF_POINT(ABTI_VERIF_P_TIMEDOUT_BEFORE_RELOCK);\n                ABTD_spinlock_acquire(p_lock);\n                goto timeout;\n            }\n            ABTI_ythread_yield("
assert s.count(old) == 1
s = s.replace(old, new)
old = "    if (is_timedout) {\n        /* This thread is still in the list. */\n        if (p_waitlist->p_head == &thread) {\n            /* thread is a head. */\n"
new = "    if (!is_timedout)\n        ABTI_VERIF_COV(ABTI_VERIF_C_TIMEDOUT_ALREADY_READY);\n" + old + "            ABTI_VERIF_COV(ABTI_VERIF_C_TIMEDOUT_REMOVE_HEAD);\n"
assert s.count(old) == 1
s = s.replace(old, new)
old = "                thread.p_next->p_prev = thread.p_prev;\n"
assert s.count(old) == 1
s = s.replace(old, old + "                ABTI_VERIF_COV(ABTI_VERIF_C_TIMEDOUT_REMOVE_MIDDLE);\n")
old = "                p_waitlist->p_tail = thread.p_prev;\n"
assert s.count(old) == 1
s = s.replace(old, old + "                ABTI_VERIF_COV(ABTI_VERIF_C_TIMEDOUT_REMOVE_TAIL);\n")
# signal
old = "        if (p_ythread) {\n            ABTI_ythread_resume_and_push(p_local, p_ythread);\n        } else {\n            /* When p_thread is an external thread or a tasklet */\n            ABTD_atomic_release_store_int(&p_thread->state,\n                                          ABT_THREAD_STATE_READY);\n"
new = "        if (p_ythread) {\n            ABTI_VERIF_COV(ABTI_VERIF_C_SIGNAL_ULT);\n            ABTI_ythread_resume_and_push(p_local, p_ythread);\n        } else {\n            /* When p_thread is an external thread or a tasklet */\n            ABTD_atomic_release_store_int(&p_thread->state,\n                                          ABT_THREAD_STATE_READY);\n            ABTI_VERIF_POINT(ABTI_VERIF_P_SIGNAL_EXT_AFTER_READY);\n"
assert s.count(old) == 1
s = s.replace(old, new)
old = "            if (p_ythread) {\n                ABTI_ythread_resume_and_push(p_local, p_ythread);\n            } else {\n                /* When p_thread is an external thread or a tasklet */\n                wakeup_nonyieldable = ABT_TRUE;\n"
new = "            if (p_ythread) {\n                ABTI_VERIF_COV(ABTI_VERIF_C_BROADCAST_ULT);\n                ABTI_ythread_resume_and_push(p_local, p_ythread);\n            } else {\n                /* When p_thread is an external thread or a tasklet */\n                ABTI_VERIF_COV(ABTI_VERIF_C_BROADCAST_EXT);\n                wakeup_nonyieldable = ABT_TRUE;\n"
assert s.count(old) == 1
s = s.replace(old, new)
old = "        if (wakeup_nonyieldable) {\n            ABTD_futex_broadcast(&p_waitlist->futex);\n"
new = "        if (wakeup_nonyieldable) {\n            ABTI_VERIF_POINT(ABTI_VERIF_P_BROADCAST_BEFORE_FUTEX);\n            ABTD_futex_broadcast(&p_waitlist->futex);\n"
assert s.count(old) == 1
s = s.replace(old, new)
open(REPO + "/src/include/abti_waitlist.h", "w").write(s)
# futex
s = open(REPO + "/src/arch/abtd_futex.c").read()
old = "    const int original_val = ABTD_atomic_relaxed_load_int(&p_futex->val);\n    ABTD_spinlock_release(p_lock);\n"
assert s.count(old) == 2
s = s.replace(old, old + "    ABTI_VERIF_POINT(ABTI_VERIF_P_FUTEX_WAIT_AFTER_UNLOCK);\n")
open(REPO + "/src/arch/abtd_futex.c", "w").write(s)
# cond
ins("src/include/abti_cond.h",
    "    ABTI_mutex_unlock(*pp_local, p_mutex);\n",
    "    ABTI_VERIF_POINT(ABTI_VERIF_P_COND_WAIT_AFTER_UNLOCK);\n", count=1)
ins("src/cond.c",
    "    ABTI_mutex_unlock(p_local, p_mutex);\n    ABT_bool is_timedout =\n",
    "    ABTI_VERIF_POINT(ABTI_VERIF_P_COND_WAIT_AFTER_UNLOCK);\n", after=False, count=1)
s = open(REPO + "/src/cond.c").read()
bad = "    ABTI_VERIF_POINT(ABTI_VERIF_P_COND_WAIT_AFTER_UNLOCK);\n    ABTI_mutex_unlock(p_local, p_mutex);\n    ABT_bool is_timedout =\n"
good = "    ABTI_mutex_unlock(p_local, p_mutex);\n    ABTI_VERIF_POINT(ABTI_VERIF_P_COND_WAIT_AFTER_UNLOCK);\n    ABT_bool is_timedout =\n"
assert s.count(bad) == 1
s = s.replace(bad, good)
open(REPO + "/src/cond.c", "w").write(s)
# ---------------- eventual / future -----------------
ins("src/eventual.c",
    "        /* It has been ready.  Error. */\n",
    "        ABTI_VERIF_COV(ABTI_VERIF_C_EVENTUAL_SET_REJECTED);\n", count=1)
ins("src/futures.c",
    "    if (counter == num_compartments && p_future->p_callback != NULL) {\n",
    "        ABTI_VERIF_COV(ABTI_VERIF_C_FUTURE_CALLBACK);\n", count=1)
# ---------------- lifo -----------------
s = open(REPO + "/src/include/abti_sync_lifo.h").read()
old = "        p_elem->p_next = p_cur_top;\n        /* tag is incremented to avoid the ABA problem. */\n"
assert s.count(old) == 1
s = s.replace(old, "        p_elem->p_next = p_cur_top;\n        ABTI_VERIF_POINT(ABTI_VERIF_P_LIFO_PUSH_BEFORE_CAS);\n        /* tag is incremented to avoid the ABA problem. */\n")
old = "        ABTI_sync_lifo_element *p_next = p_cur_top->p_next;\n        /* tag is incremented to avoid the ABA problem. */\n"
assert s.count(old) == 1
s = s.replace(old, "        ABTI_sync_lifo_element *p_next = p_cur_top->p_next;\n        ABTI_VERIF_POINT(ABTI_VERIF_P_LIFO_POP_BEFORE_CAS);\n        /* tag is incremented to avoid the ABA problem. */\n")
old = "            return;\n        }\n    }\n#else\n    ABTD_spinlock_acquire(&p_lifo->lock);\n    ABTI_sync_lifo_push_unsafe"
assert s.count(old) == 1
s = s.replace(old, "            return;\n        }\n        ABTI_VERIF_COV(ABTI_VERIF_C_LIFO_CAS_RETRY);\n    }\n#else\n    ABTD_spinlock_acquire(&p_lifo->lock);\n    ABTI_sync_lifo_push_unsafe")
old = "            return p_cur_top;\n        }\n    }\n#else\n"
assert s.count(old) == 1
s = s.replace(old, "            return p_cur_top;\n        }\n        ABTI_VERIF_COV(ABTI_VERIF_C_LIFO_CAS_RETRY);\n    }\n#else\n")
open(REPO + "/src/include/abti_sync_lifo.h", "w").write(s)
print("ok")
