#!/usr/bin/env python3
"""Regenerates /verif/MANIFEST.json from the table below (keeps it valid and in
sync with lib/props.py).  Run: python3 tools/gen_manifest.py"""
import json
import os
import subprocess
import sys

VERIF = os.path.dirname(os.path.dirname(os.path.abspath(__file__)))
sys.path.insert(0, VERIF)
from lib import props  # noqa: E402

COMMON_NOTE = ("sampled interleavings/inputs only (held on what was observed); monitors sit at the API boundary of the "
               "statically linked library built from /repo's working tree with the guarded hooks on; only the shipped "
               "compile-time configuration (x86-64, fcontext, mem-pool, futex)")

CHECKS = {
    "C04": dict(
        technique="runtime monitoring: holder-word/CS-counter oracle at the API boundary, scripted trylock/recursion phases, "
                  "logical-deadlock supervisor, delay injection at guarded points, CPU squeeze, ASan/UBSan and TSan builds",
        category="exploration",
        text="held on the executions produced: seeded random configurations (1-4 streams, every built-in pool/scheduler kind, "
             "ULT/tasklet/external lockers, static/dynamic/recursive mutexes) with delay injection at the lock/unlock/waitlist/"
             "futex windows, CPU squeeze and sanitizer builds; exclusion is checked on every acquisition, liveness as logical "
             "deadlock",
        ref="DESIGN.md §5 C04"),
    "C08": dict(
        technique="runtime monitoring: per-round arrival/leave counters checked at every return, back-to-back rounds, reinit "
                  "phases, xstream barrier, logical-deadlock supervisor, delay injection, ASan/TSan builds",
        category="exploration",
        text="held on the executions produced: thousands of back-to-back rounds per scenario with 1-24 ULT/external waiters "
             "(fast callers lapping slow ones), reinit to other counts, rejected tasklet callers on the same barrier, xstream "
             "barriers with one ULT per stream plus external-thread waiters (also with a single stream), under delay "
             "injection and sanitizers",
        ref="DESIGN.md §5 C08"),
    "C05": dict(
        technique="runtime monitoring: wake-credit accounting and holder word under the user mutex, token conservation, "
                  "scripted queue shapes against a reference queue model under a virtual clock, logical-deadlock supervisor, "
                  "delay injection, ASan/TSan builds",
        category="exploration",
        text="held on the executions produced: closed producer/consumer programs over random configurations with "
             "ULT/external and timed/untimed waiters (no wake-up without a credit, waiter returns owning the mutex, no lost "
             "signal = no logical deadlock, tokens conserved) and hundreds of scripted queue shapes where the exact set of "
             "returning waiters is compared with a reference model after every signal/broadcast/clock step; timed waits with "
             "far-future deadlines make a signal lost between unlock and enqueue show as a logical deadlock",
        ref="DESIGN.md §5 C05, §10.5"),
    "C09": dict(
        technique="runtime monitoring: per-epoch set/observer ledger (single winner, observers read the winner's bytes, "
                  "callback-before-waiters), reset cycles, reset-by-an-observer racing with the setter's wake-up of a long waiter list "
                  "(generation oracle), logical-deadlock supervisor, delay injection, ASan/TSan builds",
        category="exploration",
        text="held on the executions produced: thousands of ready epochs of eventuals (all value sizes incl. 0) and futures "
             "(0..64 compartments, with/without callback) with racing setters, blocked and late waiters, testers of every "
             "caller kind, callbacks that take 50-450 us, under delay injection and sanitizers",
        ref="DESIGN.md §5 C09, §10.5"),
    "C10": dict(
        technique="runtime monitoring: reader/writer presence counters checked on entry and exit of every critical section, "
                  "scripted reader-inclusion phases decided by the logical-deadlock supervisor, delay injection, ASan/TSan",
        category="exploration",
        text="held on the executions produced: soups of 2-25 ULT/external lockers with 5-90% writes on random configurations "
             "and scripted phases where a second reader must enter while the first still holds the lock and where 2-4 "
             "readers queued behind a writer must all be inside together after it unlocks",
        ref="DESIGN.md §5 C10"),
    "C07": dict(
        technique="runtime monitoring: API-boundary histories with unique push instances and global call/return tickets, "
                  "offline linearizability conditions (fresh/repeat/loss/FIFO order/empty pops), sequential reference-deque "
                  "phase, quiescent size checks, delay injection, ASan/TSan builds",
        category="exploration",
        text="held on the histories produced: every pool kind x access mode with the permitted numbers of producer/consumer "
             "OS threads, few tokens so the pool flips empty/non-empty constantly, all pool operations incl. batches, blocking "
             "pops and remove; each history checked offline with sound linearizability conditions",
        ref="DESIGN.md §5 C07"),
    "C19": dict(
        technique="runtime monitoring under a virtual clock: scripted waiter-queue shapes compared with a reference queue "
                  "model after every clock/signal step, timed-wait soups with credit accounting, pool histories with blocking "
                  "pops, blocked consumers that must each be woken by single pushes (call deadline), ASan on departed waiters' "
                  "stack nodes",
        category="exploration",
        text="held on the executions produced: thousands of queue shapes (timed-out waiter at head/middle/tail, behind untimed "
             "ones, ULT and external) where exactly the expired waiters time out, later signals wake exactly one remaining "
             "waiter and broadcast wakes the rest; timed waits racing with signals; blocking pool pops racing with pushes",
        ref="DESIGN.md §5 C19"),
    "C20": dict(
        technique="runtime monitoring with reference models: op-by-op reference map for config objects, independent "
                  "digit-string reference for the numeric parsers, documented clamp/round rules for environment values, "
                  "recursive-descent reference of the affinity grammar; exhaustive short-string enumeration plus generated "
                  "boundary/mutated inputs; ASan+UBSan builds",
        category="exploration",
        text="held on the inputs produced: every string up to length 5-7 over the relevant alphabets (complete for that "
             "bounded space) plus hundreds of thousands of generated boundary and mutated inputs agree with independent "
             "references in value, overflow flag, acceptance and expansion; sanitizers silent",
        ref="DESIGN.md §5 C20"),
    "C16": dict(
        technique="runtime monitoring with a reference model: per-unit key->value map and destructor ledger with tagged "
                  "values, all three access APIs, cross-unit sets on disjoint keys racing with table creation, key-table "
                  "size matrix via environment, delay injection, ASan/TSan builds",
        category="exploration",
        text="held on the executions produced: every get equals the reference map, no value crosses units or keys, each "
             "non-NULL final value gets exactly one destructor call at free/auto-free/finalize (none earlier), values survive "
             "revive; for table sizes 1..1024 with up to 200 keys (long chains, chained memory blocks)",
        ref="DESIGN.md §5 C16"),
    "C17": dict(
        technique="runtime monitoring with a reference model of the live rank set checked after every operation, probe "
                  "units reading the self rank, concurrent creators with ownership records, ASan/TSan builds",
        category="exploration",
        text="held on the executions produced: hundreds of random stream-lifecycle operations per runtime lifetime agree "
             "with the reference rank set (smallest unused, grant iff free, reuse after free, get_num), join/revive cycles "
             "and main-scheduler replacement (own running stream incl. primary, terminated stream) keep work and caller "
             "running; concurrent creators never obtain equal ranks",
        ref="DESIGN.md §5 C17"),
    "C15": dict(
        technique="runtime monitoring: white-box allocator driver with a live-address ledger and per-block owner patterns, "
                  "API-level stack ownership patterns across yields, guard bytes around user stacks, pairwise disjointness "
                  "of live stacks/descriptors, malloc/mmap ledger via link-time wrappers, environment matrix, ASan/TSan",
        category="exploration",
        text="held on the executions produced: hundreds of thousands of allocator operations over several local pools "
             "sharing a global pool (bucket hand-over, partial buckets, lock-free LIFO under contention and injected delays) "
             "never hand out a live block twice or damage a live block, everything is returned at destroy; ULTs with default, "
             "odd-sized and user-supplied stacks under 9 memory-pool configurations own their whole stack exclusively, report "
             "at least the requested size, can be freed from any context, and ABT_finalize balances the ledger",
        ref="DESIGN.md §5 C15"),
    "C01": dict(
        technique="runtime monitoring: per-unit exactly-once ledger (function identity, tagged argument, start/completion "
                  "counters, starting stream vs. pool->scheduler map) over seeded random programs and configurations incl. "
                  "user-defined and stacked schedulers, checked at join / xstream_join / finalize; delay injection, CPU "
                  "squeeze, ASan/TSan builds",
        category="exploration",
        text="held on the executions produced: thousands of work units per run over random programs and scheduler/pool "
             "configurations each start exactly once with their own function and argument, complete before their joiner, "
             "before the join of the only stream serving their pool and before ABT_finalize return; pools empty at quiescence; "
             "stacked schedulers that finish while ABT_pool_add_sched is still returning; joins of multi-pool schedulers",
        ref="DESIGN.md §5 C01, §10.3, §10.5"),
    "C03": dict(
        technique="runtime monitoring: scripted join trials over the caller x target x behaviour x timing x API matrix with "
                  "completion flags and a 64-word pattern checked at the instant join/free returns, handle/state checks, "
                  "delay injection at the join-request/exit handshake points, ASan (freed descriptor/stack) and TSan builds",
        category="exploration",
        text="held on the executions produced: hundreds of distinct legal combinations of the join matrix per run, with all "
             "five handshake classes observed (no joiner, link ready, exiting ULT waited for the link, yield-loop fallback, "
             "futex wake): join/free never returned before the target finished, its writes were visible, state TERMINATED, "
             "handle NULL, and every join returned",
        ref="DESIGN.md §5 C03"),
    "C06": dict(
        technique="runtime monitoring: completion ledger checked at the instant ABT_xstream_join / ABT_finalize return while "
                  "units were blocked at call time and are resumed later by an external thread; white-box and API reads of "
                  "the per-pool blocked counter (continuous >=0 sampler, exact equality at quiescent points); delay "
                  "injection at suspend/resume/scheduler-stop points; ASan/TSan builds",
        category="exploration",
        text="held on the executions produced: in hundreds of scenarios per run the join/finalize returned only after every "
             "unit of the stream's private pool (or of a stacked scheduler's pool on it) had completed although all were "
             "blocked (eventual, cond, self-suspend, mutex) when the call was issued; stream TERMINATED afterwards; the blocked "
             "counter equalled the number of blocked units at quiescence, was 0 afterwards and never sampled negative; the "
             "same with multi-pool schedulers (shared empty pool first), joins overlapping a scheduler replacement, "
             "join-revive-idle-work-join rounds, and units that carry or receive migration requests while they block "
             "(per-pool counters compared exactly with the blocked units' pools at every all-blocked point)",
        ref="DESIGN.md §5 C06, §10.3, §10.5"),
    "C11": dict(
        technique="runtime monitoring: resume-credit accounting and a running-instance counter for suspend/resume racing "
                  "with resumers on other streams; expectation posting (next unit on the stream, caller state) checked by "
                  "whichever code runs next for every directed switch in random chains; delay injection at the "
                  "suspend/resume windows; ASan/TSan builds",
        category="exploration",
        text="held on the executions produced: tens of thousands of suspend/resume round trips with the resume issued the "
             "moment BLOCKED is observable (no run without resume, exactly one run per resume, never two running instances) "
             "and tens of thousands of directed switches of all nine kinds with fresh and started targets in same/other "
             "pools, each followed by exactly the named ULT with the caller READY/BLOCKED/TERMINATED as documented",
        ref="DESIGN.md §5 C11"),
    "C12": dict(
        technique="runtime monitoring: per-epoch lifecycle ledger (start/end counters, argument and pool of the epoch, "
                  "after-exit flag, slices observing a cancel request) over random create/cancel/exit/join/revive/free "
                  "histories, concurrent state sampler, ASan/LSan for exactly-once release, TSan",
        category="exploration",
        text="held on the executions produced: thousands of create/revive epochs per run over all behaviours and cancellation "
             "points: exit terminates at once, a cancelled unit never starts when cancelled before its first scheduling point "
             "and otherwise gets at most one more slice, the joiner is always released, revived units run the new function "
             "once with the new argument from the requested pool, no state is observed after TERMINATED, no leak/double free",
        ref="DESIGN.md §5 C12"),
    "C13": dict(
        technique="runtime monitoring: per-slice pool log of the migrating unit checked against a request ledger (exact in "
                  "sequential phases on a parked unit, latest-recorded-request rule with in-flight awareness in concurrent "
                  "phases), pending request followed by each yielding form (next slice must run on the target's stream), callback "
                  "ledger, rejection probes, delay injection at the request/handler window, ASan/LSan/TSan",
        category="exploration",
        text="held on the executions produced: hundreds of exact sequential migrations per run via all three request APIs "
             "(moved within two scheduling points, one callback each), rejected requests without effect, ABT_thread_migrate "
             "moving the unit to another running stream, and thousands of concurrent/self requests racing with yields where "
             "no recorded request was lost and the unit ran exactly once to completion",
        ref="DESIGN.md §5 C13"),
    "C14": dict(
        technique="runtime monitoring: instrumented user-defined pools (both definition APIs) whose unit objects carry a state "
                  "machine, magic word and quarantine; create/free/push/pop ledgers per pool; unit<->thread lookups from the "
                  "running unit and from other streams while units are mapped/unmapped in colliding hash buckets; "
                  "exactly-once ledger; delay injection; ASan/LSan/TSan",
        category="exploration",
        text="held on the executions produced: thousands of unit objects per run created exactly once per pool association and "
             "freed exactly once (never used after free_unit), every ABT_unit_get_thread/ABT_thread_get_unit lookup consistent "
             "including under 3-bucket hash collisions with tombstone reuse and long chains, every work unit ran exactly once "
             "under FIFO/LIFO/random pop policies",
        ref="DESIGN.md §5 C14"),
    "C02": dict(
        technique="runtime monitoring: assembly call wrapper keeping canaries in all callee-saved registers across every "
                  "switching call, per-ULT MXCSR/x87 control words, stack patterns at several depths, stale-resume counter "
                  "and running-on flag checked after each resume; stack alignment/range/overlap/guard-zone checks for "
                  "memory-pool, malloc and user-supplied stacks; library-side occupancy monitor on every context (flag set "
                  "when a stream switches to it, cleared by a wrapped switch callback once it is saved); delay injection "
                  "before saving switches; ASan/TSan",
        category="exploration",
        text="held on the executions produced: tens of thousands of checked switches per run over all 16 switch operations "
             "(targets fresh and started, resumed on the same and on other streams), all three stack provenances incl. "
             "user stacks whose top is not 16-byte aligned, with no stream ever switching to a context that was still "
             "running or unsaved",
        ref="DESIGN.md §5 C02"),
    "C18": dict(
        technique="runtime fault injection with monitors: link-time wrappers fail the k-th allocation-class call of the calling "
                  "thread for every k reached by ~95 creating/initialising call scenarios under 6 memory configurations; "
                  "oracles on return code, output handles (untouched or NULL handle), before/after snapshot of the "
                  "pre-existing objects, retry, use of the created object, follow-up workload, allocation ledger after "
                  "ABT_finalize; ASan/LSan on the same enumeration",
        category="exploration",
        text="held on the enumeration performed: every allocation-class call made by the calling thread inside the listed "
             "routines was failed once (several hundred sites per memory configuration) and the call failed cleanly, "
             "handed back no handle, left the world unchanged, succeeded on retry and leaked nothing; one listed finding "
             "(partial creation by the deprecated ABT_thread_create_many)",
        ref="DESIGN.md §5 C18"),
}


def main():
    ids = [json.loads(l)["id"] for l in open(os.path.join(VERIF, "properties.jsonl"))]
    try:
        log = subprocess.run(["git", "-C", "/repo", "log", "--format=%h %s"], stdout=subprocess.PIPE).stdout.decode()
    except OSError:
        log = ""
    hook_commits = [l.split()[0] for l in log.splitlines() if "verif hooks" in l]
    hook_commits.reverse()
    checks = []
    for pid in ids:
        if pid not in CHECKS or pid not in props.PROPS:
            continue
        c = CHECKS[pid]
        checks.append({
            "property_id": pid,
            "quick_cmd": "./check %s --tier quick" % pid,
            "thorough_cmd": "./check %s --tier thorough" % pid,
            "evidence_file": "/verif/evidence/%s.json" % pid,
            "replay_cmd_template": "./check %s --replay {path}" % pid,
            "engine": "check",
            "technique": c["technique"],
            "level_claimed": {"category": c["category"], "text": c["text"], "design_ref": c["ref"]},
            "level_note": c.get("note", COMMON_NOTE),
        })
    claimed = [c["property_id"] for c in checks]
    na = []
    for pid in ids:
        if pid not in claimed:
            na.append({"property_id": pid,
                       "reason": NOT_APPLICABLE.get(pid, "check not yet implemented in this revision (planned: DESIGN.md §5); "
                                                         "nothing is claimed for it")})
    m = {
        "version": 1,
        "setup_cmd": "python3 lib/build.py mon asan tsan",
        "hooks": {
            "guard": "PMODELS_ARGOBOTS_VERIF",
            "enable": "lib/build.py compiles /repo/src/**/*.c and the x86-64 fcontext assembly with -DPMODELS_ARGOBOTS_VERIF "
                      "(variants mon/asan/tsan/ubassert) into static libabt.a under /verif/build, keyed by a hash of /repo/src",
            "baseline_off_cmd": "make -C /repo -j16 && make -C /repo/test -j8 check",
            "source_commits": hook_commits,
            "add_only": True,
        },
        "engines": [{
            "name": "check", "path": "/verif/check", "serves_properties": claimed,
            "kind_free_text": "python driver running C harnesses (API-boundary monitors, reference models, delay/fault "
                              "injection at guarded runtime points) against mon/asan/tsan builds of the current /repo tree; "
                              "triages sanitizer logs; known-findings matching"}],
        "checks": checks,
        "not_applicable": na,
        "notes": "see DESIGN.md; known findings and fixed defects are in known_findings.json",
    }
    with open(os.path.join(VERIF, "MANIFEST.json"), "w") as f:
        json.dump(m, f, indent=1)
    print("MANIFEST.json: %d checks, %d not claimed" % (len(checks), len(na)))


NOT_APPLICABLE = {}

if __name__ == "__main__":
    main()
