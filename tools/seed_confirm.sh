#!/bin/bash
# usage: tools/seed_confirm.sh <id> <variant>   -- re-checks a sub-agent's seeded change in ITS scratch worktree
id=$1; v=$2; wt=${SEED_ROOT:-/tmp/seed}_$id; out=$wt/OUT/$v
cd $wt || exit 2
git checkout -q -- src
git apply --check $out/patch.diff || { echo "$id/$v: patch does not apply"; exit 1; }
git apply $out/patch.diff
files=$(git diff --name-only | tr '\n' ' ')
make -j16 >/dev/null 2>$out/confirm_build.err || { echo "$id/$v: BUILD FAILED"; git checkout -q -- src; exit 1; }
warn=$(grep -c "warning:" $out/confirm_build.err)
t=$(make -C test -j8 check 2>&1 | grep -E "^# (PASS|FAIL|ERROR):" | awk '{print $2 $3}' | paste -sd' ')
( cd $out/demo && timeout 900 bash ./run.sh > $out/confirm_changed.txt 2>&1; echo "rc=$?" >> $out/confirm_changed.txt )
git checkout -q -- src
make -j16 >/dev/null 2>&1
( cd $out/demo && timeout 900 bash ./run.sh > $out/confirm_unchanged.txt 2>&1; echo "rc=$?" >> $out/confirm_unchanged.txt )
echo "$id/$v files: $files| warnings:$warn | tests: $t"
echo "  changed  : $(tail -3 $out/confirm_changed.txt | tr '\n' '|' | cut -c1-300)"
echo "  unchanged: $(tail -3 $out/confirm_unchanged.txt | tr '\n' '|' | cut -c1-300)"
