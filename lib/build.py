"""Build libabt variants and harness binaries from /repo's current working tree.

Everything is keyed by a content hash over /repo/src (plus flags and harness
sources), so an edited tree is always rebuilt and an unchanged one is reused.
"""
import fcntl
import glob
import hashlib
import os
import shutil
import subprocess
import sys
import time

VERIF = os.path.dirname(os.path.dirname(os.path.abspath(__file__)))
REPO = os.environ.get("VERIF_REPO", "/repo")
BUILD = os.path.join(VERIF, "build")
HARNESS = os.path.join(VERIF, "harness")
GUARD = "PMODELS_ARGOBOTS_VERIF"
NPROC = os.cpu_count() or 4

VARIANTS = {
    "mon": ["-O2", "-g"],
    "asan": ["-O1", "-g", "-fno-omit-frame-pointer",
             "-fsanitize=address,undefined,float-cast-overflow",
             "-fno-sanitize-recover=all"],
    "tsan": ["-O1", "-g", "-fno-omit-frame-pointer", "-fsanitize=thread"],
    "ubassert": ["-O2", "-g"],
}


class BuildError(Exception):
    pass


def _sha(paths, extra=""):
    h = hashlib.sha256()
    h.update(extra.encode())
    for p in sorted(paths):
        h.update(p.encode())
        with open(p, "rb") as f:
            h.update(f.read())
    return h.hexdigest()[:16]


def repo_sources():
    cs = sorted(glob.glob(os.path.join(REPO, "src", "**", "*.c"), recursive=True))
    asm = [os.path.join(REPO, "src/arch/fcontext/fcontext_x86_64_sysv_elf_gas.S")]
    hs = sorted(glob.glob(os.path.join(REPO, "src", "**", "*.h"), recursive=True))
    return cs, asm, hs


def ensure_config_headers():
    """abt_config.h / abt.h are generated files; regenerate them out of tree if
    /repo is a bare checkout."""
    inc = os.path.join(REPO, "src/include")
    if os.path.exists(os.path.join(inc, "abt_config.h")) and \
            os.path.exists(os.path.join(inc, "abt.h")):
        return inc
    gen = os.path.join(BUILD, "gen_include")
    if os.path.exists(os.path.join(gen, "abt_config.h")) and \
            os.path.exists(os.path.join(gen, "abt.h")):
        return gen
    scratch = "/var/tmp/verif_cfg_%d" % os.getpid()
    os.makedirs(scratch, exist_ok=True)
    try:
        conf = os.path.join(REPO, "configure")
        if not os.path.exists(conf):
            raise BuildError("no abt_config.h and no configure script in /repo")
        r = subprocess.run([conf], cwd=scratch, stdout=subprocess.PIPE,
                           stderr=subprocess.STDOUT)
        if r.returncode != 0:
            raise BuildError("configure failed:\n" + r.stdout.decode()[-2000:])
        os.makedirs(gen, exist_ok=True)
        shutil.copy(os.path.join(scratch, "src/include/abt_config.h"), gen)
        shutil.copy(os.path.join(scratch, "src/include/abt.h"), gen)
    finally:
        shutil.rmtree(scratch, ignore_errors=True)
    return gen


def _run_parallel(cmds, what):
    procs = []
    errs = []
    pending = list(cmds)
    running = []
    while pending or running:
        while pending and len(running) < NPROC:
            c = pending.pop(0)
            running.append((c, subprocess.Popen(c, stdout=subprocess.PIPE,
                                                stderr=subprocess.STDOUT)))
        still = []
        for c, p in running:
            if p.poll() is None:
                still.append((c, p))
            else:
                out = p.stdout.read().decode(errors="replace")
                if p.returncode != 0:
                    errs.append(" ".join(c) + "\n" + out)
        running = still
        if running:
            time.sleep(0.01)
    if errs:
        raise BuildError("%s failed:\n%s" % (what, "\n".join(errs)[-6000:]))


def lib_hash(variant):
    cs, asm, hs = repo_sources()
    inc = os.path.join(REPO, "src/include")
    extra = [p for p in (os.path.join(inc, "abt_config.h"), os.path.join(inc, "abt.h"))
             if os.path.exists(p)]
    return _sha(cs + asm + hs + extra, variant + " ".join(VARIANTS[variant]))


def build_lib(variant):
    """Returns (libpath, include_dirs, cflags_for_harness)."""
    os.makedirs(BUILD, exist_ok=True)
    geninc = ensure_config_headers()
    h = lib_hash(variant)
    d = os.path.join(BUILD, "lib_%s_%s" % (variant, h))
    lib = os.path.join(d, "libabt.a")
    incs = [os.path.join(REPO, "src/include")]
    if geninc not in incs:
        incs.append(geninc)
    extra_flags = []
    lock = open(os.path.join(BUILD, ".lock_%s" % variant), "w")
    fcntl.flock(lock, fcntl.LOCK_EX)
    try:
        if variant == "ubassert":
            # derive a config header with UB assertions enabled
            os.makedirs(d, exist_ok=True)
            src = None
            for i in incs:
                if os.path.exists(os.path.join(i, "abt_config.h")):
                    src = os.path.join(i, "abt_config.h")
                    break
            txt = open(src).read().replace("#define ABT_CONFIG_DISABLE_UB_ASSERT 1",
                                           "/* UB asserts enabled for verification */")
            cfg = os.path.join(d, "abt_config_ub.h")
            if not os.path.exists(cfg) or open(cfg).read() != txt:
                open(cfg, "w").write(txt)
            extra_flags = ["-include", cfg]
        if os.path.exists(lib):
            return lib, incs, extra_flags
        # prune stale builds of this variant
        for old in glob.glob(os.path.join(BUILD, "lib_%s_*" % variant)):
            if old != d:
                shutil.rmtree(old, ignore_errors=True)
        for old in glob.glob(os.path.join(BUILD, "bin_%s_*" % variant)):
            shutil.rmtree(old, ignore_errors=True)
        os.makedirs(d, exist_ok=True)
        cs, asm, _ = repo_sources()
        flags = ["-DHAVE_CONFIG_H", "-D" + GUARD, "-Wno-error", "-w", "-fvisibility=hidden"] + \
            VARIANTS[variant] + extra_flags
        for i in incs:
            flags += ["-I", i]
        cmds = []
        objs = []
        for s in cs + asm:
            o = os.path.join(d, os.path.relpath(s, REPO).replace("/", "_") + ".o")
            objs.append(o)
            cmds.append(["gcc"] + flags + ["-c", s, "-o", o])
        _run_parallel(cmds, "library build (%s)" % variant)
        tmp = lib + ".tmp"
        r = subprocess.run(["ar", "rcs", tmp] + objs, stdout=subprocess.PIPE,
                           stderr=subprocess.STDOUT)
        if r.returncode != 0:
            raise BuildError("ar failed: " + r.stdout.decode())
        os.rename(tmp, lib)
        for o in objs:
            os.unlink(o)
        return lib, incs, extra_flags
    finally:
        fcntl.flock(lock, fcntl.LOCK_UN)
        lock.close()


def build_harness(name, variant, extra_sources=(), ldflags=(), cflags=()):
    """Compile harness/<name>.c (+vrt + extra) against the variant lib.
    Returns path of the binary."""
    lib, incs, xflags = build_lib(variant)
    srcs = [os.path.join(HARNESS, name + ".c"), os.path.join(HARNESS, "vrt.c")]
    for e in extra_sources:
        srcs.append(os.path.join(HARNESS, e))
    hdrs = glob.glob(os.path.join(HARNESS, "*.h"))
    hh = _sha(srcs + hdrs + [lib], variant + " ".join(ldflags) + " ".join(cflags))
    d = os.path.join(BUILD, "bin_%s_%s" % (variant, os.path.basename(os.path.dirname(lib))[-16:]))
    out = os.path.join(d, "%s_%s" % (name, hh))
    if os.path.exists(out):
        return out
    lock = open(os.path.join(BUILD, ".lock_h_%s_%s" % (variant, name)), "w")
    fcntl.flock(lock, fcntl.LOCK_EX)
    try:
        if os.path.exists(out):
            return out
        os.makedirs(d, exist_ok=True)
        for old in glob.glob(os.path.join(d, name + "_*")):
            try:
                os.unlink(old)
            except OSError:
                pass
        flags = ["-DHAVE_CONFIG_H", "-D" + GUARD, "-DVERIF_VARIANT_" + variant.upper(),
                 "-Wall", "-Wno-unused-function", "-Wno-unused-variable",
                 "-Wno-unused-but-set-variable", "-I", HARNESS] + \
            VARIANTS[variant] + xflags + list(cflags)
        for i in incs:
            flags += ["-I", i]
        tmp = out + ".tmp%d" % os.getpid()
        cmd = ["gcc"] + flags + srcs + [lib, "-o", tmp, "-rdynamic", "-lpthread", "-lrt", "-ldl", "-lm"] + list(ldflags)
        r = subprocess.run(cmd, stdout=subprocess.PIPE, stderr=subprocess.STDOUT)
        if r.returncode != 0:
            raise BuildError("harness build failed (%s/%s):\n%s" %
                             (name, variant, r.stdout.decode(errors="replace")[-8000:]))
        os.rename(tmp, out)
        return out
    finally:
        fcntl.flock(lock, fcntl.LOCK_UN)
        lock.close()


if __name__ == "__main__":
    for v in sys.argv[1:] or ["mon"]:
        t = time.time()
        print(build_lib(v)[0], "%.1fs" % (time.time() - t))
