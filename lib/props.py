"""Per-property scenario matrices."""
from .driver import Check, Run, hammer

PROPS = {}


def prop(pid):
    def deco(f):
        PROPS[pid] = f
        return f
    return deco


def seeds(seed, n, salt=0):
    return [(seed * 1000003 + salt * 7919 + i * 104729) % (2 ** 31) for i in range(n)]


def has_cov(run, *names):
    from .driver import _point_names
    if not run.result:
        return False
    inv = {v: k for k, v in _point_names().items()}
    cov = run.result.get("cov", {})
    return all(cov.get(str(inv.get(n, -1)), 0) > 0 for n in names)


# ---------------------------------------------------------------------------
@prop("C04")
def c04(tier, seed):
    c = Check("C04", tier, seed)
    c.rule = ("each case = one seeded scenario: random stream/pool/scheduler configuration, 1-2 mutexes "
              "(created/static/recursive), 2-16 mixed ULT/tasklet/external lockers doing lock/trylock/spinlock/"
              "lock_low/lock_high with nested recursive depth; non-trivial = the process observed real blocking "
              "(MUTEX_LOCK_WAIT>0) and a second try under the waiter lock; distinct = distinct (variant, delay "
              "profile, configuration signature)")
    c.assumptions = ["holder registers itself right after the acquiring call returns and deregisters right before "
                     "the releasing call (monitor at the API boundary)",
                     "liveness is decided as logical deadlock (all actors inside a lock call, pools empty, "
                     "no progress over three samples)"]
    q = tier == "quick"
    profiles = ["off", "uniform",
                hammer("MUTEX_LOCK_AFTER_FAIL", "MUTEX_LOCK_BEFORE_RETRY", "MUTEX_UNLOCK_BEFORE_RELEASE",
                       "MUTEX_UNLOCK_BEFORE_BROADCAST"),
                hammer("FUTEX_WAIT_AFTER_UNLOCK", "BROADCAST_BEFORE_FUTEX", "WAITLIST_EXT_AFTER_WAKE",
                       "SUSPEND_AFTER_BLOCKED", "RESUME_AFTER_PUSH")]
    n = 0
    for i, s in enumerate(seeds(seed, 8 if q else 60)):
        prof = profiles[i % len(profiles)]
        args = ["--seed", s, "--rounds", 6 if q else 12, "--iters", 1500 if q else 6000, "--delay", prof,
                "--max-es", 4, "--max-actors", 12, "--watchdog", 60]
        if i % 4 == 3:
            args = ["--seed", s, "--rounds", 4 if q else 8, "--iters", 400 if q else 1500, "--delay", prof,
                    "--max-es", 4, "--max-actors", 10, "--watchdog", 60, "--squeeze", 2]
        c.add(Run("h_mutex", "mon", args, weight=4, tag="soup%d" % i))
    for i, s in enumerate(seeds(seed, 1 if q else 5, salt=1)):
        c.add(Run("h_mutex", "asan", ["--seed", s, "--rounds", 4, "--iters", 600, "--delay", profiles[(i + 1) % 4],
                                      "--max-es", 3, "--max-actors", 8], weight=4, tag="asan%d" % i))
    for i, s in enumerate(seeds(seed, 1 if q else 5, salt=2)):
        c.add(Run("h_mutex", "tsan", ["--seed", s, "--rounds", 3, "--iters", 300, "--delay", profiles[(i + 2) % 4],
                                      "--max-es", 3, "--max-actors", 8], weight=4, tag="tsan%d" % i))
    c.nontrivial = lambda r: has_cov(r, "MUTEX_LOCK_WAIT")
    c.required_points = ["MUTEX_LOCK_WAIT", "MUTEX_LOCK_RETRY_WON", "BROADCAST_ULT", "BROADCAST_EXT"]
    c.required_counters = ["acquisitions", "nested_acquisitions", "trylock_failed", "acq_by_ext", "acq_by_tasklet"]
    return c


def soup(c, harness, profiles, q, seed, mon_args, san_args, n_mon=(8, 60), n_asan=(1, 5), n_tsan=(1, 5),
         squeeze_args=None, weight=4, extra_sources=(), ldflags=(), cflags=(), env=None):
    """Common shape: many seeded mon processes cycling through delay profiles (every 4th CPU-squeezed),
    plus a few asan and tsan processes."""
    for i, s in enumerate(seeds(seed, n_mon[0] if q else n_mon[1])):
        prof = profiles[i % len(profiles)]
        args = ["--seed", s, "--delay", prof, "--watchdog", 60 if q else 240]
        if i % 4 == 3 and squeeze_args is not None:
            args += ["--squeeze", 2] + list(squeeze_args(q))
        else:
            args += list(mon_args(q))
        c.add(Run(harness, "mon", args, weight=weight, tag="mon%d" % i, extra_sources=extra_sources,
                  ldflags=ldflags, cflags=cflags, env=env))
    for i, s in enumerate(seeds(seed, n_asan[0] if q else n_asan[1], salt=1)):
        c.add(Run(harness, "asan", ["--seed", s, "--delay", profiles[(i + 1) % len(profiles)], "--watchdog", 60 if q else 240] +
                  list(san_args(q)), weight=weight, tag="asan%d" % i, extra_sources=extra_sources,
                  ldflags=ldflags, cflags=cflags, env=env))
    for i, s in enumerate(seeds(seed, n_tsan[0] if q else n_tsan[1], salt=2)):
        c.add(Run(harness, "tsan", ["--seed", s, "--delay", profiles[(i + 2) % len(profiles)], "--watchdog", 60 if q else 240] +
                  list(san_args(q)), weight=weight, tag="tsan%d" % i, extra_sources=extra_sources,
                  ldflags=ldflags, cflags=cflags, env=env))


WAITLIST_HAMMER = ("FUTEX_WAIT_AFTER_UNLOCK", "BROADCAST_BEFORE_FUTEX", "WAITLIST_EXT_AFTER_WAKE",
                   "SUSPEND_BEFORE_BLOCKED", "SUSPEND_AFTER_BLOCKED", "RESUME_AFTER_PUSH", "SIGNAL_EXT_AFTER_READY")


@prop("C08")
def c08(tier, seed):
    c = Check("C08", tier, seed)
    q = tier == "quick"
    c.rule = ("each case = one seeded scenario: random configuration, a barrier with num_waiters 1..24 used for up to "
              "max-rounds back-to-back rounds by ULT and external waiters (tasklet callers on a 1-waiter barrier), up to 3 "
              "phases separated by ABT_barrier_reinit, plus an ABT_xstream_barrier phase on private-pool configurations; "
              "non-trivial = waiters really blocked (WAITLIST_ULT_WAIT or futex wait seen); distinct = distinct "
              "(variant, delay profile, configuration/phase signature)")
    c.assumptions = ["arrival is counted immediately before the call and checked immediately after it returns"]
    profiles = ["off", "uniform", hammer(*WAITLIST_HAMMER), "heavy"]
    soup(c, "h_barrier", profiles, q, seed,
         mon_args=lambda q: ["--scenarios", 8 if q else 20, "--max-rounds", 1500 if q else 8000],
         san_args=lambda q: ["--scenarios", 4, "--max-rounds", 300],
         squeeze_args=lambda q: ["--scenarios", 4, "--max-rounds", 300 if q else 1500])
    c.nontrivial = lambda r: has_cov(r, "WAITLIST_ULT_WAIT")
    c.required_points = ["WAITLIST_ULT_WAIT", "BROADCAST_ULT", "BROADCAST_EXT", "FUTEX_WAIT_AFTER_UNLOCK"]
    c.required_counters = ["rounds", "reinits", "xstream_barrier_rounds", "reentered_while_others_leaving",
                           "tasklet_rejected_on_the_shared_barrier", "xstream_barrier_external_waiters",
                           "xstream_barrier_phases_with_one_stream", "reinit_issued_by_a_waiter_right_after_its_last_wait"]
    return c


COND_HAMMER = ("COND_WAIT_AFTER_UNLOCK", "TIMEDOUT_BEFORE_RELOCK", "SIGNAL_EXT_AFTER_READY", "BROADCAST_BEFORE_FUTEX",
               "FUTEX_WAIT_AFTER_UNLOCK", "SUSPEND_AFTER_BLOCKED", "RESUME_AFTER_PUSH")


@prop("C05")
def c05(tier, seed):
    c = Check("C05", tier, seed)
    q = tier == "quick"
    c.rule = ("soup case = one closed producer/consumer program (1-10 producers and as many consumers, ULT/external, "
              "0-70% timed waits incl. deadlines in the past) on a random configuration; script case = one queue shape of "
              "1-5 waiters {ULT,external}x{timed,untimed} driven by a random script of clock advances/signals/broadcasts "
              "under a manual virtual clock; non-trivial soup = real blocking observed (WAITLIST_ULT_WAIT or external futex "
              "waits) ; distinct = distinct configuration signatures (soup) + distinct queue shapes counted by the harness")
    c.assumptions = ["monitor discipline: signal/broadcast issued while holding the mutex (as the property states)",
                     "credit accounting over-approximates outstanding wake-ups when timed waiters are in flight, so it "
                     "can miss but never invent a spurious wake-up; exact wake-up sets are checked in the scripted shapes"]
    profiles = ["off", "uniform", hammer(*COND_HAMMER), hammer(*WAITLIST_HAMMER)]
    soup(c, "h_cond", profiles, q, seed,
         mon_args=lambda q: ["--mode", "soup", "--rounds", 8 if q else 24, "--quota", 300 if q else 1500],
         san_args=lambda q: ["--mode", "soup", "--rounds", 4, "--quota", 120],
         squeeze_args=lambda q: ["--mode", "soup", "--rounds", 4, "--quota", 100 if q else 400],
         extra_sources=("vclock.c",))
    for i, s in enumerate(seeds(seed, 2 if q else 16, salt=5)):
        c.add(Run("h_cond", "mon", ["--seed", s, "--mode", "script", "--shapes", 400 if q else 3000, "--max-n", 5,
                                    "--watchdog", 120 if q else 600], weight=2, tag="script%d" % i,
                  extra_sources=("vclock.c",)))
    c.add(Run("h_cond", "asan", ["--seed", seed + 77, "--mode", "script", "--shapes", 150 if q else 1500, "--max-n", 5,
                                 "--watchdog", 120], weight=2, tag="script-asan", extra_sources=("vclock.c",)))
    # atomic release-and-wait: a signaller that owns the mutex after the waiter released it inside the wait cannot be missed
    for i, s in enumerate(seeds(seed, 3 if q else 16, salt=8)):
        c.add(Run("h_cond", ("mon", "mon", "tsan")[i % 3], ["--seed", s, "--mode", "handoff", "--rounds", 4 if q else 12,
                                                        "--trials", 3000 if q else 20000,
                                                        "--delay", ("off", hammer("COND_WAIT_AFTER_UNLOCK",
                                                                                  "MUTEX_UNLOCK_BEFORE_RELEASE"))[i % 2],
                                                        "--watchdog", 120 if q else 900], weight=4, tag="handoff%d" % i,
                  extra_sources=("vclock.c",)))
    c.nontrivial = lambda r: has_cov(r, "WAITLIST_ULT_WAIT") or (r.result or {}).get("scenario") == "cond_script"
    c.required_points = ["WAITLIST_ULT_WAIT", "SIGNAL_ULT", "BROADCAST_EXT", "TIMEDOUT_REMOVE_HEAD",
                         "TIMEDOUT_REMOVE_MIDDLE", "TIMEDOUT_REMOVE_TAIL", "SIGNAL_EXT_AFTER_READY"]
    c.required_counters = ["handoff_trials", "handoff_timed_waits", "deadline_far_future_in_soup",
                           "nested_relocks_after_wait_with_recursive_mutex", "waits", "timedwaits", "timeouts", "signals", "broadcasts", "waits_by_external",
                           "wrong_mutex_rejected", "signal_with_no_waiter", "shapes"]
    return c


@prop("C09")
def c09(tier, seed):
    c = Check("C09", tier, seed)
    q = tier == "quick"
    c.rule = ("each case = one scenario: an eventual (nbytes 0/1/8/100/4096) or a future (0/1/2/3/7/64 compartments, with or "
              "without callback) used for 1..N ready epochs separated by reset; per epoch racing setters (more attempts than "
              "needed), 0-9 waiters and 0-3 testers of ULT/tasklet/external kind; non-trivial = some waiter really blocked "
              "before the set (WAITLIST_ULT_WAIT or external futex wait) ; distinct = distinct (variant, delay profile, "
              "configuration x object-shape signature)")
    c.assumptions = ["the winner of racing sets is identified by its return code; observers' reads are compared with the "
                     "winner's byte pattern after the epoch"]
    profiles = ["off", "uniform", hammer(*WAITLIST_HAMMER), "heavy"]
    soup(c, "h_evfut", profiles, q, seed,
         mon_args=lambda q: ["--scenarios", 8 if q else 24, "--epochs", 40 if q else 200],
         san_args=lambda q: ["--scenarios", 4, "--epochs", 15],
         squeeze_args=lambda q: ["--scenarios", 4, "--epochs", 12 if q else 60])
    c.nontrivial = lambda r: has_cov(r, "WAITLIST_ULT_WAIT")
    c.required_points = ["WAITLIST_ULT_WAIT", "BROADCAST_ULT", "BROADCAST_EXT", "EVENTUAL_SET_REJECTED", "FUTURE_CALLBACK"]
    c.required_counters = ["eventual_epochs", "future_epochs", "sets_ok", "sets_rejected", "waits_returned",
                           "waits_started_before_set", "tests_ready", "tests_not_ready", "callbacks",
                           "future_0_compartments_epochs", "reset_race_scenarios", "reset_race_waiters"]
    return c


@prop("C10")
def c10(tier, seed):
    c = Check("C10", tier, seed)
    q = tier == "quick"
    c.rule = ("each case = one scenario: scripted reader-inclusion phases (two external readers; two ULT readers on "
              "different streams) followed by a soup of 2-25 ULT/external lockers (tasklet callers may be rejected) with "
              "5/20/50/90% writes, yields inside critical sections; non-trivial = lockers really blocked (COND/WAITLIST "
              "waits seen) and several readers were inside together; distinct = distinct (variant, delay, configuration "
              "signature)")
    c.assumptions = ["reader/writer presence is registered right after the acquiring call returns and removed right "
                     "before unlock is called"]
    profiles = ["off", "uniform", hammer(*COND_HAMMER), hammer("MUTEX_LOCK_AFTER_FAIL", "MUTEX_LOCK_BEFORE_RETRY",
                                                               "MUTEX_UNLOCK_BEFORE_RELEASE", "MUTEX_UNLOCK_BEFORE_BROADCAST")]
    soup(c, "h_rwlock", profiles, q, seed,
         mon_args=lambda q: ["--rounds", 8 if q else 24, "--iters", 1200 if q else 6000],
         san_args=lambda q: ["--rounds", 4, "--iters", 300],
         squeeze_args=lambda q: ["--rounds", 4, "--iters", 250 if q else 1000])
    c.nontrivial = lambda r: has_cov(r, "WAITLIST_ULT_WAIT") and (r.result or {}).get("counters", {}).get(
        "reads_with_other_readers_inside", 0) > 0
    c.required_points = ["WAITLIST_ULT_WAIT", "BROADCAST_ULT", "BROADCAST_EXT"]
    c.required_counters = ["read_acquisitions", "write_acquisitions", "scripted_reader_inclusion",
                           "scripted_readers_admitted_together_after_writer", "reads_with_other_readers_inside",
                           "yields_inside_cs"]
    return c


POOL_HAMMER = ("POP_NONEMPTY_SEEN", "PUSH_BEFORE_LOCK")


@prop("C07")
def c07(tier, seed):
    c = Check("C07", tier, seed)
    q = tier == "quick"
    c.rule = ("each case = one history on one pool (kind x access mode drawn at random, 1-24 tokens, as many producer/consumer "
              "OS threads as the access mode permits): a sequential phase compared op-by-op with a reference deque, blocking "
              "pops on the empty pool, then a concurrent phase of push/push_many/pop/pop_many/pop_wait/pop_timedwait/remove "
              "whose logged call/return tickets are checked offline (fresh, repeat, loss, FIFO order, empty pops, quiescent "
              "size); non-trivial = the history contains at least one successful and one empty pop; distinct = distinct "
              "(variant, delay, kind/access/token-class/producer/consumer signature)")
    c.assumptions = ["call/return tickets come from one global atomic counter taken before the call and after the return, so "
                     "the real-time order used by the checker is a linearizable total order",
                     "all checker conditions are necessary conditions of linearizability (sound), not a complete decision"]
    profiles = ["off", hammer(*POOL_HAMMER), "heavy", "uniform"]
    soup(c, "h_pool", profiles, q, seed,
         mon_args=lambda q: ["--histories", 50 if q else 400, "--ops", 400 if q else 1500],
         san_args=lambda q: ["--histories", 15 if q else 60, "--ops", 150],
         squeeze_args=lambda q: ["--histories", 25 if q else 150, "--ops", 200 if q else 600],
         n_mon=(8, 60), n_asan=(1, 6), n_tsan=(1, 6), weight=6)
    c.nontrivial = lambda r: (r.result or {}).get("counters", {}).get("pops_with_unit", 0) > 0 and \
        (r.result or {}).get("counters", {}).get("pops_empty", 0) > 0
    c.required_points = ["POP_NONEMPTY_SEEN", "POP_LOCK_CONTENDED", "POP_BECAME_EMPTY"]
    c.required_counters = ["histories_fifo", "histories_fifo_wait", "histories_randws", "histories_priv", "histories_spsc",
                           "histories_mpsc", "histories_spmc", "histories_mpmc", "pops_with_unit", "pops_empty",
                           "popwait_with_unit", "popwait_empty", "removes_ok", "removes_not_in_pool", "batch_operations",
                           "sequential_model_ops", "fifo_ordered_pairs_checked", "empty_pops_judged"]
    return c


@prop("C19")
def c19(tier, seed):
    c = Check("C19", tier, seed)
    q = tier == "quick"
    c.rule = ("cond part: scripted queue shapes (1-6 waiters {ULT,external}x{timed,untimed}, distinct deadlines incl. far "
              "future) under a manual virtual clock, each driven by a random script of clock advances/signals/broadcasts and "
              "compared with a reference queue after every step, plus producer/consumer soups with 0-70% timed waits (past/"
              "now/near-future deadlines) racing with signals; pool part: pool histories with pop_wait/pop_timedwait racing "
              "with pushes (exactly-once, no empty return while provably non-empty) and blocking pops on a pool that stays "
              "empty; non-trivial = a timed-out waiter was removed from the queue / a blocking pop returned a unit pushed "
              "while it waited; distinct = distinct queue shapes (counted by the harness) + distinct soup/history signatures")
    c.assumptions = ["virtual clock: the harness's clock_gettime() replaces libc's for the statically linked library; "
                     "external timed waiters really sleep, so their deadlines are a few virtual milliseconds apart",
                     "'returns in bounded time' is decided by the call returning at all before a 20 s (x sanitizer factor) "
                     "bound in uncontended phases; measured durations are evidence only"]
    for i, s in enumerate(seeds(seed, 3 if q else 24, salt=5)):
        c.add(Run("h_cond", "mon", ["--seed", s, "--mode", "script", "--shapes", 500 if q else 4000, "--max-n", 6,
                                    "--watchdog", 120 if q else 900], weight=2, tag="script%d" % i,
                  extra_sources=("vclock.c",)))
    c.add(Run("h_cond", "asan", ["--seed", seed + 177, "--mode", "script", "--shapes", 200 if q else 2500, "--max-n", 6,
                                 "--watchdog", 120], weight=2, tag="script-asan", extra_sources=("vclock.c",)))
    c.add(Run("h_cond", "tsan", ["--seed", seed + 178, "--mode", "script", "--shapes", 60 if q else 600, "--max-n", 5,
                                 "--watchdog", 120], weight=2, tag="script-tsan", extra_sources=("vclock.c",)))
    profiles = [hammer("TIMEDOUT_BEFORE_RELOCK", "SIGNAL_EXT_AFTER_READY", "COND_WAIT_AFTER_UNLOCK",
                       "FUTEX_WAIT_AFTER_UNLOCK"), "uniform", "off"]
    for i, s in enumerate(seeds(seed, 4 if q else 30, salt=6)):
        c.add(Run("h_cond", "mon", ["--seed", s, "--mode", "soup", "--rounds", 6 if q else 20, "--quota", 250 if q else 1200,
                                    "--delay", profiles[i % 3], "--watchdog", 60 if q else 300], weight=4,
                  tag="soup%d" % i, extra_sources=("vclock.c",)))
    pprof = ["off", hammer(*POOL_HAMMER), "uniform"]
    for i, s in enumerate(seeds(seed, 4 if q else 30, salt=7)):
        c.add(Run("h_pool", "mon", ["--seed", s, "--histories", 30 if q else 300, "--ops", 300 if q else 1200,
                                    "--delay", pprof[i % 3], "--watchdog", 60 if q else 300], weight=6, tag="pool%d" % i))
    c.add(Run("h_pool", "asan", ["--seed", seed + 179, "--histories", 10 if q else 60, "--ops", 150, "--watchdog", 60],
              weight=6, tag="pool-asan"))
    c.nontrivial = lambda r: True
    c.required_points = ["TIMEDOUT_REMOVE_HEAD", "TIMEDOUT_REMOVE_MIDDLE", "TIMEDOUT_REMOVE_TAIL", "TIMEDOUT_ALREADY_READY",
                         "TIMEDOUT_BEFORE_RELOCK"]
    c.required_counters = ["shapes", "timeouts", "signals", "broadcasts", "popwait_with_unit", "popwait_empty",
                           "blocking_pops_on_empty_pool_returned", "deadline_in_past",
                           "blocked_consumers_woken_by_single_pushes"]
    return c


@prop("C20")
def c20(tier, seed):
    c = Check("C20", tier, seed)
    q = tier == "quick"
    c.rule = ("cfgmap case = one sched/pool config object driven by a random sequence of create-with-varargs/set/delete/get/"
              "read ops (keys: negatives, multiples of the table size, INT_MIN/INT_MAX, reserved -1..-4; int/double/pointer "
              "values) compared op-by-op with a reference map; atoi case = one string (all strings of length <= L over "
              "{0,1,9,+,-,space,tab,a} plus generated boundary strings around every type limit, 1-400 digits, signs, junk) "
              "compared with a reference deciding on decimal digit strings; env case = one ABT_*/ABT_ENV_* variable set to a "
              "generated string, effective value compared with the documented default/min/max/rounding (+ ABT_init and a "
              "smoke workload when all values are sane); affinity case = one string (all strings of length <= L over "
              "{0,1,9,-,+,space,{,},:,comma} plus grammar-generated and mutated ones) compared with a recursive-descent "
              "reference: acceptance and expanded id lists. distinct_nontrivial is counted by the harness (enumerated "
              "strings are all distinct; generated ones are counted at one half to allow for repeats)")
    c.assumptions = ["parsers and ABTD_env_init are driven white-box through the statically linked library (affinity is not "
                     "compiled into ABT_init in this build)",
                     "legal affinity strings whose expansion exceeds 200000 ids or whose <num> reaches the implementation "
                     "limit 2^20 are generated rarely and not judged"]
    s = seeds(seed, 8)
    L = 5 if q else 6
    c.add(Run("h_conf", "mon", ["--seed", s[0], "--mode", "cfgmap", "--objects", 200 if q else 4000, "--ops", 250 if q else 500],
              weight=1, tag="cfgmap"))
    c.add(Run("h_conf", "asan", ["--seed", s[1], "--mode", "cfgmap", "--objects", 100 if q else 2000, "--ops", 250], weight=1,
              tag="cfgmap-asan"))
    c.add(Run("h_conf", "mon", ["--seed", s[2], "--mode", "atoi", "--exhaustive-len", 5 if q else 7,
                                "--generated", 400000 if q else 20000000], weight=1, tag="atoi", timeout=900))
    c.add(Run("h_conf", "asan", ["--seed", s[3], "--mode", "atoi", "--exhaustive-len", 4 if q else 6,
                                 "--generated", 100000 if q else 3000000], weight=1, tag="atoi-asan", timeout=900))
    c.add(Run("h_conf", "mon", ["--seed", s[4], "--mode", "env", "--cases", 400 if q else 6000, "--watchdog", 120 if q else 900],
              weight=2, tag="env"))
    c.add(Run("h_conf", "asan", ["--seed", s[5], "--mode", "env", "--cases", 150 if q else 2000, "--watchdog", 120 if q else 900],
              weight=2, tag="env-asan"))
    c.add(Run("h_conf", "mon", ["--seed", s[6], "--mode", "affinity", "--exhaustive-len", L,
                                "--generated", 500000 if q else 30000000, "--watchdog", 120 if q else 1800], weight=1,
              tag="affinity", timeout=2000))
    c.add(Run("h_conf", "asan", ["--seed", s[7], "--mode", "affinity", "--exhaustive-len", 4 if q else 5,
                                 "--generated", 150000 if q else 5000000, "--watchdog", 120 if q else 1800], weight=1,
              tag="affinity-asan", timeout=2000))
    c.nontrivial = lambda r: True
    c.required_counters = ["config_ops", "atoi_exhaustive_strings", "atoi_generated_strings", "atoi_saturated",
                           "atoi_non_numbers", "env_values_in_range", "env_values_clamped", "env_unparsable_default",
                           "env_smoke_workloads", "affinity_valid", "affinity_invalid", "affinity_ids_compared"]
    return c


@prop("C16")
def c16(tier, seed):
    c = Check("C16", tier, seed)
    q = tier == "quick"
    c.rule = ("each case = one scenario: 1-200 keys (with/without destructor), 2-64 units (named/unnamed ULTs and tasklets + "
              "the primary ULT) doing random set/get through ABT_key_*, ABT_self_*_specific and ABT_thread_*_specific on "
              "their own keys while partner ULTs set a disjoint key range on them from other streams (incl. a rendezvous so "
              "both first setters race to create the table), join/revive/free, compared with a per-unit reference map and a "
              "destructor ledger; one process per ABT_KEY_TABLE_SIZE in {1,2,4,8,64,1024,default}; non-trivial = chains "
              "longer than the table (new key-table block allocated) ; distinct = distinct (variant, delay, table size, "
              "configuration signature)")
    c.assumptions = ["owner and partner never touch the same key concurrently (the property quantifies over sets by another "
                     "unit on other keys)"]
    sizes = ["1", "2", "4", "8", "64", "1024", None, "3"]
    profiles = ["off", hammer("KTABLE_CREATED", "KTABLE_SET_BEFORE_LOCK"), "uniform", hammer("KTABLE_CREATED")]
    n = 8 if q else 64
    for i, s in enumerate(seeds(seed, n)):
        env = {} if sizes[i % 8] is None else {"ABT_KEY_TABLE_SIZE": sizes[i % 8]}
        c.add(Run("h_key", "mon", ["--seed", s, "--scenarios", 6 if q else 16, "--ops", 300 if q else 1200,
                                   "--delay", profiles[i % 4], "--watchdog", 60 if q else 300], env=env, weight=4,
                  tag="mon%d" % i))
    for i, s in enumerate(seeds(seed, 2 if q else 8, salt=1)):
        c.add(Run("h_key", "asan", ["--seed", s, "--scenarios", 4, "--ops", 150, "--max-units", 32,
                                    "--delay", profiles[(i + 1) % 4], "--watchdog", 60],
                  env={"ABT_KEY_TABLE_SIZE": sizes[(i * 3) % 6]}, weight=4, tag="asan%d" % i))
    for i, s in enumerate(seeds(seed, 2 if q else 8, salt=2)):
        c.add(Run("h_key", "tsan", ["--seed", s, "--scenarios", 3, "--ops", 100, "--max-units", 24,
                                    "--delay", profiles[(i + 1) % 4], "--watchdog", 60],
                  env={"ABT_KEY_TABLE_SIZE": sizes[(i * 3 + 1) % 6]}, weight=4, tag="tsan%d" % i))
    c.nontrivial = lambda r: has_cov(r, "KTABLE_NEW_BLOCK")
    c.required_points = ["KTABLE_CREATED", "KTABLE_NEW_BLOCK", "KTABLE_SET_BEFORE_LOCK"]
    c.required_counters = ["sets", "gets_value", "gets_null", "destructor_calls", "revived_units", "sets_by_other_unit",
                           "keys_without_destructor", "units_named_ult", "units_unnamed_ult", "units_named_tasklet",
                           "units_unnamed_tasklet", "units_primary"]
    return c


@prop("C17")
def c17(tier, seed):
    c = Check("C17", tier, seed)
    q = tier == "quick"
    c.rule = ("each case = one runtime lifetime: a sequential phase of random create / create_with_rank / set_rank / "
              "join+revive cycles (optionally replacing the scheduler of the terminated stream) / set_main_sched[_basic] "
              "from a ULT on its own stream (secondary and primary) / free over <=32 live streams with ranks up to 300, "
              "checked op-by-op against a reference rank set (+ probe units reading self rank), then a concurrent phase "
              "where 2-8 ULT/external workers create, re-rank and free their own streams at the same time; non-trivial = "
              "the run exercised refused duplicates, gap reuse and head/middle/tail list insertions")
    c.assumptions = ["in the concurrent phase a worker withdraws its record while set_rank/free is in flight, so two records "
                     "holding the same rank at once prove a duplicate grant"]
    env = {"ABT_MAX_NUM_XSTREAMS": "512"}
    for i, s in enumerate(seeds(seed, 3 if q else 24)):
        args = ["--seed", s, "--scenarios", 3 if q else 8, "--ops", 150 if q else 600, "--conc-ops", 60 if q else 250,
                "--watchdog", 120 if q else 600]
        if i % 3 == 2:
            args += ["--squeeze", 4, "--delay", "uniform"]
        c.add(Run("h_rank", "mon", args, env=env, weight=16, tag="mon%d" % i))
    c.add(Run("h_rank", "asan", ["--seed", seed + 5, "--scenarios", 2, "--ops", 100, "--conc-ops", 40, "--watchdog", 120],
              env=env, weight=16, tag="asan"))
    c.add(Run("h_rank", "tsan", ["--seed", seed + 6, "--scenarios", 1, "--ops", 60, "--conc-ops", 30, "--watchdog", 120],
              env=env, weight=16, tag="tsan"))
    # stream lifecycle: join overlapping a replacement of the main scheduler, join / revive / idle / work / join
    for i, s in enumerate(seeds(seed, 2 if q else 10, salt=7)):
        c.add(Run("h_units", "mon", ["--seed", s, "--mode", "joinmix", "--scenarios", 60 if q else 400, "--delay",
                                     ("uniform", "off")[i % 2], "--watchdog", 90 if q else 600], weight=4, tag="joinmix%d" % i))
    c.nontrivial = lambda r: True
    c.required_points = ["RANK_INSERT_MIDDLE", "RANK_INSERT_TAIL", "RANK_GAP_REUSED"]
    c.required_counters = ["create_smallest_unused", "create_with_rank_granted", "create_with_rank_refused_duplicate",
                           "set_rank_granted", "set_rank_refused_duplicate", "frees", "join_revive_cycles",
                           "set_main_sched_on_terminated_stream", "set_main_sched_on_own_stream", "concurrent_ops",
                           "concurrent_refused_duplicate"]
    return c


ALLOCWRAP_LD = ("-Wl,--wrap=malloc,--wrap=calloc,--wrap=realloc,--wrap=posix_memalign,--wrap=free,--wrap=mmap,"
                "--wrap=munmap,--wrap=pthread_create,--wrap=pthread_mutex_init,--wrap=pthread_cond_init,"
                "--wrap=pthread_barrier_init",)

MEM_ENVS = [
    {},
    {"ABT_STACK_OVERFLOW_CHECK": "mprotect"},
    {"ABT_STACK_OVERFLOW_CHECK": "mprotect_strict", "ABT_MEM_MAX_NUM_STACKS": "2"},
    {"ABT_MEM_LP_ALLOC": "malloc", "ABT_MEM_MAX_NUM_STACKS": "4", "ABT_MEM_MAX_NUM_DESCS": "2"},
    {"ABT_MEM_LP_ALLOC": "thp", "ABT_MEM_STACK_PAGE_SIZE": "262144", "ABT_MEM_PAGE_SIZE": "4096"},
    {"ABT_MEM_LP_ALLOC": "mmap_hp_thp", "ABT_THREAD_STACKSIZE": "16448", "ABT_MEM_MAX_NUM_STACKS": "16"},
    {"ABT_MEM_LP_ALLOC": "mmap_rp", "ABT_THREAD_STACKSIZE": "100000", "ABT_MEM_MAX_NUM_STACKS": "16",
     "ABT_MEM_MAX_NUM_DESCS": "16"},
    {"ABT_MEM_LP_ALLOC": "mmap_hp_rp", "ABT_MEM_STACK_PAGE_SIZE": "8388608", "ABT_MEM_PAGE_SIZE": "8388608",
     "ABT_MEM_MAX_NUM_STACKS": "1024"},
    {"ABT_STACK_OVERFLOW_CHECK": "mprotect", "ABT_MEM_LP_ALLOC": "malloc", "ABT_THREAD_STACKSIZE": "32768",
     "ABT_MEM_MAX_NUM_DESCS": "4"},
]


@prop("C15")
def c15(tier, seed):
    c = Check("C15", tier, seed)
    q = tier == "quick"
    c.rule = ("alloc case = one white-box scenario: a global memory pool (element 64 B..16 KiB, header offset, page 4 KiB..8 MiB, "
              "1..512 headers per bucket, mmap/memalign/malloc pages) with 1-8 local pools each driven by its own OS thread "
              "doing random alloc/free/hand-over in grow/shrink/churn phases; stacks case = one runtime lifetime under one "
              "memory-pool environment (bucket sizes, page sizes, large-page modes, stack-guard modes, default stack size): "
              "8-96 ULTs with default, arbitrary (4 KiB..16 MiB, +-1/8/63/64/4095) and user-supplied stacks (every 8-byte "
              "offset) created and freed from ULTs on several streams and from external threads; non-trivial alloc = buckets "
              "moved between local and global pool (MEMPOOL_TAKE/RETURN_BUCKET); distinct = distinct (variant, environment, "
              "scenario signature)")
    c.assumptions = ["with the mprotect stack guard the lowest two pages of a stack are not usable and are not touched",
                     "a ULT's own frames need at most 16 KiB (x3 under ASan) on top of the region it fills with its pattern"]
    common = dict(extra_sources=("allocwrap.c",), ldflags=ALLOCWRAP_LD)
    for i, s in enumerate(seeds(seed, 4 if q else 32)):
        c.add(Run("h_mem", "mon", ["--seed", s, "--mode", "alloc", "--scenarios", 8 if q else 30, "--ops", 20000 if q else 120000,
                                   "--delay", ["off", hammer("LIFO_PUSH_BEFORE_CAS", "LIFO_POP_BEFORE_CAS"), "uniform", "heavy"][i % 4],
                                   "--watchdog", 60 if q else 600], weight=8, tag="alloc%d" % i, **common))
    c.add(Run("h_mem", "asan", ["--seed", seed + 11, "--mode", "alloc", "--scenarios", 5, "--ops", 6000, "--watchdog", 120],
              weight=8, tag="alloc-asan", **common))
    c.add(Run("h_mem", "tsan", ["--seed", seed + 12, "--mode", "alloc", "--scenarios", 3, "--ops", 3000,
                                "--delay", hammer("LIFO_PUSH_BEFORE_CAS", "LIFO_POP_BEFORE_CAS"), "--watchdog", 120],
              weight=8, tag="alloc-tsan", **common))
    reps = 1 if q else 6
    k = 0
    for rep in range(reps):
        for j, env in enumerate(MEM_ENVS):
            s = seeds(seed, 1, salt=100 + k)[0]
            k += 1
            c.add(Run("h_mem", "mon", ["--seed", s, "--mode", "stacks", "--scenarios", 5 if q else 12,
                                       "--watchdog", 60 if q else 300], env=env, weight=4, tag="stacks%d.%d" % (rep, j), **common))
    for j, env in enumerate(MEM_ENVS[:3] if q else MEM_ENVS):
        c.add(Run("h_mem", "asan", ["--seed", seed + 20 + j, "--mode", "stacks", "--scenarios", 3, "--watchdog", 120],
                  env=env, weight=4, tag="stacks-asan%d" % j, **common))
    c.nontrivial = lambda r: has_cov(r, "MEMPOOL_TAKE_BUCKET", "MEMPOOL_RETURN_BUCKET")
    c.required_points = ["MEMPOOL_TAKE_BUCKET", "MEMPOOL_RETURN_BUCKET", "MEMPOOL_NEW_PAGE", "MEMPOOL_PARTIAL_MERGE",
                         "MEMPOOL_PARTIAL_COMPLETE", "LIFO_CAS_RETRY"]
    c.required_counters = ["blocks_allocated", "blocks_freed_by_other_thread", "ults_default_stack", "ults_sized_stack",
                           "ults_user_stack", "stack_sizes_not_multiple_of_64", "ults_created_by_external_thread",
                           "ults_freed_by_other_kind_of_context", "stack_bytes_written_and_verified",
                           "live_pairs_checked_disjoint", "concurrent_local_pool_destructions_verified",
                           "tasklets_created_on_streams_freed_by_external_thread"]
    return c


SCHED_HAMMER = ("POP_NONEMPTY_SEEN", "PUSH_BEFORE_LOCK", "YIELD_SAVED", "SCHED_STOP_AFTER_SIZE", "MAIN_SCHED_AFTER_RUN")
JOIN_HAMMER = ("JOIN_AFTER_REQ", "GET_JOINER_BEFORE_REQ", "SUSPEND_BEFORE_BLOCKED", "SUSPEND_AFTER_BLOCKED",
               "TERMINATE_BEFORE_STORE", "JOIN_BEFORE_FINAL_WAIT", "JOIN_FUTEX_AFTER_REQ", "RESUME_AFTER_PUSH")


@prop("C01")
def c01(tier, seed):
    c = Check("C01", tier, seed)
    q = tier == "quick"
    c.rule = ("each case = one seeded random program: 1-5 streams, built-in pool kind x predefined scheduler or a user-defined "
              "scheduler (random pool order, reversed batches, starvation of a pool, optional stealing), private or shared "
              "pools, 0-2 stacked schedulers, 0-2 external creator threads, a forest (depth <= 4) of named/unnamed ULTs and "
              "tasklets created via create/create_to/create_on_xstream/create_many that yield, create, join their children, "
              "wait on eventuals set by siblings and end by return/ABT_self_exit/ABT_thread_exit; non-trivial = the program "
              "ran >= 50 units incl. every unit kind; distinct = distinct (variant, delay profile, environment, "
              "configuration signature); plus 'stackrace' cases: 4-24 stacked schedulers (automatic or freed by the user) "
              "added to a host pool served by 1-3 other streams with a delay injected between the push of the scheduler's "
              "ULT and the return of ABT_pool_add_sched (ASan/TSan/mon)")
    c.assumptions = ["programs follow the schedulability rules of DESIGN.md §6 H-c (otherwise loss would be the program's fault)",
                     "a lost named unit shows as a reproduced hang of its joiner (watchdog), a lost unnamed unit as "
                     "'lost-unit' after ABT_finalize"]
    profiles = ["off", "uniform", hammer(*SCHED_HAMMER), hammer(*JOIN_HAMMER)]
    envs = [{}, {"ABT_MEM_MAX_NUM_STACKS": "4", "ABT_MEM_MAX_NUM_DESCS": "4"}, {"ABT_SCHED_EVENT_FREQ": "1"}, {}]
    for i, s in enumerate(seeds(seed, 8 if q else 72)):
        args = ["--seed", s, "--mode", "forest", "--programs", 30 if q else 60, "--max-units", 600 if q else 2500,
                "--delay", profiles[i % 4], "--watchdog", 60 if q else 400]
        if i % 4 == 3:
            args += ["--squeeze", 2]
        c.add(Run("h_units", "mon", args, env=envs[(i // 2) % 4], weight=6, tag="forest%d" % i))
    for i, s in enumerate(seeds(seed, 1 if q else 6, salt=1)):
        c.add(Run("h_units", "asan", ["--seed", s, "--mode", "forest", "--programs", 6, "--max-units", 200,
                                      "--delay", profiles[(i + 1) % 4], "--watchdog", 60], weight=6, tag="asan%d" % i))
    for i, s in enumerate(seeds(seed, 1 if q else 6, salt=2)):
        c.add(Run("h_units", "tsan", ["--seed", s, "--mode", "forest", "--programs", 4, "--max-units", 120,
                                      "--delay", profiles[(i + 2) % 4], "--watchdog", 60], weight=6, tag="tsan%d" % i))
    # stacked schedulers that start, run and finish on another stream while ABT_pool_add_sched is still returning
    srp = [hammer("CREATE_AFTER_PUSH"), "uniform", hammer("CREATE_AFTER_PUSH", "PUSH_BEFORE_LOCK", "SCHED_STOP_AFTER_SIZE")]
    for i, s in enumerate(seeds(seed, 2 if q else 12, salt=3)):
        c.add(Run("h_units", ("asan", "mon", "tsan")[i % 3] if not q else ("asan", "tsan")[i % 2],
                  ["--seed", s, "--mode", "stackrace", "--scenarios", 10 if q else 40, "--delay", srp[i % 3],
                   "--watchdog", 90], weight=4, tag="stackrace%d" % i))
    for i, s in enumerate(seeds(seed, 2 if q else 10, salt=4)):
        c.add(Run("h_units", "mon", ["--seed", s, "--mode", "joinmix", "--scenarios", 60 if q else 300, "--delay",
                                     profiles[i % 4], "--watchdog", 90], weight=4, tag="joinmix%d" % i))
    # units that are blocked when their stream is joined complete before the join returns (block scenarios of C06)
    for i, s in enumerate(seeds(seed, 1 if q else 6, salt=6)):
        c.add(Run("h_units", "mon", ["--seed", s, "--mode", "block", "--scenarios", 40 if q else 300, "--delay",
                                     profiles[i % 4], "--watchdog", 90 if q else 600], weight=4, tag="block%d" % i))
    # revived units run exactly once more, also after an earlier cancellation request (lifecycle epochs of C12)
    for i, s in enumerate(seeds(seed, 1 if q else 6, salt=5)):
        c.add(Run("h_units", "mon", ["--seed", s, "--mode", "life", "--scenarios", 6 if q else 40, "--max-cycles",
                                     150 if q else 600, "--delay", profiles[i % 4], "--watchdog", 90], weight=4,
                  tag="life%d" % i))
    c.nontrivial = lambda r: ((r.result or {}).get("counters", {}).get("units", 0) >= 50 or
                              (r.result or {}).get("counters", {}).get("epochs", 0) >= 50 or
                              (r.result or {}).get("counters", {}).get("block_scenarios", 0) >= 10 or
                              (r.result or {}).get("counters", {}).get("joinmix_units", 0) >= 50 or
                              (r.result or {}).get("counters", {}).get("stacked_schedulers_added", 0) >= 20)
    c.required_points = ["CREATE_AFTER_PUSH", "POP_BECAME_EMPTY", "POP_LOCK_CONTENDED", "EXIT_JUMP_TO_JOINER", "EXIT_PUSH_JOINER",
                         "EXIT_FUTEX_JOINER", "JOIN_YIELD_LOOP", "JOIN_SUSPEND"]
    c.required_counters = ["named_ults", "unnamed_ults", "named_tasklets", "unnamed_tasklets", "via_create_to",
                           "via_create_on_xstream", "via_create_many", "via_external_thread", "exit_by_self_exit",
                           "exit_by_thread_exit", "eventual_waits", "stacked_schedulers", "programs_with_user_scheduler",
                           "units_run_by_user_scheduler", "units_checked_at_xstream_join", "primary_scheduler_replaced",
                           "stacked_schedulers_freed_by_user", "stacked_schedulers_automatic",
                           "stacked_units_that_block_and_yield_after_resume", "stacked_scheduler_kind_basic_wait"]
    return c


@prop("C03")
def c03(tier, seed):
    c = Check("C03", tier, seed)
    q = tier == "quick"
    c.rule = ("each case = one join trial drawn from caller kind {ULT same stream, ULT other stream, tasklet, primary ULT, "
              "external thread} x target kind {ULT, tasklet} x target behaviour {return, ABT_self_exit, ABT_thread_exit, "
              "ABT_self_exit_to, cancelled before start, cancelled while running, blocks on an eventual first} x join issued "
              "{before the target starts (its stream is kept busy), while it runs (it spins until the joiner is inside), "
              "after termination} x API {join+free, free, join_many/free_many}; distinct = distinct legal combinations seen "
              "(counted by the harness); plus the forest programs of C01 where every creator joins its named children")
    c.assumptions = ["'joiner inside join' is approximated by a flag raised immediately before the call; delay points after "
                     "the join request widen the remaining window"]
    profiles = [hammer(*JOIN_HAMMER), "uniform", "off", "heavy"]
    for i, s in enumerate(seeds(seed, 6 if q else 48)):
        args = ["--seed", s, "--mode", "join", "--trials", 700 if q else 6000, "--delay", profiles[i % 4],
                "--watchdog", 90 if q else 900]
        if i % 3 == 2:
            args += ["--squeeze", 2]
        c.add(Run("h_units", "mon", args, weight=4, tag="join%d" % i))
    for i, s in enumerate(seeds(seed, 1 if q else 5, salt=1)):
        c.add(Run("h_units", "asan", ["--seed", s, "--mode", "join", "--trials", 300, "--delay", profiles[i % 4],
                                      "--watchdog", 90], weight=4, tag="asan%d" % i))
    for i, s in enumerate(seeds(seed, 1 if q else 5, salt=2)):
        c.add(Run("h_units", "tsan", ["--seed", s, "--mode", "join", "--trials", 120, "--delay", profiles[i % 4],
                                      "--watchdog", 90], weight=4, tag="tsan%d" % i))
    for i, s in enumerate(seeds(seed, 2 if q else 12, salt=3)):
        c.add(Run("h_units", "mon", ["--seed", s, "--mode", "forest", "--programs", 12 if q else 40, "--max-units", 500,
                                     "--delay", profiles[i % 4], "--watchdog", 60 if q else 400], weight=6,
                  tag="forest%d" % i))
    c.nontrivial = lambda r: True
    c.required_points = ["GET_JOINER_NONE", "GET_JOINER_READY", "GET_JOINER_WAITED", "JOIN_YIELD_LOOP", "JOIN_SUSPEND",
                         "JOIN_FUTEX", "EXIT_FUTEX_JOINER", "EXIT_JUMP_TO_JOINER", "EXIT_PUSH_JOINER",
                         "JOIN_ALREADY_TERMINATED", "SCHEDULE_CANCELLED"]
    c.required_counters = ["join_trials", "join_many_trials", "join_many_null_entries", "caller_ult-same-stream", "caller_ult-other-stream",
                           "caller_tasklet", "caller_primary", "caller_external", "target_exit_to",
                           "target_cancel-before-start", "target_cancel-while-running", "target_block-first",
                           "join_issued_before-start", "join_issued_while-running", "join_issued_after-termination"]
    return c


BLOCK_HAMMER = ("SUSPEND_BEFORE_BLOCKED", "SUSPEND_AFTER_BLOCKED", "RESUME_AFTER_PUSH", "SCHED_STOP_AFTER_SIZE",
                "MAIN_SCHED_AFTER_RUN", "YIELD_SAVED", "POP_NONEMPTY_SEEN")


@prop("C06")
def c06(tier, seed):
    c = Check("C06", tier, seed)
    q = tier == "quick"
    c.rule = ("block case = one scenario: random configuration (2-4 streams, private pools, every non-stealing scheduler), "
              "1-47 ULTs in the pool that only the victim stream schedules (or in a stacked scheduler's pool on it, or unnamed "
              "in the primary's pool), each with 1-4 blocking steps (eventual, cond, ABT_self_suspend, mutex, yield); when "
              "all are blocked the blocked counter must equal their number; then ABT_xstream_join / ABT_finalize is issued "
              "and an external thread wakes them 0.2-3 ms later (resuming a suspended ULT the moment BLOCKED is observable); "
              "a sampler thread reads the counter continuously (never negative); blockmig case = 2-4 streams with private "
              "pools, 1-24 units with 1-5 blocking steps (eventual, cond, self_suspend, mutex, join, yield) of which 2/3 carry "
              "a migration request to a random pool when they block and 1/3 get one while blocked: at every all-blocked "
              "point each pool's counter must equal the number of blocked units associated with it, all counters are 0 at "
              "the end and every stream can be joined; joinmix case = a victim stream whose scheduler has 2-4 pools (a pool "
              "shared with a helper stream listed first or last, then private pools holding 1-38 units) is joined at once, or "
              "joined while a unit of it replaces the main scheduler after the join was issued, or joined, revived, left idle "
              "0.5-3.5 ms, given new work and joined again (1-3 rounds): every unit ran exactly once when each join returns; "
              "forest case = a C01 program (xstream_join "
              "and finalize complete pending unnamed units); distinct = distinct (variant, delay, configuration x scenario "
              "variant x size-class signature)")
    c.assumptions = ["the blocked counter is read white-box (p_pool->num_blocked) from the statically linked harness and via "
                     "ABT_pool_get_total_size - ABT_pool_get_size"]
    profiles = [hammer(*BLOCK_HAMMER), "uniform", "off", "heavy"]
    for i, s in enumerate(seeds(seed, 6 if q else 48)):
        args = ["--seed", s, "--mode", "block", "--scenarios", 50 if q else 400, "--delay", profiles[i % 4],
                "--watchdog", 90 if q else 900]
        if i % 3 == 2:
            args += ["--squeeze", 2]
        c.add(Run("h_units", "mon", args, weight=4, tag="block%d" % i))
    for i, s in enumerate(seeds(seed, 1 if q else 5, salt=1)):
        c.add(Run("h_units", "asan", ["--seed", s, "--mode", "block", "--scenarios", 20, "--delay", profiles[i % 4],
                                      "--watchdog", 90], weight=4, tag="asan%d" % i))
    for i, s in enumerate(seeds(seed, 1 if q else 5, salt=2)):
        c.add(Run("h_units", "tsan", ["--seed", s, "--mode", "block", "--scenarios", 8, "--delay", profiles[i % 4],
                                      "--watchdog", 90], weight=4, tag="tsan%d" % i))
    for i, s in enumerate(seeds(seed, 2 if q else 12, salt=3)):
        c.add(Run("h_units", "mon", ["--seed", s, "--mode", "forest", "--programs", 12 if q else 40, "--max-units", 500,
                                     "--delay", profiles[i % 4], "--watchdog", 60 if q else 400], weight=6,
                  tag="forest%d" % i))
    # chains of directed switches incl. hand-overs by a cancelled caller: pool totals are 0 at quiescence
    for i, s in enumerate(seeds(seed, 2 if q else 10, salt=6)):
        c.add(Run("h_units", "mon", ["--seed", s, "--mode", "direct", "--scenarios", 20 if q else 150, "--ops", 600,
                                     "--delay", profiles[i % 4], "--watchdog", 90 if q else 600], weight=4,
                  tag="direct%d" % i))
    # joins with multi-pool schedulers, joins overlapping a scheduler replacement, join-revive-idle-work-join
    for i, s in enumerate(seeds(seed, 3 if q else 20, salt=5)):
        c.add(Run("h_units", ("mon", "mon", "asan")[i % 3] if q else ("mon", "mon", "mon", "asan", "tsan")[i % 5],
                  ["--seed", s, "--mode", "joinmix", "--scenarios", 60 if q else 400, "--delay", profiles[i % 4],
                   "--watchdog", 90 if q else 600], weight=4, tag="joinmix%d" % i))
    # blocked counters under migration: requests pending when a unit blocks / issued while it is blocked
    for i, s in enumerate(seeds(seed, 3 if q else 24, salt=4)):
        c.add(Run("h_units", ("mon", "mon", "tsan")[i % 3] if q else ("mon", "mon", "mon", "asan", "tsan")[i % 5],
                  ["--seed", s, "--mode", "blockmig", "--scenarios", 25 if q else 150, "--delay", profiles[i % 4],
                   "--watchdog", 90 if q else 600], weight=4, tag="blockmig%d" % i))
    c.nontrivial = lambda r: True
    c.required_counters = ["joinmix_multi_pool_joins", "joinmix_joins_overlapping_sched_replacement",
                           "joinmix_two_replacements_back_to_back", "joinmix_replacement_by_unit_in_non_first_pool",
                           "joinmix_revive_idle_work_join_rounds", "blockmig_exact_counter_checks", "migration_requests_pending_when_blocking",
                           "migration_requests_issued_while_blocked", "units_resumed_in_another_pool",
                           "blockmig_step_eventual", "blockmig_step_cond", "blockmig_step_self_suspend",
                           "blockmig_step_mutex", "blockmig_step_join",
                           "block_victim_pool_mpsc", "block_victim_pool_spsc",
                           "block_scenarios", "blocked_on_eventual", "blocked_on_cond", "self_suspended", "blocked_on_mutex",
                           "xstream_join_issued_with_blocked_units", "finalize_issued_with_blocked_units",
                           "blocked_counter_samples", "blocked_counter_exact_checks", "stacked_scheduler_variants",
                           "units_checked_at_xstream_join"]
    c.required_points = ["SUSPEND_AFTER_BLOCKED", "RESUME_AFTER_PUSH", "SCHED_STOP_AFTER_SIZE"]
    return c


@prop("C11")
def c11(tier, seed):
    c = Check("C11", tier, seed)
    q = tier == "quick"
    c.rule = ("susp case = one scenario: 1-23 ULTs on secondary streams each doing up to N ABT_self_suspend round trips while "
              "1-3 designated resumers (external threads, or ULTs on the primary stream) poll ABT_thread_get_state and call "
              "ABT_thread_resume the moment BLOCKED is observable; direct case = one single-stream scenario (1-2 pools of any "
              "kind, any predefined scheduler) with 2-11 initial workers executing thousands of random operations from "
              "{yield_to, legacy thread_yield_to, create_to, revive_to, suspend_to, resume_yield_to, resume_suspend_to, "
              "exit_to, resume_exit_to, yield, self_suspend, resume}; every directed switch posts (expected next unit, "
              "expected caller state) and whichever code runs next on the stream checks it; distinct = distinct (variant, "
              "delay, configuration signature)")
    c.assumptions = ["one designated resumer per suspender (two resumers for one suspension would be a racy program)",
                     "the directed-switch model is touched only by code running on the single stream under test"]
    profiles = [hammer("SUSPEND_BEFORE_BLOCKED", "SUSPEND_AFTER_BLOCKED", "RESUME_AFTER_PUSH", "PUSH_BEFORE_LOCK",
                       "POP_NONEMPTY_SEEN"), "uniform", "off", "heavy"]
    for i, s in enumerate(seeds(seed, 5 if q else 24)):
        args = ["--seed", s, "--mode", "susp", "--scenarios", 20 if q else 60, "--rounds", 300 if q else 1000,
                "--delay", profiles[i % 4], "--watchdog", 90 if q else 900]
        if i % 3 == 2:
            args += ["--squeeze", 2]
        c.add(Run("h_units", "mon", args, weight=5, tag="susp%d" % i))
    for i, s in enumerate(seeds(seed, 3 if q else 24, salt=1)):
        c.add(Run("h_units", "mon", ["--seed", s, "--mode", "direct", "--scenarios", 30 if q else 150, "--ops", 3000 if q else 10000,
                                     "--delay", ["off", "uniform", "heavy"][i % 3], "--watchdog", 90 if q else 900], weight=2,
                  tag="direct%d" % i))
    for mode, args in (("susp", ["--scenarios", 6, "--rounds", 100]), ("direct", ["--scenarios", 10, "--ops", 1500])):
        c.add(Run("h_units", "asan", ["--seed", seed + 31, "--mode", mode, "--watchdog", 90] + args, weight=4, tag="asan-" + mode))
        c.add(Run("h_units", "tsan", ["--seed", seed + 32, "--mode", mode, "--watchdog", 90, "--delay", profiles[0]] +
                  (["--scenarios", 3, "--rounds", 60] if mode == "susp" else ["--scenarios", 4, "--ops", 600]),
                  weight=4, tag="tsan-" + mode))
    # a resumed ULT runs even when its stream is being joined while the resume is in flight (block scenarios of C06)
    for i, s in enumerate(seeds(seed, 2 if q else 12, salt=9)):
        c.add(Run("h_units", "mon", ["--seed", s, "--mode", "block", "--scenarios", 40 if q else 300, "--delay",
                                     hammer("PUSH_BEFORE_LOCK", "RESUME_AFTER_PUSH", "SCHED_STOP_AFTER_SIZE",
                                            "SUSPEND_AFTER_BLOCKED"), "--watchdog", 90 if q else 600],
                  weight=4, tag="blockjoin%d" % i))
    c.nontrivial = lambda r: True
    c.required_counters = ["suspend_resume_round_trips", "resumed_by_external_thread", "resumed_by_ult_on_other_stream",
                           "op_yield_to", "op_thread_yield_to", "op_create_to", "op_revive_to", "op_suspend_to",
                           "op_resume_yield_to", "op_resume_suspend_to", "op_exit_to", "op_resume_exit_to",
                           "op_cancel_self_then_resume_yield_to", "expectations_checked", "targets_never_started", "targets_already_started"]
    c.required_points = ["SUSPEND_AFTER_BLOCKED", "RESUME_AFTER_PUSH"]
    return c


@prop("C12")
def c12(tier, seed):
    c = Check("C12", tier, seed)
    q = tier == "quick"
    c.rule = ("life case = one scenario: 3 streams, 1-16 named units (ULTs, tasklets) each going through 1..N create/revive "
              "epochs; an epoch draws a behaviour {return, yields, ABT_self_exit, ABT_thread_exit, run-until-cancelled, block "
              "on an eventual then return} and a cancellation mode {none, before the first scheduling point (stream kept "
              "busy), while running, while blocked}, is joined, checked (started exactly once / never, argument and pool of "
              "this epoch, no code after exit, at most one slice observing the cancel request, state TERMINATED) and "
              "finally freed; a sampler thread polls ABT_thread_get_state for the whole time (nothing after TERMINATED within "
              "an epoch, BLOCKED only for units that block); forest case = C01 program (auto-free of unnamed units, LSan); "
              "distinct = distinct (variant, delay, configuration signature)")
    c.assumptions = ["the sampled state sequence is a subsequence of the real one, so only order violations that survive "
                     "sub-sampling are checked", "resource release is decided by ASan/LSan and the C15 ledger"]
    profiles = [hammer("TERMINATE_BEFORE_STORE", "GET_JOINER_BEFORE_REQ", "YIELD_SAVED", "SUSPEND_AFTER_BLOCKED",
                       "PUSH_BEFORE_LOCK"), "uniform", "off", "heavy"]
    for i, s in enumerate(seeds(seed, 6 if q else 48)):
        args = ["--seed", s, "--mode", "life", "--scenarios", 10 if q else 60, "--max-cycles", 200 if q else 1000,
                "--delay", profiles[i % 4], "--watchdog", 90 if q else 900]
        if i % 3 == 2:
            args += ["--squeeze", 2]
        c.add(Run("h_units", "mon", args, weight=4, tag="life%d" % i))
    for i, s in enumerate(seeds(seed, 2 if q else 6, salt=1)):
        c.add(Run("h_units", "asan", ["--seed", s, "--mode", "life", "--scenarios", 5, "--max-cycles", 80,
                                      "--delay", profiles[i % 4], "--watchdog", 90], weight=4, tag="asan%d" % i))
    for i, s in enumerate(seeds(seed, 1 if q else 5, salt=2)):
        c.add(Run("h_units", "tsan", ["--seed", s, "--mode", "life", "--scenarios", 2, "--max-cycles", 30,
                                      "--delay", profiles[i % 4], "--watchdog", 90], weight=4, tag="tsan%d" % i))
    c.add(Run("h_units", "asan", ["--seed", seed + 41, "--mode", "forest", "--programs", 8, "--max-units", 300,
                                  "--watchdog", 90], weight=6, tag="forest-asan"))
    c.nontrivial = lambda r: True
    c.required_counters = ["epochs", "behaviour_return", "behaviour_yields", "behaviour_self_exit", "behaviour_thread_exit",
                           "behaviour_until-cancelled", "behaviour_block-then-return", "cancel-before-start",
                           "cancel-while-running", "cancel-while-blocked", "revives", "state_samples", "tasklet_epochs",
                           "cancelled_units_never_started", "cancel_pending_when_unit_blocks"]
    c.required_points = ["SCHEDULE_CANCELLED"]
    return c


@prop("C13")
def c13(tier, seed):
    c = Check("C13", tier, seed)
    q = tier == "quick"
    c.rule = ("each case = one scenario: 3-4 streams with private pools (one with a user-defined scheduler), a migratable ULT "
              "that records the pool of every scheduling slice; phase A: 20-80 sequential requests (migrate_to_pool / "
              "_to_xstream / _to_sched) on the parked unit, each checked exactly (moved within two scheduling points, exactly "
              "one callback with the right arguments; requests naming the current pool rejected without effect); phase C: "
              "non-migratable unit and main-scheduler ULT rejected; phase D: ABT_thread_migrate x8 must move the unit to a "
              "pool of another running stream (and fail when only one stream exists); phase B: 1-3 concurrent requesters "
              "(ULT/external) plus self-issued requests racing with the unit's yields: a request recorded two scheduling "
              "points ago and not superseded must be in effect, callbacks <= requests; first-request race of two external "
              "threads on a fresh unit (LSan/TSan); distinct = distinct (variant, delay, scenario signature)")
    c.assumptions = ["requests are issued and recorded under one harness lock, and the expected pool is 'unknown' while a "
                     "request call is in flight (its target may legitimately take effect before the call returns)",
                     "user-defined source/target pools are exercised by the C14 check"]
    profiles = [hammer("MIGRATE_BEFORE_CLEAR", "MIGRATE_AFTER_TARGET_SET", "SCHEDULE_MIGRATED"), "uniform", "off",
                hammer("MIGRATE_BEFORE_CLEAR", "YIELD_SAVED", "PUSH_BEFORE_LOCK", "POP_NONEMPTY_SEEN")]
    for i, s in enumerate(seeds(seed, 6 if q else 48)):
        args = ["--seed", s, "--mode", "migrate", "--scenarios", 8 if q else 60, "--delay", profiles[i % 4],
                "--watchdog", 90 if q else 900]
        if i % 3 == 2:
            args += ["--squeeze", 2]
        c.add(Run("h_units", "mon", args, weight=5, tag="migrate%d" % i))
    for i, s in enumerate(seeds(seed, 1 if q else 5, salt=1)):
        c.add(Run("h_units", "asan", ["--seed", s, "--mode", "migrate", "--scenarios", 4, "--delay", profiles[i % 4],
                                      "--watchdog", 90], weight=5, tag="asan%d" % i))
    for i, s in enumerate(seeds(seed, 1 if q else 5, salt=2)):
        c.add(Run("h_units", "tsan", ["--seed", s, "--mode", "migrate", "--scenarios", 2, "--delay", profiles[i % 4],
                                      "--watchdog", 90], weight=5, tag="tsan%d" % i))
    c.nontrivial = lambda r: True
    c.required_counters = ["sequential_migrations_checked_exactly", "concurrent_requests_accepted",
                           "concurrent_requests_rejected_same_pool", "self_issued_requests", "callbacks",
                           "rejected_current_pool", "rejected_non_migratable", "rejected_main_scheduler_ult",
                           "thread_migrate_moved_to_other_stream", "thread_migrate_no_target_rejected", "migrate_to_xstream",
                           "migrate_to_sched", "first_request_races", "rejected_own_stream_with_multi_pool_scheduler",
                           "callback_from_attributes_of_unit_made_migratable_later",
                           "pending_request_then_self_yield", "pending_request_then_thread_yield_to",
                           "pending_request_then_self_yield_to", "pending_request_then_thread_yield"]
    c.required_points = ["MIGRATE_BEFORE_CLEAR", "MIGRATE_AFTER_TARGET_SET", "SCHEDULE_MIGRATED"]
    return c


@prop("C14")
def c14(tier, seed):
    c = Check("C14", tier, seed)
    q = tier == "quick"
    c.rule = ("each case = one init..finalize scenario: 1-4 streams (basic/prio/randws schedulers) over 2 ABT_pool_user_def "
              "pools + 2 legacy ABT_pool_def pools + 2 built-in pools with FIFO/LIFO/random pop policies; 20-300 ULTs/tasklets "
              "(named and unnamed) that yield, change their associated pool (ABT_self_set_associated_pool, migrate_to_pool) "
              "among all six pools, block on a mutex, get revived into other pools and freed; user unit objects live in an "
              "arena restricted to 3 of the runtime's 256 hash buckets in 2/3 of the scenarios; in half of the scenarios some "
              "streams run a user-defined scheduler that pops through ABT_pool_pop_thread / ABT_pool_pop in random pool order "
              "and runs the unit (ABT_self_schedule / ABT_xstream_run_unit, with or without naming another pool) or pushes "
              "it to another pool (ABT_pool_push_thread / ABT_pool_push); oracles: unit object state "
              "machine with magic word and quarantine (create once per association, free once, no callback on a freed unit), "
              "creates == frees and pushes == pops per pool at finalize, self and cross-stream ABT_unit_get_thread / "
              "ABT_thread_get_unit agreement, exactly-once execution; distinct = distinct (variant, delay, stream count, "
              "user scheds, colliding?, policy vector)")
    c.assumptions = ["the user pool callbacks are the harness's own (spinlock-protected array queue); a defect in them would "
                     "show up as a harness race under TSan"]
    profiles = ["off", "uniform", hammer("PUSH_BEFORE_LOCK", "POP_NONEMPTY_SEEN", "YIELD_SAVED", "MIGRATE_BEFORE_CLEAR"),
                "heavy"]
    for i, s in enumerate(seeds(seed, 6 if q else 48)):
        args = ["--seed", s, "--scenarios", 6 if q else 40, "--delay", profiles[i % 4], "--watchdog", 90 if q else 900]
        if i % 3 == 2:
            args += ["--squeeze", 2]
        c.add(Run("h_upool", "mon", args, weight=5, tag="upool%d" % i))
    for i, s in enumerate(seeds(seed, 1 if q else 6, salt=1)):
        c.add(Run("h_upool", "asan", ["--seed", s, "--scenarios", 3 if q else 8, "--delay", profiles[i % 4],
                                      "--watchdog", 120], weight=5, tag="asan%d" % i))
    for i, s in enumerate(seeds(seed, 1 if q else 6, salt=2)):
        c.add(Run("h_upool", "tsan", ["--seed", s, "--scenarios", 2 if q else 5, "--delay", profiles[i % 4],
                                      "--watchdog", 120], weight=5, tag="tsan%d" % i))
    c.nontrivial = lambda r: True
    c.required_counters = ["create_unit_calls", "free_unit_calls", "mapping_checks", "set_associated_pool_calls",
                           "migration_requests", "revives", "lookups_of_parked_unit_from_other_work_unit",
                           "units_created_in_legacy_def_pool", "units_created_in_user_def_pool", "pools_fifo_policy",
                           "pools_lifo_policy", "pools_random_policy", "user_sched_ran_popped_thread",
                           "user_sched_ran_popped_unit", "user_sched_ran_after_reassociating_pool",
                           "user_sched_pushed_to_other_pool", "user_sched_bulk_pushed_to_other_pool",
                           "user_sched_ran_bulk_popped_threads", "scenarios_with_unit_quarantine",
                           "scenarios_with_immediate_unit_address_reuse"]
    c.required_points = ["UNITMAP_REUSE_TOMBSTONE", "UNITMAP_APPEND", "UNITMAP_LONG_CHAIN"]
    return c


@prop("C02")
def c02(tier, seed):
    c = Check("C02", tier, seed)
    q = tier == "quick"
    c.rule = ("each case = one scenario: 1-4 streams sharing 1-2 pools (fifo/fifo_wait/randws x basic/prio/default/basic_wait/"
              "randws, main-scheduler replacement by a running ULT in half of them), 3-14 initial workers plus workers made by "
              "create/create_to/revive_to, each with a stack from the memory pool, from malloc (non-default size) or supplied by "
              "the user (address 8-byte aligned only, size any multiple of 8, 512-byte guard zones); --ops random operations "
              "drawn from yield, yield_to, thread_yield_to (single stream), create_to, revive_to, self_suspend, suspend_to, "
              "resume, resume_yield_to, resume_suspend_to, exit_to, resume_exit_to, join of a child, contended mutex, "
              "set_main_sched; every switching call runs through an assembly wrapper holding canaries in rbx, rbp (not under "
              "ASan), r12-r15 and is made at a random extra stack depth; after each resume the worker checks registers, its "
              "own MXCSR control bits and x87 control word (15 non-default combinations), stack patterns in the switching "
              "frame, outer frames and its outermost frame, a heap step counter (stale resume) and a running-on flag; at start "
              "it checks 16-byte alignment, that its locals lie inside the stack its attributes report and that no live "
              "worker's stack overlaps; guard zones of user stacks are checked when the unit is freed; the library-side "
              "occupancy monitor fails the run when any stream switches to a context that is still running or not yet "
              "completely saved; distinct = distinct (variant, delay, scenario signature)")
    c.assumptions = ["the occupancy flag of the old context of a plain (callback-less) switch is cleared before the switch: "
                     "such a context (a scheduler waiting for its child) is only ever resumed by the same stream",
                     "rbp is not used as a canary under ASan (its unwinder walks frame pointers)"]
    profiles = [hammer("CTX_BEFORE_SWITCH", "YIELD_SAVED", "SUSPEND_BEFORE_BLOCKED", "SUSPEND_AFTER_BLOCKED"), "uniform", "off",
                hammer("CTX_BEFORE_SWITCH", "PUSH_BEFORE_LOCK", "POP_NONEMPTY_SEEN", "RESUME_AFTER_PUSH", "JOIN_AFTER_REQ",
                       "GET_JOINER_BEFORE_REQ", "TERMINATE_BEFORE_STORE"), "heavy"]
    for i, s in enumerate(seeds(seed, 8 if q else 64)):
        args = ["--seed", s, "--scenarios", 8 if q else 50, "--ops", 3000 if q else 6000, "--delay", profiles[i % 5],
                "--watchdog", 90 if q else 900]
        if i % 4 == 3:
            args += ["--squeeze", 2]
        c.add(Run("h_ctx", "mon", args, weight=5, tag="ctx%d" % i))
    for i, s in enumerate(seeds(seed, 2 if q else 8, salt=1)):
        c.add(Run("h_ctx", "asan", ["--seed", s, "--scenarios", 3 if q else 10, "--ops", 1500, "--delay", profiles[i % 5],
                                    "--watchdog", 120], weight=5, tag="asan%d" % i))
    for i, s in enumerate(seeds(seed, 2 if q else 8, salt=2)):
        c.add(Run("h_ctx", "tsan", ["--seed", s, "--scenarios", 2 if q else 6, "--ops", 1000, "--delay", profiles[i % 5],
                                    "--watchdog", 120], weight=5, tag="tsan%d" % i))
    c.nontrivial = lambda r: (r.result or {}).get("counters", {}).get("switches_checked", 0) >= 100
    c.required_counters = ["switches_checked", "resumed_on_another_stream", "switch_target_never_started",
                           "switch_target_already_started", "user_stack_top_not_16_aligned", "stack_mempool", "stack_malloc",
                           "stack_user", "create_many_with_user_stack_refused"] + ["op_" + n for n in (
                               "yield", "yield_to", "thread_yield_to", "create_to", "revive_to", "self_suspend", "suspend_to",
                               "resume", "resume_yield_to", "resume_suspend_to", "exit_to", "resume_exit_to", "join_child",
                               "mutex", "set_main_sched", "create")]
    c.required_points = ["CTX_SWITCH", "CTX_START_SWITCH", "CTX_SWITCH_CALL", "CTX_START_SWITCH_CALL", "CTX_JUMP_CALL",
                         "CTX_START_JUMP_CALL", "CTX_BEFORE_SWITCH", "EXIT_JUMP_TO_JOINER", "JOIN_SUSPEND"]
    return c


FAULT_ENVS = [
    {},
    {"ABT_MEM_PAGE_SIZE": "4096", "ABT_MEM_STACK_PAGE_SIZE": "131072", "ABT_MEM_MAX_NUM_STACKS": "1",
     "ABT_MEM_MAX_NUM_DESCS": "1", "ABT_MEM_LP_ALLOC": "malloc", "ABT_THREAD_STACKSIZE": "65536"},
    {"ABT_MEM_PAGE_SIZE": "4096", "ABT_MEM_STACK_PAGE_SIZE": "262144", "ABT_MEM_MAX_NUM_STACKS": "1",
     "ABT_MEM_MAX_NUM_DESCS": "1", "ABT_MEM_LP_ALLOC": "mmap_rp", "ABT_THREAD_STACKSIZE": "65536",
     "ABT_KEY_TABLE_SIZE": "1", "ABT_MAX_NUM_XSTREAMS": "1"},
    {"ABT_MEM_LP_ALLOC": "mmap_hp_thp", "ABT_MEM_PAGE_SIZE": "8192", "ABT_MEM_MAX_NUM_DESCS": "1",
     "ABT_STACK_OVERFLOW_CHECK": "mprotect", "ABT_THREAD_STACKSIZE": "69632", "ABT_MEM_MAX_NUM_STACKS": "1"},
    {"ABT_MEM_LP_ALLOC": "thp", "ABT_MEM_STACK_PAGE_SIZE": "2097152", "ABT_MEM_MAX_NUM_STACKS": "1",
     "ABT_STACK_OVERFLOW_CHECK": "mprotect_strict", "ABT_THREAD_STACKSIZE": "65536", "ABT_MEM_PAGE_SIZE": "4096"},
    {"ABT_MEM_LP_ALLOC": "mmap_hp_rp", "ABT_MEM_MAX_NUM_STACKS": "1", "ABT_MEM_MAX_NUM_DESCS": "1",
     "ABT_MEM_PAGE_SIZE": "4096", "ABT_MEM_STACK_PAGE_SIZE": "131072", "ABT_THREAD_STACKSIZE": "65536",
     "ABT_SET_AFFINITY": "1"},
]


@prop("C18")
def c18(tier, seed):
    c = Check("C18", tier, seed)
    q = tier == "quick"
    c.rule = ("each case = one complete cycle (ledger, ABT_init, world of a second stream + pools + parked ULT + key value + "
              "sync objects, scenario preparation, world snapshot, the routine with its k-th allocation-class call failing, "
              "checks, retry without fault, use and release of the created object, follow-up workload on the old objects, "
              "teardown, ABT_finalize, ledger) for every k = 1..N of every scenario variant; ~95 scenario variants: ABT_init, "
              "thread/task create (named, unnamed, attr stack size, user stack, on_xstream, create_to, create_many, after "
              "0-11 live earlier units), revive, attr create/get, xstream create (4 forms + user scheduler), "
              "set_main_sched(_basic) on the running primary stream, sched_create_basic (5 kinds x auto/given pools, config), "
              "user-defined sched/pool/def/config, unit entering a user pool (create, push, migration), pool_add_sched, 12 "
              "sync/key/timer constructors, key values (self, running unit on another stream, unstarted unit, table growth), "
              "migration record (callback, to_pool, to_xstream); allocation-class calls = malloc, calloc, realloc, "
              "posix_memalign, mmap, pthread_create, pthread_{mutex,cond,barrier}_init made by the calling thread (link-time "
              "wrappers, also inside user callbacks); run under 6 memory configurations (default, tiny memory-pool pages with "
              "malloc / mmap / huge-page fallbacks, mprotect stack guards, key table of 1, xstream array of 1); distinct = "
              "distinct (variant, environment, scenario:variant:N)")
    c.assumptions = ["only allocation-class calls made by the calling OS thread are failed; allocations made on behalf of the "
                     "call by another stream's thread (e.g. the new stream's own start-up) are not enumerated",
                     "a call that succeeds although the injected failure was delivered (large-page mmap falling back to "
                     "another allocator) is counted as tolerated and its result is exercised like any other",
                     "ABT_thread_create_many is documented as having no error handling; units it created before the failing "
                     "one are joined by the harness and reported as the listed finding"]
    parts = 4
    envs = FAULT_ENVS[:3] if q else FAULT_ENVS
    for j, env in enumerate(envs):
        for part in range(parts):
            c.add(Run("h_fault", "mon", ["--seed", seeds(seed, 1, salt=j)[0], "--part", part, "--parts", parts,
                                         "--watchdog", 200], env=env, weight=3, tag="env%d.%d" % (j, part),
                      extra_sources=("allocwrap.c",), ldflags=ALLOCWRAP_LD))
    aenvs = [FAULT_ENVS[1]] if q else FAULT_ENVS
    for j, env in enumerate(aenvs):
        e = dict(env)
        if "ABT_THREAD_STACKSIZE" in e:
            e["ABT_THREAD_STACKSIZE"] = "262144"
            e["ABT_MEM_STACK_PAGE_SIZE"] = "524288"
        for part in range(parts):
            c.add(Run("h_fault", "asan", ["--seed", seeds(seed, 1, salt=10 + j)[0], "--part", part, "--parts", parts,
                                          "--watchdog", 200], env=e, weight=3, tag="asan%d.%d" % (j, part),
                      extra_sources=("allocwrap.c",), ldflags=ALLOCWRAP_LD))
    c.nontrivial = lambda r: (r.result or {}).get("counters", {}).get("cycles_with_a_delivered_fault", 0) > 0
    c.required_counters = ["calls_failed_cleanly", "retries_succeeded", "followup_workloads", "failed_malloc",
                           "failed_posix_memalign", "failed_mmap", "failed_pthread_create", "failed_pthread_mutex_init",
                           "failed_pthread_cond_init", "failed_pthread_barrier_init"]
    c.required_points = ["MEMPOOL_NEW_PAGE", "KTABLE_CREATED", "UNITMAP_APPEND"]
    return c
