"""Per-property scenario matrices."""
from .driver import Check, Run, hammer

PROPS = {}


def prop(pid):
    def deco(f):
        PROPS[pid] = f
        return f
    return deco


def seeds(seed, n, salt=0):
    return [(seed * 1000003 + salt * 7919 + i * 104729) % (2 ** 31) for i in range(n)]


def has_cov(run, *names):
    from .driver import _point_names
    if not run.result:
        return False
    inv = {v: k for k, v in _point_names().items()}
    cov = run.result.get("cov", {})
    return all(cov.get(str(inv.get(n, -1)), 0) > 0 for n in names)


# ---------------------------------------------------------------------------
@prop("C04")
def c04(tier, seed):
    c = Check("C04", tier, seed)
    c.rule = ("each case = one seeded scenario: random stream/pool/scheduler configuration, 1-2 mutexes "
              "(created/static/recursive), 2-16 mixed ULT/tasklet/external lockers doing lock/trylock/spinlock/"
              "lock_low/lock_high with nested recursive depth; non-trivial = the process observed real blocking "
              "(MUTEX_LOCK_WAIT>0) and a second try under the waiter lock; distinct = distinct (variant, delay "
              "profile, configuration signature)")
    c.assumptions = ["holder registers itself right after the acquiring call returns and deregisters right before "
                     "the releasing call (monitor at the API boundary)",
                     "liveness is decided as logical deadlock (all actors inside a lock call, pools empty, "
                     "no progress over three samples)"]
    q = tier == "quick"
    profiles = ["off", "uniform",
                hammer("MUTEX_LOCK_AFTER_FAIL", "MUTEX_LOCK_BEFORE_RETRY", "MUTEX_UNLOCK_BEFORE_RELEASE",
                       "MUTEX_UNLOCK_BEFORE_BROADCAST"),
                hammer("FUTEX_WAIT_AFTER_UNLOCK", "BROADCAST_BEFORE_FUTEX", "WAITLIST_EXT_AFTER_WAKE",
                       "SUSPEND_AFTER_BLOCKED", "RESUME_AFTER_PUSH")]
    n = 0
    for i, s in enumerate(seeds(seed, 8 if q else 60)):
        prof = profiles[i % len(profiles)]
        args = ["--seed", s, "--rounds", 6 if q else 12, "--iters", 1500 if q else 6000, "--delay", prof,
                "--max-es", 4, "--max-actors", 12, "--watchdog", 60]
        if i % 4 == 3:
            args = ["--seed", s, "--rounds", 4 if q else 8, "--iters", 400 if q else 1500, "--delay", prof,
                    "--max-es", 4, "--max-actors", 10, "--watchdog", 60, "--squeeze", 2]
        c.add(Run("h_mutex", "mon", args, weight=4, tag="soup%d" % i))
    for i, s in enumerate(seeds(seed, 1 if q else 5, salt=1)):
        c.add(Run("h_mutex", "asan", ["--seed", s, "--rounds", 4, "--iters", 600, "--delay", profiles[(i + 1) % 4],
                                      "--max-es", 3, "--max-actors", 8], weight=4, tag="asan%d" % i))
    for i, s in enumerate(seeds(seed, 1 if q else 5, salt=2)):
        c.add(Run("h_mutex", "tsan", ["--seed", s, "--rounds", 3, "--iters", 300, "--delay", profiles[(i + 2) % 4],
                                      "--max-es", 3, "--max-actors", 8], weight=4, tag="tsan%d" % i))
    c.nontrivial = lambda r: has_cov(r, "MUTEX_LOCK_WAIT")
    c.required_points = ["MUTEX_LOCK_WAIT", "MUTEX_LOCK_RETRY_WON", "BROADCAST_ULT", "BROADCAST_EXT"]
    c.required_counters = ["acquisitions", "nested_acquisitions", "trylock_failed", "acq_by_ext", "acq_by_tasklet"]
    return c
