"""Check driver: runs a property's scenario matrix, triages results (monitor
verdicts, crashes, sanitizer reports), matches known findings, writes evidence."""
import glob
import json
import os
import re
import shutil
import signal
import subprocess
import sys
import tempfile
import threading
import time

from . import build

VERIF = build.VERIF
REPO = build.REPO
EVID = os.path.join(VERIF, "evidence")
REPLAY = os.path.join(VERIF, "replay")
LOGS = os.path.join(VERIF, "build", "logs")
NCPU = os.cpu_count() or 4


class Run:
    """One harness process."""

    def __init__(self, harness, variant="mon", args=(), env=None, weight=4,
                 timeout=300, extra_sources=(), ldflags=(), cflags=(), tag=""):
        self.harness = harness
        self.variant = variant
        self.args = [str(a) for a in args]
        self.env = dict(env or {})
        self.weight = weight
        self.timeout = timeout
        self.extra_sources = tuple(extra_sources)
        self.ldflags = tuple(ldflags)
        self.cflags = tuple(cflags)
        self.tag = tag
        # results
        self.result = None      # parsed VRT-RESULT
        self.rc = None
        self.stdout = ""
        self.stderr = ""
        self.verdict = None     # held / violated / inconclusive / harness_error
        self.viol = []          # list of (key, msg)
        self.attempts = 0
        self.wall = 0.0
        self.cmd = None
        self.fullenv = None

    def describe(self):
        return {"harness": self.harness, "variant": self.variant, "args": self.args,
                "env": self.env, "tag": self.tag}


SAN_ENV = {
    "asan": {
        "ASAN_OPTIONS": "abort_on_error=1:detect_leaks=1:detect_stack_use_after_return=0:"
                        "allocator_may_return_null=1:handle_abort=0:print_summary=1:"
                        "malloc_context_size=12",
        "UBSAN_OPTIONS": "print_stacktrace=1:halt_on_error=1",
        "LSAN_OPTIONS": "print_suppressions=0",
        "ABT_THREAD_STACKSIZE": "262144",
        "ABT_SCHED_STACKSIZE": "4194304",
    },
    "tsan": {
        "TSAN_OPTIONS": "halt_on_error=0:history_size=4:second_deadlock_stack=1:"
                        "report_signal_unsafe=0:exitcode=0",
        "ABT_THREAD_STACKSIZE": "262144",
        "ABT_SCHED_STACKSIZE": "4194304",
    },
    # MALLOC_PERTURB_: glibc fills fresh and freed heap memory with a non-zero byte, so reads of
    # uninitialised or freed memory misbehave deterministically instead of by luck
    "mon": {"ABT_THREAD_STACKSIZE": "65536", "MALLOC_PERTURB_": "165"},
    "ubassert": {"ABT_THREAD_STACKSIZE": "65536", "MALLOC_PERTURB_": "165"},
}


def _point_names():
    names = {}
    p = os.path.join(REPO, "src/include/abti_verif.h")
    try:
        txt = open(p).read()
    except OSError:
        return names
    m = re.search(r"enum \{(.*?)ABTI_VERIF_NUM_POINTS", txt, re.S)
    if not m:
        return names
    body = re.sub(r"/\*.*?\*/", "", m.group(1), flags=re.S)
    val = 0
    for item in body.split(","):
        item = item.strip()
        if not item:
            continue
        if "=" in item:
            n, v = item.split("=")
            val = int(v.strip(), 0)
            n = n.strip()
        else:
            n = item
        n = n.replace("ABTI_VERIF_", "")
        if n.startswith(("P_", "C_")):
            n = n[2:]
        names[val] = n
        val += 1
    return names


def point_id(name):
    for k, v in _point_names().items():
        if v == name:
            return k
    raise KeyError(name)


def hammer(*names):
    return "hammer:" + ",".join(str(point_id(n)) for n in names)


# ---------------------------------------------------------------------------
# sanitizer report triage

_REPO_FRAME = re.compile(r"#\d+ 0x[0-9a-f]+ in (\S+) (\S+?)(?::(\d+))?(?::\d+)?$")


def _frames(block):
    out = []
    for line in block.splitlines():
        line = line.strip()
        m = re.match(r"#(\d+) (?:0x[0-9a-f]+ in )?(\S+) (\S+)", line)
        if m:
            fn = m.group(2)
            loc = m.group(3)
            f = loc.split(":")[0]
            ln = None
            parts = loc.split(":")
            if len(parts) > 1 and parts[1].isdigit():
                ln = int(parts[1])
            out.append((fn, f, ln))
    return out


def _is_repo(f):
    return "/src/" in f and ("/repo/" in f or f.startswith(REPO))


def _is_harness(f):
    return "/verif/harness/" in f or "/harness/" in f


def load_tsan_benign():
    p = os.path.join(VERIF, "tsan_benign.json")
    try:
        return json.load(open(p))["benign"]
    except (OSError, ValueError, KeyError):
        return []


def _src_line(f, ln):
    try:
        with open(f) as fh:
            for i, l in enumerate(fh, 1):
                if i == ln:
                    return l
    except OSError:
        pass
    return ""


def _side_matches(entry_side, frame):
    fn, f, ln = frame
    if entry_side.get("function") and entry_side["function"] != fn:
        return False
    if entry_side.get("file") and not f.endswith(entry_side["file"]):
        return False
    tok = entry_side.get("token")
    if tok:
        if ln is None:
            return False
        if tok not in _src_line(f, ln):
            return False
    return True


def tsan_triage(text, benign):
    """Returns list of (key, excerpt) for non-benign reports, and stats."""
    blocks = re.split(r"(?m)^==================\n", text)
    found = []
    stats = {"reports": 0, "benign": 0, "harness_only": 0}
    for b in blocks:
        if "WARNING: ThreadSanitizer:" not in b:
            continue
        stats["reports"] += 1
        kind = re.search(r"WARNING: ThreadSanitizer: ([^\n(]+)", b).group(1).strip()
        if kind != "data race":
            key = "tsan:" + kind.replace(" ", "-")
            top = None
            for fr in _frames(b):
                if _is_repo(fr[1]):
                    top = fr
                    break
            found.append((key + (":" + top[0] if top else ""), b[:3000]))
            continue
        # split into the two access stacks
        parts = re.split(r"(?m)^\s*(?:Previous|previous) ", b, maxsplit=1)
        if len(parts) < 2:
            # "[failed to restore the stack]" etc.
            parts = [b, ""]
        first = _frames(parts[0].split("\n\n")[0])
        second_txt = parts[1].split("\n\n")[0] if parts[1] else ""
        second = _frames(second_txt)

        def inner_repo(frs):
            for fr in frs:
                if _is_repo(fr[1]):
                    return fr
            return None
        a, c = inner_repo(first), inner_repo(second)
        # both accesses made directly by harness code: a harness bug, not the library's
        if first and second and _is_harness(first[0][1]) and _is_harness(second[0][1]):
            stats["harness_only"] += 1
            found.append(("tsan:harness-race:" + first[0][0], b[:3000]))
            continue
        if a is None and c is None:
            allh = [fr for fr in first + second if _is_harness(fr[1])]
            if allh:
                stats["harness_only"] += 1
                found.append(("tsan:harness-race:" + allh[0][0], b[:3000]))
            continue
        is_benign = False
        for e in benign:
            s1, s2 = e["a"], e.get("b", e["a"])
            any_ok = e.get("other_side_any", False)
            if a and c:
                if (_side_matches(s1, a) and _side_matches(s2, c)) or \
                        (_side_matches(s2, a) and _side_matches(s1, c)):
                    is_benign = True
            elif any_ok or not second:
                x = a or c
                if _side_matches(s1, x) or _side_matches(s2, x):
                    is_benign = True
            if any_ok and a and c and (_side_matches(s1, a) or _side_matches(s1, c)):
                is_benign = True
            if is_benign:
                break
        if is_benign:
            stats["benign"] += 1
            continue
        fa = a[0] if a else "?"
        fc = c[0] if c else "?"
        key = "tsan:race:" + "|".join(sorted([fa, fc]))
        found.append((key, b[:3000]))
    return found, stats


def asan_triage(text):
    out = []
    m = re.search(r"ERROR: (AddressSanitizer|LeakSanitizer): ([^\n]+)", text)
    if m:
        kind = m.group(2).split(" on ")[0].split(" in ")[0].strip()
        kind = re.sub(r"0x[0-9a-f]+", "", kind).strip()
        kind = re.sub(r"\s+", "-", kind)[:60]
        tool = "asan" if m.group(1) == "AddressSanitizer" else "lsan"
        top = None
        seg = text[m.start():]
        for fr in _frames(seg):
            if _is_repo(fr[1]):
                top = fr
                break
        if tool == "lsan":
            # first allocation stack's first repo frame
            kind = "leak"
        out.append(("%s:%s:%s" % (tool, kind, top[0] if top else "?"), seg[:4000]))
    for m in re.finditer(r"(?m)^(\S+?):(\d+):(\d+): runtime error: ([^\n]+)", text):
        f = m.group(1)
        msg = re.sub(r"-?\d+", "N", m.group(4))
        msg = re.sub(r"0x[0-9a-f]+", "P", msg)[:80]
        key = "ubsan:%s:%s" % (os.path.basename(f), msg.replace(" ", "-"))
        out.append((key, text[m.start():m.start() + 3000]))
    return out


def crash_key(rc, stderr):
    sig = -rc
    try:
        name = signal.Signals(sig).name
    except ValueError:
        name = "SIG%d" % sig
    top = "?"
    m = re.search(r"VRT-CRASH signal \d+\n(.*)", stderr, re.S)
    if m:
        for line in m.group(1).splitlines():
            mm = re.search(r"\(([A-Za-z_][A-Za-z0-9_]*)\+0x", line)
            if mm and not mm.group(1).startswith(("crash_handler", "backtrace", "__restore", "gsignal", "raise", "abort")):
                top = mm.group(1)
                break
    if "invalid pointer" in stderr or "free():" in stderr or "malloc()" in stderr or "double free" in stderr:
        mm = re.search(r"((?:free|malloc|realloc|munmap_chunk|corrupted|double free)[^\n]*)", stderr)
        if mm:
            top = "glibc:" + re.sub(r"\s+", "-", mm.group(1).strip())[:50]
    m = re.search(r"Assertion `([^']+)' failed", stderr)
    if m:
        top = "assert:" + re.sub(r"\s+", "", m.group(1))[:60]
    return "crash:%s:%s" % (name, top)


# ---------------------------------------------------------------------------

class Check:
    def __init__(self, prop, tier, seed, level="exploration"):
        self.prop = prop
        self.tier = tier
        self.seed = seed
        self.level = level
        self.runs = []
        self.rule = ""
        self.assumptions = []
        self.nontrivial = None   # function(run) -> bool
        self.extra_cov = {}
        self.t0 = time.time()
        self.required_counters = []   # counters that must be >0 overall else inconclusive
        self.required_points = []     # coverage points that must be >0 overall

    def add(self, run):
        # The wall-clock watchdog is only a backstop (its firing is "inconclusive", never a violation; real hangs are
        # found by the logical-deadlock supervisor within seconds), so it is made generous: the machine may be loaded
        # by other checks, builds or sanitizer runs.
        if "--watchdog" in run.args:
            i = run.args.index("--watchdog")
            try:
                w = int(run.args[i + 1])
                if os.environ.get("VERIF_WATCHDOG_SCALE"):
                    # used by tools/seed_matrix.sh only: hangs on mutated trees are resolved faster
                    run.args[i + 1] = str(int(w * float(os.environ["VERIF_WATCHDOG_SCALE"])))
                else:
                    run.args[i + 1] = str(max(w * (8 if self.tier == "thorough" else 3),
                                              600 if self.tier == "thorough" else 180))
            except (ValueError, IndexError):
                pass
        self.runs.append(run)
        return run

    # ---- execution
    def _exec(self, run):
        try:
            binp = build.build_harness(run.harness, run.variant, run.extra_sources,
                                       run.ldflags, run.cflags)
        except build.BuildError as e:
            run.verdict = "harness_error"
            run.stderr = str(e)
            return
        env = dict(os.environ)
        for k in list(env):
            if k.startswith("ABT_"):
                del env[k]
        env.update(SAN_ENV.get(run.variant, {}))
        env.update(run.env)
        env["VERIF_SEED"] = str(self.seed)
        logbase = None
        if run.variant == "tsan":
            os.makedirs(LOGS, exist_ok=True)
            logbase = tempfile.mktemp(prefix="tsan_%s_" % self.prop, dir=LOGS)
            env["TSAN_OPTIONS"] = env["TSAN_OPTIONS"] + ":log_path=" + logbase
        cmd = [binp] + run.args
        run.cmd = cmd
        run.fullenv = {k: env[k] for k in env if k.startswith(("ABT_", "ASAN_", "TSAN_", "UBSAN_", "LSAN_", "VERIF_", "MALLOC_"))}
        t = time.time()
        scale = {"asan": 3, "tsan": 6}.get(run.variant, 1)
        try:
            tmo = run.timeout
            if "--watchdog" in run.args:
                tmo = max(tmo, int(run.args[run.args.index("--watchdog") + 1]) + 60)
            p = subprocess.run(cmd, env=env, stdout=subprocess.PIPE, stderr=subprocess.PIPE,
                               timeout=tmo * scale, cwd=VERIF)
            run.rc = p.returncode
            run.stdout = p.stdout.decode(errors="replace")
            run.stderr = p.stderr.decode(errors="replace")
        except subprocess.TimeoutExpired as e:
            run.rc = None
            run.stdout = (e.stdout or b"").decode(errors="replace")
            run.stderr = (e.stderr or b"").decode(errors="replace")
        run.wall = time.time() - t
        run.attempts += 1
        # parse
        run.result = None
        run.viol = []
        for line in run.stdout.splitlines():
            if line.startswith("VRT-RESULT "):
                try:
                    run.result = json.loads(line[len("VRT-RESULT "):])
                except ValueError:
                    pass
        san_text = run.stderr
        if logbase:
            for f in glob.glob(logbase + "*"):
                try:
                    san_text += "\n" + open(f, errors="replace").read()
                except OSError:
                    pass
                os.unlink(f)
        if run.variant == "tsan":
            found, stats = tsan_triage(san_text, load_tsan_benign())
            run.tsan_stats = stats
            seen = set()
            for k, ex in found:
                if k in seen:
                    continue
                seen.add(k)
                run.viol.append((k, ex))
        if run.variant == "asan":
            for k, ex in asan_triage(san_text):
                run.viol.append((k, ex))
        if run.result:
            for v in run.result.get("violations", []):
                run.viol.append((v["key"], v["msg"]))
        if run.rc is None:
            run.verdict = "inconclusive"
            run.why = "driver timeout"
        elif run.rc == 2 or (run.rc == 0 and not run.result):
            run.verdict = "harness_error"
        elif run.rc < 0 and not run.viol:
            run.viol.append((crash_key(run.rc, run.stderr), run.stderr[-3000:]))
            run.verdict = "violated"
        elif run.rc not in (0, 1, 3) and not run.viol:
            # aborted by a sanitizer without a parsable report, or unexpected exit
            if run.rc == 134 or run.rc == 139:
                run.viol.append((crash_key(-(run.rc - 128), run.stderr), run.stderr[-3000:]))
                run.verdict = "violated"
            else:
                run.verdict = "harness_error"
        elif run.rc == 3 or (run.result and run.result.get("verdict") == "inconclusive"):
            # a run that stalled after recording findings is still inconclusive (it is re-run;
            # the findings recorded so far are kept)
            run.verdict = "inconclusive"
        elif run.viol:
            run.verdict = "violated"
        elif run.rc == 0:
            run.verdict = "held"
        else:
            run.verdict = "harness_error"

    def execute(self, max_weight=None):
        max_weight = max_weight or max(NCPU, 4)
        # build everything first (serially per (harness,variant), cached)
        seen = set()
        for r in self.runs:
            k = (r.harness, r.variant, r.extra_sources, r.ldflags, r.cflags)
            if k in seen:
                continue
            seen.add(k)
            try:
                build.build_harness(r.harness, r.variant, r.extra_sources, r.ldflags, r.cflags)
            except build.BuildError as e:
                print("BUILD FAILURE:\n%s" % e, file=sys.stderr)
                return 2
        lock = threading.Lock()
        cond = threading.Condition(lock)
        state = {"w": 0}
        pending = list(self.runs)
        threads = []

        def worker(run):
            self._exec(run)
            if run.verdict == "inconclusive":
                # re-run once with the same seed before calling it a hang
                first_out = (run.stdout, run.stderr)
                first_viol = list(run.viol)
                run.first_inconclusive = "%s\n%s" % (run.stdout[-2000:], run.stderr[-3000:])
                print("NOTE: inconclusive first attempt (%s %s %s), re-running once:\n%s" %
                      (run.harness, run.variant, " ".join(run.args), run.stderr[-2500:]), file=sys.stderr)
                self._exec(run)
                for kv in first_viol:
                    if kv[0] not in [k for k, _ in run.viol]:
                        run.viol.append(kv)
                why = (run.result or {}).get("inconclusive", "") or getattr(run, "why", "")
                if run.verdict == "inconclusive" and ": slow" in why:
                    # still making progress when the watchdog fired: a sizing problem of the
                    # workload, not a verdict about the property
                    run.verdict = "harness_error"
                    run.stderr += "\nworkload too slow for its watchdog twice: " + why
                elif run.verdict == "held" and run.viol:
                    run.verdict = "violated"
                elif run.verdict == "inconclusive":
                    sc = (run.result or {}).get("scenario", "?")
                    run.viol.append(("hang:reproduced:%s:%s" % (run.harness, run.tag or sc),
                                     "inconclusive twice (watchdog/timeout); stderr tail: " +
                                     run.stderr[-1500:]))
                    run.verdict = "violated"
            if os.environ.get("VERIF_VERBOSE"):
                print("  run %s/%s %s: %s %.1fs" % (run.harness, run.variant, run.tag, run.verdict, run.wall),
                      file=sys.stderr)
            with cond:
                state["w"] -= run.weight
                cond.notify_all()

        while pending:
            with cond:
                r = pending[0]
                while state["w"] > 0 and state["w"] + r.weight > max_weight:
                    cond.wait()
                state["w"] += r.weight
                pending.pop(0)
            t = threading.Thread(target=worker, args=(r,))
            t.start()
            threads.append(t)
        for t in threads:
            t.join()
        return 0

    # ---- reporting
    def finish(self):
        os.makedirs(EVID, exist_ok=True)
        known = load_known()
        names = _point_names()
        harness_errors = [r for r in self.runs if r.verdict == "harness_error"]
        viol_runs = [r for r in self.runs if r.verdict == "violated"]
        # aggregate
        counters = {}
        cov = {}
        sigs = set()
        nontriv = 0
        evaluations = 0
        samples = []
        notes = {}
        delays = 0
        tsan_stats = {"reports": 0, "benign": 0}
        san_runs = {"asan": 0, "tsan": 0, "mon": 0, "ubassert": 0}
        for r in self.runs:
            san_runs[r.variant] = san_runs.get(r.variant, 0) + 1
            if hasattr(r, "tsan_stats"):
                tsan_stats["reports"] += r.tsan_stats["reports"]
                tsan_stats["benign"] += r.tsan_stats["benign"]
            res = r.result
            if not res:
                continue
            for k, v in res.get("counters", {}).items():
                counters[k] = counters.get(k, 0) + v
            for k, v in res.get("cov", {}).items():
                n = names.get(int(k), k)
                cov[n] = cov.get(n, 0) + v
            delays += res.get("delays", 0)
            cases = res.get("counters", {}).get("cases", 1)
            evaluations += cases
            nt = res.get("counters", {}).get("nontrivial", 0)
            if self.nontrivial:
                nt = 1 if self.nontrivial(r) else 0
            if nt:
                # harnesses that enumerate many cases per process count their own distinct
                # non-trivial cases; otherwise distinct configuration signatures are counted
                own = res.get("counters", {}).get("distinct_nontrivial", 0)
                if own:
                    nontriv += own
                else:
                    for part in (res.get("signature") or "-").split(";"):
                        sigs.add("%s|%s|%s|%s|%s" % (r.variant, res.get("scenario"), res.get("delay"),
                                                     json.dumps(r.env, sort_keys=True), part))
            for s in res.get("samples", []):
                if len(samples) < 6:
                    samples.append({"run": r.tag or res.get("scenario"), "variant": r.variant, "case": s})
            for k, v in res.get("notes", {}).items():
                notes.setdefault(k, v)
        distinct = nontriv + len(sigs)
        # violations -> known findings
        out_lines = []
        new_viol = []
        known_hits = {}
        for r in viol_runs:
            for k, msg in r.viol:
                kf = match_known(known, self.prop, k)
                if kf:
                    known_hits[kf["key"]] = kf
                else:
                    new_viol.append((r, k, msg))
        # coverage requirements -> inconclusive => harness failure (exit 2)
        missing = []
        for c in self.required_counters:
            if counters.get(c, 0) == 0:
                missing.append("counter " + c)
        for p in self.required_points:
            if cov.get(p, 0) == 0:
                missing.append("point " + p)
        if not samples:
            samples = [r.describe() for r in self.runs[:3]]
        ev = {
            "property_id": self.prop,
            "tier": self.tier,
            "seed": self.seed,
            "level": self.level,
            "coverage": {
                "evaluations": int(evaluations),
                "distinct_nontrivial": int(distinct),
                "rule": self.rule,
                "samples": samples,
                "events": counters,
                "coverage_points": cov,
                "delays_injected": delays,
                "processes": len(self.runs),
                "processes_by_variant": {k: v for k, v in san_runs.items() if v},
                "tsan_reports": tsan_stats,
                "notes": notes,
                "missing_required_observations": missing,
                "known_findings_hit": sorted(known_hits),
            },
            "assumptions": self.assumptions,
            "wall_s": round(time.time() - self.t0, 2),
            "violations": len(new_viol),
        }
        ev["coverage"].update(self.extra_cov)
        tmp = os.path.join(EVID, self.prop + ".json.tmp%d" % os.getpid())
        with open(tmp, "w") as f:
            json.dump(ev, f, indent=1, sort_keys=True)
        os.rename(tmp, os.path.join(EVID, self.prop + ".json"))
        for kf in known_hits.values():
            print("KNOWN-FINDING: property=%s %s" % (self.prop, kf["what"]))
        rc = 0
        if new_viol:
            os.makedirs(REPLAY, exist_ok=True)
            seen = set()
            for r, k, msg in new_viol:
                if k in seen:
                    continue
                seen.add(k)
                path = os.path.join(REPLAY, "%s_%s_%d.json" % (self.prop, re.sub(r"[^A-Za-z0-9_.-]+", "_", k)[:80], self.seed))
                with open(path, "w") as f:
                    json.dump({"property": self.prop, "key": k, "message": msg, "cmd": r.cmd,
                               "env": r.fullenv, "variant": r.variant, "seed": self.seed,
                               "tier": self.tier, "stdout_tail": r.stdout[-4000:],
                               "stderr_tail": r.stderr[-6000:]}, f, indent=1)
                print("VIOLATION property=%s replay=%s" % (self.prop, path))
                print("  key=%s" % k)
                print("  " + msg[:600].replace("\n", "\n  "))
            rc = 1
        if harness_errors:
            for r in harness_errors[:3]:
                print("HARNESS-ERROR %s %s rc=%s\n%s\n%s" % (r.harness, " ".join(r.args), r.rc,
                                                             r.stdout[-1500:], r.stderr[-3000:]), file=sys.stderr)
            if rc == 0:
                rc = 2
        if missing and rc == 0:
            print("INCONCLUSIVE: required observations missing: %s" % ", ".join(missing), file=sys.stderr)
            rc = 2
        print("%s %s: %d processes, %d cases, %d distinct non-trivial, %d new violations, %d known, %.1fs" %
              (self.prop, self.tier, len(self.runs), evaluations, distinct, len(new_viol), len(known_hits),
               time.time() - self.t0))
        return rc


def load_known():
    p = os.path.join(VERIF, "known_findings.json")
    try:
        return json.load(open(p))
    except (OSError, ValueError):
        return {"findings": [], "fixed": []}


def match_known(known, prop, key):
    for f in known.get("findings", []):
        if f.get("property") == prop and f.get("key") == key:
            return f
    return None
