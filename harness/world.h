/* world.h: helpers to build a runtime configuration (streams, pools, schedulers)
 * from a seed.  Included by the harnesses (static functions). */
#ifndef WORLD_H
#define WORLD_H
#include "vrt.h"

#define W_MAXES 16

typedef struct {
    int nes;       /* number of execution streams incl. primary */
    int shared;    /* 1: all streams share pools[0] */
    int pool_kind; /* ABT_POOL_FIFO / FIFO_WAIT / RANDWS */
    int sched_predef;
    int primary_replaced; /* primary's main scheduler was replaced */
    ABT_xstream xs[W_MAXES];
    ABT_pool pools[W_MAXES]; /* pools[i] is the pool stream i pops from first */
    int npools;
} world_t;

static const char *w_pool_kind_name(int k)
{
    return k == ABT_POOL_FIFO ? "fifo"
                              : k == ABT_POOL_FIFO_WAIT ? "fifo_wait" : "randws";
}
static const char *w_sched_name(int s)
{
    switch (s) {
        case ABT_SCHED_DEFAULT:
            return "default";
        case ABT_SCHED_BASIC:
            return "basic";
        case ABT_SCHED_PRIO:
            return "prio";
        case ABT_SCHED_RANDWS:
            return "randws";
        case ABT_SCHED_BASIC_WAIT:
            return "basic_wait";
    }
    return "?";
}

/* pick a random but legal combination */
static void world_random_config(vrt_rng *r, int max_es, int *nes, int *shared,
                                int *pool_kind, int *sched)
{
    *nes = 1 + (int)vrt_range(r, (uint64_t)max_es);
    *shared = (int)vrt_range(r, 3) == 0;
    static const int scheds[] = { ABT_SCHED_BASIC, ABT_SCHED_BASIC_WAIT,
                                  ABT_SCHED_PRIO, ABT_SCHED_RANDWS,
                                  ABT_SCHED_DEFAULT };
    *sched = scheds[vrt_range(r, 5)];
    if (*sched == ABT_SCHED_BASIC_WAIT) {
        *pool_kind = ABT_POOL_FIFO_WAIT;
    } else {
        static const int kinds[] = { ABT_POOL_FIFO, ABT_POOL_FIFO_WAIT,
                                     ABT_POOL_RANDWS, ABT_POOL_FIFO };
        *pool_kind = kinds[vrt_range(r, 4)];
    }
}

/* Create nes streams.  If shared: one MPMC pool served by every stream
 * (the primary's main scheduler is replaced as well).  Otherwise each stream
 * has its own MPMC pool; with ABT_SCHED_RANDWS each scheduler additionally
 * lists all other pools as steal victims. */
/* access mode of the private pools of the secondary streams (several producers,
 * one consumer is what a private pool needs: MPMC, MPSC; SPSC only where the
 * harness has a single pusher besides the owning stream) */
static ABT_pool_access w_private_access = ABT_POOL_ACCESS_MPMC;
static void world_create(world_t *w, int nes, int shared, int pool_kind,
                         int sched_predef)
{
    memset(w, 0, sizeof(*w));
    if (nes > W_MAXES)
        nes = W_MAXES;
    w->nes = nes;
    w->shared = shared;
    w->pool_kind = pool_kind;
    w->sched_predef = sched_predef;
    VRT_ABT(ABT_xstream_self(&w->xs[0]));
    if (shared) {
        ABT_pool p;
        VRT_ABT(ABT_pool_create_basic((ABT_pool_kind)pool_kind,
                                      ABT_POOL_ACCESS_MPMC, ABT_TRUE, &p));
        for (int i = 0; i < nes; i++)
            w->pools[i] = p;
        w->npools = 1;
        VRT_ABT(ABT_xstream_set_main_sched_basic(w->xs[0],
                                                 (ABT_sched_predef)sched_predef,
                                                 1, &p));
        w->primary_replaced = 1;
        for (int i = 1; i < nes; i++)
            VRT_ABT(ABT_xstream_create_basic((ABT_sched_predef)sched_predef, 1,
                                             &p, ABT_SCHED_CONFIG_NULL,
                                             &w->xs[i]));
    } else {
        w->npools = nes;
        VRT_ABT(ABT_xstream_get_main_pools(w->xs[0], 1, &w->pools[0]));
        for (int i = 1; i < nes; i++)
            VRT_ABT(ABT_pool_create_basic((ABT_pool_kind)pool_kind,
                                          sched_predef == ABT_SCHED_RANDWS ? ABT_POOL_ACCESS_MPMC : w_private_access,
                                          ABT_TRUE, &w->pools[i]));
        for (int i = 1; i < nes; i++) {
            ABT_pool mine[W_MAXES];
            int n = 0;
            mine[n++] = w->pools[i];
            if (sched_predef == ABT_SCHED_RANDWS) {
                for (int j = 1; j < nes; j++)
                    if (j != i)
                        mine[n++] = w->pools[j];
            }
            VRT_ABT(ABT_xstream_create_basic((ABT_sched_predef)sched_predef, n,
                                             mine, ABT_SCHED_CONFIG_NULL,
                                             &w->xs[i]));
        }
    }
    vrt_watch_pools(w->pools, shared ? 1 : nes);
}

static void world_destroy(world_t *w)
{
    vrt_watch_pools(NULL, 0);
    for (int i = 1; i < w->nes; i++) {
        VRT_ABT(ABT_xstream_join(w->xs[i]));
        VRT_ABT(ABT_xstream_free(&w->xs[i]));
    }
}

static void world_describe(world_t *w, char *buf, size_t n)
{
    snprintf(buf, n, "es=%d,%s,pool=%s,sched=%s", w->nes,
             w->shared ? "shared" : "private", w_pool_kind_name(w->pool_kind),
             w_sched_name(w->sched_predef));
}

#endif
