/* C09: eventuals and futures become ready exactly once and wake every waiter.
 *
 * One "epoch" = one ready cycle of an object (creation or reset .. next reset).
 * Actors of an epoch: racing setters, waiters (ULT/external; tasklet waits are
 * allowed to be rejected), testers (any kind).  Oracles:
 *  eventual: exactly one set succeeds per epoch, the others fail with an error;
 *    every waiter/tester that sees "ready" reads exactly the winner's bytes; a
 *    tester may see ready only after some set call was started; the buffer
 *    still holds the winner's bytes after the failed sets; after reset: not
 *    ready.
 *  future: exactly num_compartments sets succeed, the rest fail; the callback
 *    runs exactly once, sees exactly the values of the successful sets, and
 *    has finished before any waiter returns / any test reports ready.
 *  all waiters return: logical-deadlock rule. */
#include "actors.h"

#define MAXA 48
#define MAXBYTES 4096
#define MAXCOMP 64

typedef struct {
    int is_future;
    /* eventual */
    ABT_eventual ev;
    int nbytes;
    int set_started;           /* atomic */
    int winner;                /* atomic: actor idx of the successful set, -1 */
    int set_ok, set_fail;      /* atomic */
    /* future */
    ABT_future fu;
    int ncomp;
    int has_cb;
    int cb_count;              /* atomic */
    int cb_done;               /* atomic */
    int cb_bad;                /* atomic */
    uintptr_t cb_seen[MAXCOMP];
    int fset_ok, fset_fail;    /* atomic */
    uintptr_t ok_values[MAXA * 4]; /* values of successful sets (slot per try) */
    int ok_n;                  /* atomic */
    int nsetters, nwaiters, ntesters;
    int sets_per_setter;
    uint64_t epoch_salt;
    /* what observers saw */
    uint64_t seen_hash[MAXA];  /* per actor, 0 = nothing */
    int seen_ready[MAXA];
} ectx_t;

static ectx_t *g_cb_ctx;
static int c_cases, c_epochs, c_sets_ok, c_sets_rejected, c_waits, c_tests_ready,
    c_tests_notready, c_task_wait_rejected, c_cb, c_ev_epochs, c_fu_epochs,
    c_wait_before_set, c_wait_after_set, c_nbytes0, c_ncomp0;

static uint64_t pattern_byte_seed(ectx_t *c, int setter)
{
    return vrt_hash64(c->epoch_salt * 1000003ULL + (uint64_t)setter + 17);
}
static void fill_pattern(ectx_t *c, int setter, unsigned char *buf)
{
    vrt_rng r = { pattern_byte_seed(c, setter) };
    for (int i = 0; i < c->nbytes; i += 8) {
        uint64_t v = vrt_next(&r);
        for (int j = 0; j < 8 && i + j < c->nbytes; j++)
            buf[i + j] = (unsigned char)(v >> (8 * j));
    }
}
static uint64_t hash_buf(const unsigned char *p, int n)
{
    uint64_t h = 1469598103934665603ULL;
    for (int i = 0; i < n; i++)
        h = (h ^ p[i]) * 1099511628211ULL;
    return h | 1;
}

static void future_cb(void **arg)
{
    ectx_t *c = g_cb_ctx;
    __atomic_fetch_add(&c->cb_count, 1, __ATOMIC_SEQ_CST);
    for (int i = 0; i < c->ncomp; i++)
        c->cb_seen[i] = (uintptr_t)arg[i];
    /* a callback that takes a while: nobody may see the future ready before
     * it has finished */
    if (c->epoch_salt & 1)
        vrt_sleep_us(50 + (unsigned)(c->epoch_salt >> 8) % 400);
    else
        for (volatile unsigned i = 0; i < 200 + ((c->epoch_salt >> 8) & 0xfff); i++)
            ;
    __atomic_store_n(&c->cb_done, 1, __ATOMIC_SEQ_CST);
    vrt_count(c_cb, 1);
}

static void observe_eventual(ectx_t *c, actor_t *a, void *val)
{
    c->seen_ready[a->idx] = 1;
    if (c->nbytes > 0) {
        if (!val) {
            vrt_violation("eventual:null-value", "ready but value pointer NULL");
            return;
        }
        c->seen_hash[a->idx] = hash_buf((unsigned char *)val, c->nbytes);
    }
}

static void ef_body(actor_t *a)
{
    ectx_t *c = (ectx_t *)a->ctx;
    int role = a->idx < c->nsetters ? 0
               : a->idx < c->nsetters + c->nwaiters ? 1 : 2;
    /* random start skew */
    unsigned skew = (unsigned)vrt_range(&a->rng, 6);
    if (role == 0 && vrt_range(&a->rng, 2) == 0) {
        /* setters often start late so that waiters really block first */
        if (a->kind == ACT_ULT)
            for (int i = 0; i < 4; i++)
                ABT_thread_yield();
        vrt_sleep_us(50 + (unsigned)vrt_range(&a->rng, 300));
    }
    if (skew == 0)
        vrt_sleep_us((unsigned)vrt_range(&a->rng, 200));
    else if (skew < 3 && a->kind == ACT_ULT)
        ABT_thread_yield();
    if (!c->is_future) {
        if (role == 0) {
            unsigned char buf[MAXBYTES];
            for (int k = 0; k < c->sets_per_setter; k++) {
                fill_pattern(c, a->idx, buf);
                __atomic_store_n(&c->set_started, 1, __ATOMIC_SEQ_CST);
                int rc = ABT_eventual_set(c->ev, c->nbytes ? buf : NULL, c->nbytes);
                if (rc == ABT_SUCCESS) {
                    __atomic_fetch_add(&c->set_ok, 1, __ATOMIC_SEQ_CST);
                    __atomic_store_n(&c->winner, a->idx, __ATOMIC_SEQ_CST);
                    vrt_count(c_sets_ok, 1);
                } else if (rc == ABT_ERR_EVENTUAL) {
                    __atomic_fetch_add(&c->set_fail, 1, __ATOMIC_SEQ_CST);
                    vrt_count(c_sets_rejected, 1);
                } else {
                    vrt_violation("eventual:set-rc", "set returned %d", rc);
                }
            }
        } else if (role == 1) {
            void *val = NULL;
            int started = __atomic_load_n(&c->set_started, __ATOMIC_SEQ_CST);
            vrt_actor_set(a->vid, VRT_A_BLOCKED, "eventual_wait");
            int rc = ABT_eventual_wait(c->ev, c->nbytes ? &val : NULL);
            vrt_actor_set(a->vid, VRT_A_RUNNING, "woken");
            if (a->kind == ACT_TASK && rc == ABT_ERR_EVENTUAL) {
                vrt_count(c_task_wait_rejected, 1);
                return;
            }
            if (rc != ABT_SUCCESS) {
                vrt_violation("eventual:wait-rc", "wait returned %d", rc);
                return;
            }
            vrt_count(started ? c_wait_after_set : c_wait_before_set, 1);
            if (!__atomic_load_n(&c->set_started, __ATOMIC_SEQ_CST))
                vrt_violation("eventual:wait-returned-before-set",
                              "waiter %d returned but no set was ever started",
                              a->idx);
            observe_eventual(c, a, val);
            vrt_count(c_waits, 1);
        } else {
            for (int k = 0; k < 6; k++) {
                void *val = NULL;
                ABT_bool ready = ABT_FALSE;
                int rc = ABT_eventual_test(c->ev, c->nbytes ? &val : NULL, &ready);
                int started = __atomic_load_n(&c->set_started, __ATOMIC_SEQ_CST);
                if (rc != ABT_SUCCESS) {
                    vrt_violation("eventual:test-rc", "test returned %d", rc);
                    return;
                }
                if (ready) {
                    if (!started)
                        vrt_violation("eventual:ready-before-set",
                                      "test reported ready before any set call "
                                      "was started");
                    observe_eventual(c, a, val);
                    vrt_count(c_tests_ready, 1);
                    break;
                }
                vrt_count(c_tests_notready, 1);
                if (a->kind == ACT_ULT)
                    ABT_thread_yield();
                else
                    vrt_sleep_us(20);
            }
        }
    } else {
        if (role == 0) {
            for (int k = 0; k < c->sets_per_setter; k++) {
                int slot = a->idx * 4 + k;
                uintptr_t v = (uintptr_t)(0x10000 + (uintptr_t)slot * 16 +
                                          (c->epoch_salt & 7));
                int rc = ABT_future_set(c->fu, (void *)v);
                if (rc == ABT_SUCCESS) {
                    int n = __atomic_fetch_add(&c->ok_n, 1, __ATOMIC_SEQ_CST);
                    c->ok_values[n] = v;
                    __atomic_fetch_add(&c->fset_ok, 1, __ATOMIC_SEQ_CST);
                    vrt_count(c_sets_ok, 1);
                } else if (rc == ABT_ERR_FUTURE) {
                    __atomic_fetch_add(&c->fset_fail, 1, __ATOMIC_SEQ_CST);
                    vrt_count(c_sets_rejected, 1);
                } else {
                    vrt_violation("future:set-rc", "set returned %d", rc);
                }
                if (a->kind == ACT_ULT && vrt_range(&a->rng, 3) == 0)
                    ABT_thread_yield();
            }
        } else if (role == 1) {
            vrt_actor_set(a->vid, VRT_A_BLOCKED, "future_wait");
            int rc = ABT_future_wait(c->fu);
            vrt_actor_set(a->vid, VRT_A_RUNNING, "woken");
            if (a->kind == ACT_TASK && rc == ABT_ERR_FUTURE) {
                vrt_count(c_task_wait_rejected, 1);
                return;
            }
            if (rc != ABT_SUCCESS) {
                vrt_violation("future:wait-rc", "wait returned %d", rc);
                return;
            }
            if (c->has_cb && c->ncomp > 0 &&
                !__atomic_load_n(&c->cb_done, __ATOMIC_SEQ_CST))
                vrt_violation("future:waiter-before-callback",
                              "waiter %d returned before the callback finished",
                              a->idx);
            ABT_bool ready = ABT_FALSE;
            VRT_ABT(ABT_future_test(c->fu, &ready));
            VRT_CHECK(ready == ABT_TRUE, "future:not-ready-after-wait",
                      "test says not ready after wait returned");
            vrt_count(c_waits, 1);
        } else {
            for (int k = 0; k < 6; k++) {
                ABT_bool ready = ABT_FALSE;
                VRT_ABT(ABT_future_test(c->fu, &ready));
                if (ready) {
                    if (c->has_cb && c->ncomp > 0 &&
                        !__atomic_load_n(&c->cb_done, __ATOMIC_SEQ_CST))
                        vrt_violation("future:ready-before-callback",
                                      "test reported ready before the callback "
                                      "finished");
                    vrt_count(c_tests_ready, 1);
                    break;
                }
                vrt_count(c_tests_notready, 1);
                if (a->kind == ACT_ULT)
                    ABT_thread_yield();
                else
                    vrt_sleep_us(20);
            }
        }
    }
}

static void run_epoch(world_t *w, ectx_t *c, vrt_rng *r, uint64_t seed)
{
    static actor_t actors[MAXA];
    int kinds[MAXA];
    c->epoch_salt = vrt_next(r);
    c->set_started = 0;
    c->winner = -1;
    c->set_ok = c->set_fail = 0;
    c->cb_count = c->cb_done = c->cb_bad = 0;
    c->fset_ok = c->fset_fail = 0;
    c->ok_n = 0;
    memset(c->seen_hash, 0, sizeof(c->seen_hash));
    memset(c->seen_ready, 0, sizeof(c->seen_ready));
    int total_sets;
    if (c->is_future) {
        /* enough setters to fill all compartments plus extras */
        c->sets_per_setter = 1 + (int)vrt_range(r, 3);
        int need = c->ncomp + (int)vrt_range(r, 4);
        c->nsetters = (need + c->sets_per_setter - 1) / c->sets_per_setter;
        if (c->nsetters < 1)
            c->nsetters = 1;
        if (c->nsetters > 30)
            c->nsetters = 30, c->sets_per_setter = 3;
        total_sets = c->nsetters * c->sets_per_setter;
        if (total_sets < c->ncomp) {
            c->sets_per_setter = 3;
            c->nsetters = (c->ncomp + 2) / 3;
            total_sets = c->nsetters * 3;
        }
    } else {
        c->nsetters = 1 + (int)vrt_range(r, 4);
        c->sets_per_setter = 1 + (int)vrt_range(r, 2);
        total_sets = c->nsetters * c->sets_per_setter;
    }
    c->nwaiters = (int)vrt_range(r, 10);
    c->ntesters = (int)vrt_range(r, 4);
    int n = c->nsetters + c->nwaiters + c->ntesters;
    if (n > MAXA) {
        c->nwaiters = MAXA - c->nsetters - c->ntesters;
        n = MAXA;
    }
    /* kinds: setters/testers may be tasklets; waiters ULT/ext (+ a tasklet
     * whose wait may be rejected) */
    for (int i = 0; i < n; i++) {
        unsigned k = (unsigned)vrt_range(r, 10);
        kinds[i] = k < 6 ? ACT_ULT : k < 8 ? ACT_EXT : ACT_TASK;
    }
    /* With tasklets that may block in wait (2.0 API) a setter must not be a
     * tasklet queued behind them on the same stream: keep tasklet setters out
     * when there are tasklet waiters. */
    int task_waiter = 0;
    for (int i = c->nsetters; i < c->nsetters + c->nwaiters; i++)
        if (kinds[i] == ACT_TASK)
            task_waiter = 1;
    if (task_waiter)
        for (int i = 0; i < c->nsetters; i++)
            if (kinds[i] == ACT_TASK)
                kinds[i] = ACT_ULT;
    task_stream_t ts;
    vrt_actor_reset_all();
    g_cb_ctx = c;
    actors_spawn(w, actors, n, kinds, ef_body, c, &ts, seed);
    actors_join(actors, n, &ts);
    /* epoch-end checks */
    if (!c->is_future) {
        VRT_CHECK(c->set_ok == 1, "eventual:set-success-count",
                  "%d sets succeeded in one epoch (%d rejected, %d attempts)",
                  c->set_ok, c->set_fail, total_sets);
        VRT_CHECK(c->set_ok + c->set_fail == total_sets, "eventual:set-count",
                  "ok %d + rejected %d != attempts %d", c->set_ok, c->set_fail,
                  total_sets);
        void *val = NULL;
        ABT_bool ready = ABT_FALSE;
        VRT_ABT(ABT_eventual_test(c->ev, c->nbytes ? &val : NULL, &ready));
        VRT_CHECK(ready == ABT_TRUE, "eventual:not-ready-after-set",
                  "not ready at the end of the epoch");
        if (c->nbytes > 0 && c->winner >= 0 && val) {
            unsigned char buf[MAXBYTES];
            fill_pattern(c, c->winner, buf);
            uint64_t want = hash_buf(buf, c->nbytes);
            uint64_t got = hash_buf((unsigned char *)val, c->nbytes);
            VRT_CHECK(got == want, "eventual:value-changed",
                      "final buffer does not hold the first set's bytes "
                      "(nbytes=%d, %d rejected sets)", c->nbytes, c->set_fail);
            for (int i = 0; i < n; i++)
                if (c->seen_ready[i] && c->seen_hash[i] != want)
                    vrt_violation("eventual:observer-read-wrong-value",
                                  "actor %d(%s) saw ready but read bytes that are "
                                  "not the successful set's (nbytes=%d)", i,
                                  act_kind_name[kinds[i]], c->nbytes);
        }
    } else {
        int expect_ok = c->ncomp;
        VRT_CHECK(c->fset_ok == expect_ok, "future:set-success-count",
                  "%d sets succeeded for %d compartments (%d rejected)",
                  c->fset_ok, c->ncomp, c->fset_fail);
        VRT_CHECK(c->fset_ok + c->fset_fail == total_sets, "future:set-count",
                  "ok %d + rejected %d != attempts %d", c->fset_ok, c->fset_fail,
                  total_sets);
        if (c->has_cb && c->ncomp > 0) {
            VRT_CHECK(c->cb_count == 1, "future:callback-count",
                      "callback ran %d times", c->cb_count);
            /* callback saw exactly the successful values */
            int bad = 0;
            for (int i = 0; i < c->ncomp && i < c->ok_n; i++) {
                int found = 0;
                for (int j = 0; j < c->ok_n; j++)
                    if (c->cb_seen[i] == c->ok_values[j])
                        found++;
                if (found != 1)
                    bad++;
            }
            VRT_CHECK(!bad, "future:callback-values",
                      "%d of %d compartments seen by the callback are not the "
                      "values of successful sets", bad, c->ncomp);
        } else {
            VRT_CHECK(c->cb_count == 0, "future:callback-count",
                      "callback ran %d times without being due", c->cb_count);
        }
        ABT_bool ready = ABT_FALSE;
        VRT_ABT(ABT_future_test(c->fu, &ready));
        VRT_CHECK(ready == ABT_TRUE, "future:not-ready-at-end", "not ready");
    }
    vrt_count(c_epochs, 1);
    vrt_count(c->is_future ? c_fu_epochs : c_ev_epochs, 1);
}

/* reset race: a participant that sees the eventual ready resets it at once and
 * waits for the next generation while the setter of the previous generation
 * may still be waking a long list of waiters.  The new wait must not return
 * before the next set has been issued, and must return after it. */
static struct {
    ABT_eventual ev;
    int entered, returned0;
    int gen1_started, set2_issued, ext_returned, ext_early;
    uint64_t ext_val;
} g_rr;
static int c_rr_scen, c_rr_waiters, c_rr_reset_during_wakeup;
static void rr_waiter_fn(void *arg)
{
    (void)arg;
    void *val = NULL;
    __atomic_fetch_add(&g_rr.entered, 1, __ATOMIC_SEQ_CST);
    VRT_ABT(ABT_eventual_wait(g_rr.ev, &val));
    __atomic_fetch_add(&g_rr.returned0, 1, __ATOMIC_SEQ_CST);
}
static void *rr_ext_main(void *arg)
{
    (void)arg;
    ABT_bool ready = ABT_FALSE;
    while (!ready)
        ABT_eventual_test(g_rr.ev, NULL, &ready);
    ABT_eventual_reset(g_rr.ev);
    if (__atomic_load_n(&g_rr.returned0, __ATOMIC_SEQ_CST) < __atomic_load_n(&g_rr.entered, __ATOMIC_SEQ_CST))
        vrt_count(c_rr_reset_during_wakeup, 1);
    void *val = NULL;
    __atomic_store_n(&g_rr.gen1_started, 1, __ATOMIC_SEQ_CST);
    ABT_eventual_wait(g_rr.ev, &val);
    if (!__atomic_load_n(&g_rr.set2_issued, __ATOMIC_SEQ_CST))
        __atomic_store_n(&g_rr.ext_early, 1, __ATOMIC_SEQ_CST);
    if (val)
        memcpy(&g_rr.ext_val, val, 8);
    __atomic_store_n(&g_rr.ext_returned, 1, __ATOMIC_SEQ_CST);
    return NULL;
}
static void run_reset_race(vrt_rng *r, int nmax)
{
    memset(&g_rr, 0, sizeof(g_rr));
    VRT_ABT(ABT_init(0, NULL));
    VRT_ABT(ABT_eventual_create(8, &g_rr.ev));
    int n = nmax / 4 + (int)vrt_range(r, (uint64_t)(nmax - nmax / 4));
    ABT_xstream xs;
    ABT_pool pool;
    VRT_ABT(ABT_xstream_create(ABT_SCHED_NULL, &xs));
    VRT_ABT(ABT_xstream_get_main_pools(xs, 1, &pool));
    ABT_thread *th = (ABT_thread *)malloc(sizeof(ABT_thread) * (size_t)n);
    for (int i = 0; i < n; i++)
        VRT_ABT(ABT_thread_create(pool, rr_waiter_fn, NULL, ABT_THREAD_ATTR_NULL, &th[i]));
    /* all waiters blocked */
    for (;;) {
        size_t sz = 1;
        VRT_ABT(ABT_pool_get_size(pool, &sz));
        if (__atomic_load_n(&g_rr.entered, __ATOMIC_SEQ_CST) == n && sz == 0)
            break;
        ABT_thread_yield();
    }
    pthread_t pt;
    if (pthread_create(&pt, NULL, rr_ext_main, NULL))
        vrt_fatal("pthread_create");
    vrt_sleep_us(200 + (unsigned)vrt_range(r, 2000));
    uint64_t a = 0xA1A1A1A1A1A1A1A1ull, b = 0xB2B2B2B2B2B2B2B2ull;
    VRT_ABT(ABT_eventual_set(g_rr.ev, &a, 8));
    vrt_call_begin("reset + wait for the next generation by an external thread that saw the eventual ready");
    while (!__atomic_load_n(&g_rr.gen1_started, __ATOMIC_SEQ_CST))
        ABT_thread_yield();
    vrt_call_end();
    /* grace: the new waiter goes to sleep (or, if broken, returns early) */
    vrt_sleep_us(1000 + (unsigned)vrt_range(r, 4000));
    __atomic_store_n(&g_rr.set2_issued, 1, __ATOMIC_SEQ_CST);
    int rc2 = ABT_eventual_set(g_rr.ev, &b, 8);
    vrt_call_begin("ABT_eventual_wait started after ABT_eventual_reset, the next ABT_eventual_set has returned");
    pthread_join(pt, NULL);
    vrt_call_end();
    VRT_CHECK(!g_rr.ext_early, "eventual:wait-returned-before-set", "ABT_eventual_wait called after ABT_eventual_reset returned "
              "although no ABT_eventual_set had been issued since the reset (%d waiters of the previous generation, %d of them "
              "back at that time)", n, g_rr.returned0);
    VRT_CHECK(rc2 == ABT_SUCCESS, "eventual:set-after-reset-rejected", "the set after the reset returned %d", rc2);
    if (vrt_num_violations() == 0 && !g_rr.ext_early)
        VRT_CHECK(g_rr.ext_val == b, "eventual:wrong-value", "the waiter of the second generation read %llx",
                  (unsigned long long)g_rr.ext_val);
    vrt_call_begin("join of the waiters of the first generation after its set returned");
    for (int i = 0; i < n; i++)
        VRT_ABT(ABT_thread_free(&th[i]));
    vrt_call_end();
    VRT_CHECK(g_rr.returned0 == n, "eventual:waiter-not-woken", "%d of %d waiters returned", g_rr.returned0, n);
    free(th);
    VRT_ABT(ABT_xstream_join(xs));
    VRT_ABT(ABT_xstream_free(&xs));
    VRT_ABT(ABT_eventual_free(&g_rr.ev));
    VRT_ABT(ABT_finalize());
    vrt_count(c_rr_scen, 1);
    vrt_count(c_rr_waiters, (uint64_t)n);
}

int main(int argc, char **argv)
{
    vrt_init(argc, argv, "h_evfut");
    int scen = (int)vrt_arg_int("scenarios", 6);
    int epochs = (int)vrt_arg_int("epochs", 40);
    int max_es = (int)vrt_arg_int("max-es", 4);
    c_cases = vrt_counter("cases");
    c_epochs = vrt_counter("epochs");
    c_ev_epochs = vrt_counter("eventual_epochs");
    c_fu_epochs = vrt_counter("future_epochs");
    c_sets_ok = vrt_counter("sets_ok");
    c_sets_rejected = vrt_counter("sets_rejected");
    c_waits = vrt_counter("waits_returned");
    c_wait_before_set = vrt_counter("waits_started_before_set");
    c_wait_after_set = vrt_counter("waits_started_after_set");
    c_tests_ready = vrt_counter("tests_ready");
    c_tests_notready = vrt_counter("tests_not_ready");
    c_task_wait_rejected = vrt_counter("tasklet_wait_rejected");
    c_cb = vrt_counter("callbacks");
    c_nbytes0 = vrt_counter("eventual_nbytes0_epochs");
    c_ncomp0 = vrt_counter("future_0_compartments_epochs");
    c_rr_scen = vrt_counter("reset_race_scenarios");
    c_rr_waiters = vrt_counter("reset_race_waiters");
    c_rr_reset_during_wakeup = vrt_counter("resets_issued_before_all_previous_waiters_were_back");
    vrt_supervisor_start();
    vrt_rng r;
    vrt_rng_init(&r, vrt_seed, 13);
    {
        int rr = (int)vrt_arg_int("reset-races", 3);
        int rrn = (int)(vrt_arg_int("reset-waiters", 1200) / (vrt_san_scale > 1.5 ? 6 : 1));
        for (int i = 0; i < rr && vrt_num_violations() == 0; i++)
            run_reset_race(&r, rrn < 8 ? 8 : rrn);
    }
    static const int nbytes_opts[] = { 0, 1, 8, 4096, 8, 100 };
    static const int ncomp_opts[] = { 0, 1, 2, 7, 64, 3 };
    for (int s = 0; s < scen && vrt_num_violations() == 0; s++) {
        int nes, shared, pk, sp;
        world_random_config(&r, max_es, &nes, &shared, &pk, &sp);
        VRT_ABT(ABT_init(0, NULL));
        world_t w;
        world_create(&w, nes, shared, pk, sp);
        static ectx_t c;
        memset(&c, 0, sizeof(c));
        c.is_future = (int)vrt_range(&r, 2);
        char wd[128];
        world_describe(&w, wd, sizeof(wd));
        if (!c.is_future) {
            c.nbytes = nbytes_opts[vrt_range(&r, 6)];
            VRT_ABT(ABT_eventual_create(c.nbytes, &c.ev));
        } else {
            c.ncomp = ncomp_opts[vrt_range(&r, 6)];
            c.has_cb = (int)vrt_range(&r, 3) != 0;
            VRT_ABT(ABT_future_create((uint32_t)c.ncomp, c.has_cb ? future_cb : NULL,
                                      &c.fu));
        }
        int ne = 1 + (int)vrt_range(&r, (uint64_t)epochs);
        for (int e = 0; e < ne && vrt_num_violations() == 0; e++) {
            if (e > 0) {
                if (!c.is_future) {
                    VRT_ABT(ABT_eventual_reset(c.ev));
                    ABT_bool ready = ABT_TRUE;
                    VRT_ABT(ABT_eventual_test(c.ev, NULL, &ready));
                    VRT_CHECK(ready == ABT_FALSE, "eventual:ready-after-reset",
                              "test says ready right after reset");
                } else {
                    VRT_ABT(ABT_future_reset(c.fu));
                    ABT_bool ready = ABT_TRUE;
                    VRT_ABT(ABT_future_test(c.fu, &ready));
                    VRT_CHECK((ready == ABT_FALSE) == (c.ncomp > 0),
                              "future:ready-after-reset",
                              "test says ready=%d right after reset (ncomp=%d)",
                              (int)ready, c.ncomp);
                }
            }
            run_epoch(&w, &c, &r, vrt_hash64(vrt_seed * 977 + (uint64_t)s * 131 + (uint64_t)e));
            if (!c.is_future && c.nbytes == 0)
                vrt_count(c_nbytes0, 1);
            if (c.is_future && c.ncomp == 0)
                vrt_count(c_ncomp0, 1);
        }
        if (s < 3)
            vrt_sample("scenario %d: %s %s epochs=%d last epoch: setters=%d x%d "
                       "waiters=%d testers=%d delay=%s",
                       s, wd,
                       c.is_future ? (c.has_cb ? "future+callback" : "future")
                                   : "eventual",
                       ne, c.nsetters, c.sets_per_setter, c.nwaiters, c.ntesters,
                       vrt_delay_profile_name());
        vrt_signature_add("%s,%s%d,cb%d", wd, c.is_future ? "F" : "E",
                          c.is_future ? c.ncomp : c.nbytes, c.has_cb);
        if (!c.is_future)
            VRT_ABT(ABT_eventual_free(&c.ev));
        else
            VRT_ABT(ABT_future_free(&c.fu));
        world_destroy(&w);
        VRT_ABT(ABT_finalize());
        vrt_count(c_cases, 1);
    }
    return vrt_finish("evfut_epochs");
}
