/* Virtual CLOCK_REALTIME for the statically linked library: the executable's
 * own clock_gettime() takes precedence over libc's, so ABTI_get_wtime() (and
 * every other clock_gettime(CLOCK_REALTIME) caller in libabt.a) reads it.
 * glibc-internal users (pthread_cond_timedwait) are not affected. */
#ifndef VCLOCK_H
#define VCLOCK_H
#include <stdint.h>
#include <time.h>
enum { VCLOCK_REAL = 0, VCLOCK_MANUAL = 1, VCLOCK_OFFSET = 2 };
void vclock_set_mode(int mode);
void vclock_set_ns(int64_t ns);          /* manual mode: absolute value */
int64_t vclock_advance_ns(int64_t delta); /* manual: add; returns new value */
void vclock_set_offset_ns(int64_t off);   /* offset mode: real + off */
int64_t vclock_now_ns(void);              /* what the library would read */
static inline struct timespec vclock_ts(int64_t ns)
{
    struct timespec ts = { (time_t)(ns / 1000000000LL), (long)(ns % 1000000000LL) };
    return ts;
}
#endif
