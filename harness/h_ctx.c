/* C02: a ULT never runs on two streams at once; its context survives every
 * switch.
 *
 * Workers (ULTs) on 1-4 streams sharing 1-2 pools perform random switch
 * operations: yield, yield_to, thread_yield_to, create_to, revive_to, suspend
 * (resumed by other workers or the primary ULT), suspend_to, resume_yield_to,
 * resume_suspend_to, exit_to, resume_exit_to, join of a child (hand-off), a
 * contended mutex, replacement of the stream's main scheduler.  Every switch
 * call goes through vctx_canary_call (assembly), which keeps canaries in all
 * callee-saved registers across the call; per-ULT MXCSR / x87 control words,
 * stack patterns at several depths, a heap step counter and a running-on flag
 * are checked after every resume.  Stacks come from the memory pool, from
 * malloc (non-default size) or from the user (8-byte aligned address, odd
 * sizes, guard zones around them).  The library-side occupancy monitor
 * (abtd_verif_fiber.h) reports a stream that switches to a context which is
 * still running or not completely saved. */
#define _GNU_SOURCE
#include "world.h"
#include <sched.h>
#include <pthread.h>
#include <alloca.h>

/* ---------- callee-saved register canaries ---------- */
typedef struct {
    uint64_t vals[6]; /* rbx rbp r12 r13 r14 r15 */
    uint64_t use_rbp;
    uint64_t mask;
    uint64_t args[6];
} canary_ctl;
/* calls fn(args[0..5]) with the canaries loaded; sets mask for every register
 * that does not hold its canary when fn returns */
long vctx_canary_call(void *fn, canary_ctl *ctl);
__asm__(".text\n"
        ".globl vctx_canary_call\n"
        ".type vctx_canary_call,@function\n"
        ".align 16\n"
        "vctx_canary_call:\n"
        "    pushq %rbp\n"
        "    pushq %rbx\n"
        "    pushq %r12\n"
        "    pushq %r13\n"
        "    pushq %r14\n"
        "    pushq %r15\n"
        "    subq $24, %rsp\n"
        "    movq %rsi, 0(%rsp)\n"
        "    movq %rdi, %rax\n"
        "    movq %rsi, %r11\n"
        "    movq 0(%r11), %rbx\n"
        "    movq 16(%r11), %r12\n"
        "    movq 24(%r11), %r13\n"
        "    movq 32(%r11), %r14\n"
        "    movq 40(%r11), %r15\n"
        "    cmpq $0, 48(%r11)\n"
        "    je 1f\n"
        "    movq 8(%r11), %rbp\n"
        "1:\n"
        "    movq 64(%r11), %rdi\n"
        "    movq 72(%r11), %rsi\n"
        "    movq 80(%r11), %rdx\n"
        "    movq 88(%r11), %rcx\n"
        "    movq 96(%r11), %r8\n"
        "    movq 104(%r11), %r9\n"
        "    callq *%rax\n"
        "    movq 0(%rsp), %r9\n"
        "    xorl %ecx, %ecx\n"
        "    cmpq 0(%r9), %rbx\n"
        "    je 2f\n"
        "    orl $1, %ecx\n"
        "2:\n"
        "    cmpq 16(%r9), %r12\n"
        "    je 3f\n"
        "    orl $4, %ecx\n"
        "3:\n"
        "    cmpq 24(%r9), %r13\n"
        "    je 4f\n"
        "    orl $8, %ecx\n"
        "4:\n"
        "    cmpq 32(%r9), %r14\n"
        "    je 5f\n"
        "    orl $16, %ecx\n"
        "5:\n"
        "    cmpq 40(%r9), %r15\n"
        "    je 6f\n"
        "    orl $32, %ecx\n"
        "6:\n"
        "    cmpq $0, 48(%r9)\n"
        "    je 7f\n"
        "    cmpq 8(%r9), %rbp\n"
        "    je 7f\n"
        "    orl $2, %ecx\n"
        "7:\n"
        "    movq %rcx, 56(%r9)\n"
        "    addq $24, %rsp\n"
        "    popq %r15\n"
        "    popq %r14\n"
        "    popq %r13\n"
        "    popq %r12\n"
        "    popq %rbx\n"
        "    popq %rbp\n"
        "    ret\n"
        ".size vctx_canary_call,.-vctx_canary_call\n");

static inline void fp_set(uint32_t mxcsr, uint16_t cw)
{
    __asm__ volatile("ldmxcsr %0" ::"m"(mxcsr));
    __asm__ volatile("fldcw %0" ::"m"(cw));
}
static inline void fp_get(uint32_t *mxcsr, uint16_t *cw)
{
    __asm__ volatile("stmxcsr %0" : "=m"(*mxcsr));
    __asm__ volatile("fnstcw %0" : "=m"(*cw));
}
#define FP_MXCSR_DEFAULT 0x1f80u
#define FP_CW_DEFAULT 0x037f

/* ---------- workers ---------- */
enum { ST_FREE = 0, ST_READY, ST_CLAIMED, ST_RUNNING, ST_INSYNC, ST_BLOCKED, ST_BLOCKED_CLAIMED, ST_TERM, ST_TERM_CLAIMED };
enum { SK_MEMPOOL = 0, SK_MALLOC, SK_USER, SK_NKINDS };
static const char *sk_name[] = { "mempool", "malloc", "user" };
#define MAXW 64
#define UGUARD 512

typedef struct cw {
    int id;
    int used; /* atomic */
    int st;   /* atomic */
    int is_child;
    int pool;
    int lives;
    int started;           /* atomic: its function runs (reset when it ends) */
    ABT_thread th;         /* obtained by the worker itself */
    ABT_thread th_created; /* written by the creating call; never read concurrently */
    /* stack */
    int sk;
    char *ubuf; /* user stack allocation incl. guard zones */
    size_t ubuf_size;
    char *uaddr;
    size_t usize;
    char *range_lo, *range_hi; /* live stack range, valid while registered */
    int range_live;
    /* guard */
    int running_on; /* atomic, -1 = not running */
    uint64_t step;  /* atomic */
    uint32_t mxcsr;
    uint16_t cw;
    canary_ctl ctl;
    vrt_rng rng;
    int child_yields;
} cw_t;

static cw_t g_w[MAXW];
static pthread_spinlock_t g_range_lock;
static ABT_pool g_pools[2];
static int g_npools, g_nes, g_single;
static ABT_mutex g_mtx;
static long g_budget;     /* atomic */
static int g_active;      /* atomic: workers whose function has not finished */
static int g_allow_sched; /* scheduler replacement allowed in this scenario */
static size_t g_default_stack;
static int g_sched_kind_repl;

enum { OP_YIELD = 0, OP_YIELD_TO, OP_THREAD_YIELD_TO, OP_CREATE_TO, OP_REVIVE_TO, OP_SUSPEND, OP_SUSPEND_TO, OP_RESUME,
       OP_RESUME_YIELD_TO, OP_RESUME_SUSPEND_TO, OP_EXIT_TO, OP_RESUME_EXIT_TO, OP_JOIN_CHILD, OP_MUTEX, OP_SET_MAIN_SCHED,
       OP_CREATE, OP_NOPS };
static const char *op_name[] = { "yield", "yield_to", "thread_yield_to", "create_to", "revive_to", "self_suspend", "suspend_to",
                                 "resume", "resume_yield_to", "resume_suspend_to", "exit_to", "resume_exit_to", "join_child",
                                 "mutex", "set_main_sched", "create" };
static int c_ops[OP_NOPS], c_cases, c_switch_checks, c_resumed_other_es, c_resumed_same_es, c_stack[SK_NKINDS], c_entries,
    c_fresh_target, c_started_target, c_rescues, c_user_unaligned_top, c_depths[4];

static void fp_default(void)
{
    fp_set(FP_MXCSR_DEFAULT, FP_CW_DEFAULT);
}
#define CTXV(key, ...)                                                                                                 \
    do {                                                                                                               \
        fp_default();                                                                                                  \
        vrt_violation(key, __VA_ARGS__);                                                                               \
    } while (0)

static int my_rank(void)
{
    int rank = -1;
    ABT_self_get_xstream_rank(&rank);
    return rank;
}

/* ---- the guarded switch: every call that may switch contexts goes through
 * here, at a random extra stack depth ---- */
typedef struct {
    cw_t *me;
    void *fn;
    long a[5];
    int op;
} gcall_t;

static __attribute__((noinline)) int guarded_call(gcall_t *g)
{
    cw_t *me = g->me;
    volatile uint64_t pat[20];
    uint64_t my_step = __atomic_add_fetch(&me->step, 1, __ATOMIC_SEQ_CST);
    for (int i = 0; i < 20; i++)
        pat[i] = vrt_hash64(my_step * 131 + (uint64_t)me->id * 7919 + (uint64_t)i);
    int rank_before = my_rank();
    fp_set(me->mxcsr, me->cw);
    int was = __atomic_exchange_n(&me->running_on, -1, __ATOMIC_SEQ_CST);
    if (was != rank_before)
        CTXV("ctx:running-flag", "worker %d: running flag says stream %d, but it runs on stream %d before %s", me->id, was,
             rank_before, op_name[g->op]);
    me->ctl.mask = 0;
    for (int i = 0; i < 5; i++)
        me->ctl.args[i] = (uint64_t)g->a[i];
    me->ctl.args[5] = 0;
    long rc = vctx_canary_call(g->fn, &me->ctl);
    /* ---- resumed ---- */
    uint32_t m;
    uint16_t c;
    fp_get(&m, &c);
    int rank_after = my_rank();
    int prev = __atomic_exchange_n(&me->running_on, rank_after, __ATOMIC_SEQ_CST);
    if (prev != -1)
        CTXV("ctx:runs-on-two-streams", "worker %d resumed on stream %d after %s while it is still marked running on stream %d",
             me->id, rank_after, op_name[g->op], prev);
    if (__atomic_load_n(&me->step, __ATOMIC_SEQ_CST) != my_step)
        CTXV("ctx:stale-resume", "worker %d resumed after %s at switch #%llu, but its latest switch is #%llu", me->id,
             op_name[g->op], (unsigned long long)my_step, (unsigned long long)me->step);
    {
        ABT_thread_state own = ABT_THREAD_STATE_RUNNING;
        if (me->th != ABT_THREAD_NULL && ABT_thread_get_state(me->th, &own) == ABT_SUCCESS && own != ABT_THREAD_STATE_RUNNING)
            CTXV("ctx:running-unit-state", "worker %d runs after %s, but ABT_thread_get_state reports %d for it", me->id,
                 op_name[g->op], (int)own);
    }
    if (me->ctl.mask)
        CTXV("ctx:callee-saved-register", "worker %d after %s: callee-saved registers changed (mask 0x%llx: 1=rbx 2=rbp 4=r12 "
             "8=r13 16=r14 32=r15)", me->id, op_name[g->op], (unsigned long long)me->ctl.mask);
    if ((m & 0xffc0u) != (me->mxcsr & 0xffc0u))
        CTXV("ctx:mxcsr", "worker %d after %s: MXCSR control bits 0x%x, it left with 0x%x", me->id, op_name[g->op], m & 0xffc0u,
             me->mxcsr & 0xffc0u);
    if (c != me->cw)
        CTXV("ctx:x87-control-word", "worker %d after %s: x87 control word 0x%x, it left with 0x%x", me->id, op_name[g->op], c,
             me->cw);
    for (int i = 0; i < 20; i++)
        if (pat[i] != vrt_hash64(my_step * 131 + (uint64_t)me->id * 7919 + (uint64_t)i)) {
            CTXV("ctx:stack-contents", "worker %d after %s: stack word %d of the switching frame changed", me->id,
                 op_name[g->op], i);
            break;
        }
    vrt_count(c_switch_checks, 1);
    if (rank_after != rank_before)
        vrt_count(c_resumed_other_es, 1);
    else
        vrt_count(c_resumed_same_es, 1);
    return (int)rc;
}
static __attribute__((noinline)) int guarded_deeper(gcall_t *g, int depth)
{
    /* a frame with its own pattern, so that consecutive switches of one ULT
     * happen at different stack depths */
    volatile uint64_t pad[11];
    for (int i = 0; i < 11; i++)
        pad[i] = vrt_hash64((uint64_t)depth * 977 + (uint64_t)i + (uint64_t)(uintptr_t)g->me);
    int rc = depth > 0 ? guarded_deeper(g, depth - 1) : guarded_call(g);
    for (int i = 0; i < 11; i++)
        if (pad[i] != vrt_hash64((uint64_t)depth * 977 + (uint64_t)i + (uint64_t)(uintptr_t)g->me)) {
            CTXV("ctx:stack-contents", "worker %d: stack word of an outer frame (depth %d) changed across %s", g->me->id, depth,
                 op_name[g->op]);
            break;
        }
    return rc;
}
#define sw(me, op, fn, a0, a1, a2, a3) sw5(me, op, fn, a0, a1, a2, a3, 0)
static int sw5(cw_t *me, int op, void *fn, long a0, long a1, long a2, long a3, long a4)
{
    gcall_t g = { me, fn, { a0, a1, a2, a3, a4 }, op };
    int depth = (int)vrt_range(&me->rng, 4);
    vrt_count(c_depths[depth], 1);
    vrt_count(c_ops[op], 1);
    int rc = guarded_deeper(&g, depth);
    if (rc != ABT_SUCCESS)
        CTXV("ctx:call-failed", "worker %d: %s returned %d", me->id, op_name[op], rc);
    return rc;
}

/* ---- stack provenance ---- */
static void range_register(cw_t *me, char *local)
{
    ABT_thread_attr attr;
    void *addr = NULL;
    size_t size = 0;
    VRT_ABT(ABT_thread_get_attr(me->th, &attr));
    VRT_ABT(ABT_thread_attr_get_stack(attr, &addr, &size));
    VRT_ABT(ABT_thread_attr_free(&attr));
    if (me->sk == SK_USER && (addr != (void *)me->uaddr || size != me->usize))
        CTXV("ctx:user-stack-attr", "worker %d: attr reports stack %p+%zu, the user gave %p+%zu", me->id, addr, size,
             (void *)me->uaddr, me->usize);
    if (!(local >= (char *)addr && local < (char *)addr + size))
        CTXV("ctx:stack-range", "worker %d (%s stack): a local variable at %p is outside its stack %p+%zu", me->id,
             sk_name[me->sk], (void *)local, addr, size);
    pthread_spin_lock(&g_range_lock);
    for (int i = 0; i < MAXW; i++) {
        cw_t *o = &g_w[i];
        if (o != me && o->range_live && (char *)addr < o->range_hi && o->range_lo < (char *)addr + size) {
            pthread_spin_unlock(&g_range_lock);
            CTXV("ctx:shared-stack", "worker %d's stack %p+%zu overlaps the stack of live worker %d (%p..%p)", me->id, addr,
                 size, o->id, (void *)o->range_lo, (void *)o->range_hi);
            pthread_spin_lock(&g_range_lock);
        }
    }
    me->range_lo = (char *)addr;
    me->range_hi = (char *)addr + size;
    me->range_live = 1;
    pthread_spin_unlock(&g_range_lock);
}
static void range_unregister(cw_t *me)
{
    pthread_spin_lock(&g_range_lock);
    me->range_live = 0;
    pthread_spin_unlock(&g_range_lock);
}
static void guard_fill(cw_t *w)
{
    for (size_t i = 0; i < w->ubuf_size; i++)
        w->ubuf[i] = (char)(0xa5 ^ (i * 7));
}
static void guard_check(cw_t *w)
{
    /* everything outside [uaddr, uaddr+usize) must be untouched */
    for (size_t i = 0; i < w->ubuf_size; i++) {
        char *p = w->ubuf + i;
        if (p >= w->uaddr && p < w->uaddr + w->usize)
            continue;
        if (*p != (char)(0xa5 ^ (i * 7))) {
            CTXV("ctx:user-stack-overrun", "worker %d: byte at offset %ld relative to the %s of its user-supplied stack "
                 "(%p+%zu) was overwritten", w->id, p < w->uaddr ? (long)(p - w->uaddr) : (long)(p - (w->uaddr + w->usize)),
                 p < w->uaddr ? "start" : "end", (void *)w->uaddr, w->usize);
            return;
        }
    }
}

static void worker_fn(void *arg);

/* prepare a worker slot (attr describes the stack provenance) */
static cw_t *slot_new(vrt_rng *r, ABT_thread_attr *p_attr)
{
    for (int i = 0; i < MAXW; i++) {
        int exp = 0;
        cw_t *w = &g_w[i];
        if (__atomic_load_n(&w->used, __ATOMIC_SEQ_CST) == 0 &&
            __atomic_compare_exchange_n(&w->used, &exp, 1, 0, __ATOMIC_SEQ_CST, __ATOMIC_SEQ_CST)) {
            w->id = i;
            w->is_child = 0;
            w->lives = 0;
            w->th = ABT_THREAD_NULL;
            w->pool = (int)vrt_range(r, (uint64_t)g_npools);
            w->running_on = -1;
            w->step = 0;
            w->rng.s = vrt_next(r);
            unsigned rc = (unsigned)vrt_range(r, 4), ftz = (unsigned)vrt_range(r, 2), daz = (unsigned)vrt_range(r, 2);
            w->mxcsr = FP_MXCSR_DEFAULT | (rc << 13) | (ftz << 15) | (daz << 6);
            static const unsigned pcs[] = { 0, 2, 3 };
            w->cw = (uint16_t)(0x007f | (pcs[vrt_range(r, 3)] << 8) | ((unsigned)vrt_range(r, 4) << 10));
            for (int k = 0; k < 6; k++)
                w->ctl.vals[k] = vrt_next(r) | 1;
#if defined(VERIF_VARIANT_ASAN)
            w->ctl.use_rbp = 0; /* ASan's fast unwinder walks rbp */
#else
            w->ctl.use_rbp = 1;
#endif
            w->sk = (int)vrt_range(r, SK_NKINDS);
            w->ubuf = NULL;
            *p_attr = ABT_THREAD_ATTR_NULL;
            if (w->sk == SK_MALLOC) {
                VRT_ABT(ABT_thread_attr_create(p_attr));
                VRT_ABT(ABT_thread_attr_set_stacksize(*p_attr, g_default_stack + 8 * (size_t)(1 + vrt_range(r, 2000))));
            } else if (w->sk == SK_USER) {
                size_t size = g_default_stack + 8 * (size_t)vrt_range(r, 512);
                size_t off = 8 * (size_t)vrt_range(r, 8);
                w->ubuf_size = size + 2 * UGUARD + 64;
                w->ubuf = (char *)aligned_alloc(64, (w->ubuf_size + 63) & ~(size_t)63);
                w->uaddr = w->ubuf + UGUARD + off;
                w->usize = size;
                guard_fill(w);
                if (((uintptr_t)(w->uaddr + w->usize) & 15) != 0)
                    vrt_count(c_user_unaligned_top, 1);
                VRT_ABT(ABT_thread_attr_create(p_attr));
                VRT_ABT(ABT_thread_attr_set_stack(*p_attr, w->uaddr, w->usize));
            }
            vrt_count(c_stack[w->sk], 1);
            __atomic_store_n(&w->st, ST_READY, __ATOMIC_SEQ_CST);
            __atomic_fetch_add(&g_active, 1, __ATOMIC_SEQ_CST);
            return w;
        }
    }
    return NULL;
}

static cw_t *claim(int from, int to, cw_t *not_me, vrt_rng *r)
{
    int start = (int)vrt_range(r, MAXW);
    for (int k = 0; k < MAXW; k++) {
        cw_t *w = &g_w[(start + k) % MAXW];
        int exp = from;
        if (w != not_me && __atomic_load_n(&w->used, __ATOMIC_SEQ_CST) &&
            __atomic_load_n(&w->st, __ATOMIC_SEQ_CST) == from &&
            __atomic_compare_exchange_n(&w->st, &exp, to, 0, __ATOMIC_SEQ_CST, __ATOMIC_SEQ_CST))
            return w;
    }
    return NULL;
}
/* a claimed blocked worker: wait until its suspension is complete (the runtime
 * publishes BLOCKED only after the context was saved) */
static void wait_blocked(cw_t *t)
{
    for (;;) {
        ABT_thread_state st;
        VRT_ABT(ABT_thread_get_state(t->th, &st));
        if (st == ABT_THREAD_STATE_BLOCKED)
            return;
        sched_yield();
    }
}
/* the resumed worker is in its pool now; it may already be running again */
static void mark_resumed(cw_t *t)
{
    int exp = ST_BLOCKED_CLAIMED;
    __atomic_compare_exchange_n(&t->st, &exp, ST_READY, 0, __ATOMIC_SEQ_CST, __ATOMIC_SEQ_CST);
}
static cw_t *pop_ready(cw_t *me)
{
    for (int k = 0; k < g_npools; k++) {
        int p = (int)((vrt_range(&me->rng, 2) + (uint64_t)k) % (uint64_t)g_npools);
        ABT_thread th = ABT_THREAD_NULL;
        ABT_pool_pop_thread(g_pools[p], &th);
        if (th == ABT_THREAD_NULL)
            continue;
        cw_t *t = NULL;
        VRT_ABT(ABT_thread_get_arg(th, (void **)&t));
        /* a fresh worker has not stored its own handle yet */
        if (t->th == ABT_THREAD_NULL)
            t->th = th;
        else if (t->th != th)
            CTXV("ctx:popped-handle", "popped handle %p is not the one worker %d obtained for itself (%p; created %p, started %d, "
                 "child %d, step %llu)", (void *)th, t->id, (void *)t->th, (void *)t->th_created, t->started, t->is_child,
                 (unsigned long long)t->step);
        vrt_count(__atomic_load_n(&t->started, __ATOMIC_SEQ_CST) ? c_started_target : c_fresh_target, 1);
        __atomic_store_n(&t->st, ST_CLAIMED, __ATOMIC_SEQ_CST);
        return t;
    }
    return NULL;
}

static void worker_enter(cw_t *me, char *local)
{
    VRT_ABT(ABT_self_get_thread(&me->th));
    int rank = my_rank();
    int prev = __atomic_exchange_n(&me->running_on, rank, __ATOMIC_SEQ_CST);
    if (prev != -1)
        CTXV("ctx:runs-on-two-streams", "worker %d starts on stream %d while it is marked running on stream %d", me->id, rank, prev);
    if (((uintptr_t)__builtin_frame_address(0) & 15) != 0 || ((uintptr_t)local & 15) != 0)
        CTXV("ctx:stack-alignment", "worker %d (%s stack): frame %p / 16-byte aligned local %p are not 16-byte aligned", me->id,
             sk_name[me->sk], __builtin_frame_address(0), (void *)local);
    range_register(me, local);
    __atomic_store_n(&me->st, ST_RUNNING, __ATOMIC_SEQ_CST);
    me->lives++;
    __atomic_store_n(&me->started, 1, __ATOMIC_SEQ_CST);
    fp_set(me->mxcsr, me->cw);
    vrt_count(c_entries, 1);
}
static void worker_leave(cw_t *me)
{
    range_unregister(me);
    fp_default();
    __atomic_store_n(&me->started, 0, __ATOMIC_SEQ_CST);
    __atomic_store_n(&me->running_on, -1, __ATOMIC_SEQ_CST);
    __atomic_store_n(&me->st, ST_TERM, __ATOMIC_SEQ_CST);
    __atomic_fetch_sub(&g_active, 1, __ATOMIC_SEQ_CST);
}

static void child_fn(void *arg)
{
    cw_t *me = (cw_t *)arg;
    __attribute__((aligned(16))) volatile char local[16];
    local[0] = 0;
    VRT_ABT(ABT_self_get_thread(&me->th));
    int rank = my_rank();
    __atomic_store_n(&me->started, 1, __ATOMIC_SEQ_CST);
    __atomic_store_n(&me->running_on, rank, __ATOMIC_SEQ_CST);
    if (((uintptr_t)local & 15) != 0)
        CTXV("ctx:stack-alignment", "child ULT: 16-byte aligned local at %p", (void *)local);
    fp_set(me->mxcsr, me->cw);
    for (int i = 0; i < me->child_yields && vrt_num_violations() == 0; i++)
        sw(me, OP_YIELD, (void *)ABT_thread_yield, 0, 0, 0, 0);
    fp_default();
    __atomic_store_n(&me->running_on, -1, __ATOMIC_SEQ_CST);
}

static void finish_by_exit_to(cw_t *me, cw_t *t, int resume_variant)
{
    vrt_count(c_ops[resume_variant ? OP_RESUME_EXIT_TO : OP_EXIT_TO], 1);
    worker_leave(me);
    if (resume_variant)
        ABT_self_resume_exit_to(t->th);
    else
        ABT_self_exit_to(t->th);
    vrt_violation("ctx:ran-after-exit-to", "worker %d continued after exit_to", me->id);
}

static void worker_fn(void *arg)
{
    cw_t *me = (cw_t *)arg;
    __attribute__((aligned(16))) volatile uint8_t big[400];
    worker_enter(me, (char *)big);
    for (int i = 0; i < 400; i++)
        big[i] = (uint8_t)vrt_hash64((uint64_t)me->id * 31 + (uint64_t)i + (uint64_t)me->lives);
    while (vrt_num_violations() == 0) {
        if (__atomic_fetch_sub(&g_budget, 1, __ATOMIC_SEQ_CST) <= 0)
            break;
        int op = (int)vrt_range(&me->rng, OP_NOPS);
        cw_t *t;
        ABT_thread_attr attr;
        switch (op) {
            case OP_YIELD:
                __atomic_store_n(&me->st, ST_READY, __ATOMIC_SEQ_CST);
                sw(me, op, (void *)ABT_thread_yield, 0, 0, 0, 0);
                __atomic_store_n(&me->st, ST_RUNNING, __ATOMIC_SEQ_CST);
                break;
            case OP_YIELD_TO:
            case OP_SUSPEND_TO:
            case OP_EXIT_TO:
                t = pop_ready(me);
                if (!t)
                    break;
                if (op == OP_YIELD_TO) {
                    __atomic_store_n(&me->st, ST_READY, __ATOMIC_SEQ_CST);
                    sw(me, op, (void *)ABT_self_yield_to, (long)t->th, 0, 0, 0);
                } else if (op == OP_SUSPEND_TO) {
                    __atomic_store_n(&me->st, ST_BLOCKED, __ATOMIC_SEQ_CST);
                    sw(me, op, (void *)ABT_self_suspend_to, (long)t->th, 0, 0, 0);
                } else if (__atomic_load_n(&g_active, __ATOMIC_SEQ_CST) > 3) {
                    for (int i = 0; i < 400; i++)
                        if (big[i] != (uint8_t)vrt_hash64((uint64_t)me->id * 31 + (uint64_t)i + (uint64_t)me->lives))
                            CTXV("ctx:stack-contents", "worker %d: a byte of its outermost frame changed", me->id);
                    finish_by_exit_to(me, t, 0);
                } else {
                    __atomic_store_n(&me->st, ST_READY, __ATOMIC_SEQ_CST);
                    sw(me, OP_YIELD_TO, (void *)ABT_self_yield_to, (long)t->th, 0, 0, 0);
                }
                __atomic_store_n(&me->st, ST_RUNNING, __ATOMIC_SEQ_CST);
                break;
            case OP_THREAD_YIELD_TO:
                /* the target must still be in its pool: only decidable when one
                 * stream serves the pools */
                if (!g_single)
                    break;
                t = claim(ST_READY, ST_CLAIMED, me, &me->rng);
                if (!t)
                    break;
                vrt_count(__atomic_load_n(&t->started, __ATOMIC_SEQ_CST) ? c_started_target : c_fresh_target, 1);
                __atomic_store_n(&me->st, ST_READY, __ATOMIC_SEQ_CST);
                sw(me, op, (void *)ABT_thread_yield_to, (long)(t->th != ABT_THREAD_NULL ? t->th : t->th_created), 0, 0, 0);
                __atomic_store_n(&me->st, ST_RUNNING, __ATOMIC_SEQ_CST);
                break;
            case OP_CREATE:
            case OP_CREATE_TO:
                if (__atomic_load_n(&g_active, __ATOMIC_SEQ_CST) > MAXW / 2)
                    break;
                t = slot_new(&me->rng, &attr);
                if (!t)
                    break;
                if (op == OP_CREATE) {
                    vrt_count(c_ops[op], 1);
                    VRT_ABT(ABT_thread_create(g_pools[t->pool], worker_fn, t, attr, &t->th_created));
                } else {
                    vrt_count(c_fresh_target, 1);
                    __atomic_store_n(&t->st, ST_CLAIMED, __ATOMIC_SEQ_CST);
                    __atomic_store_n(&me->st, ST_READY, __ATOMIC_SEQ_CST);
                    sw5(me, op, (void *)ABT_thread_create_to, (long)g_pools[t->pool], (long)worker_fn, (long)t, (long)attr,
                        (long)&t->th_created);
                    __atomic_store_n(&me->st, ST_RUNNING, __ATOMIC_SEQ_CST);
                }
                if (attr != ABT_THREAD_ATTR_NULL)
                    VRT_ABT(ABT_thread_attr_free(&attr));
                break;
            case OP_REVIVE_TO: {
                t = claim(ST_TERM, ST_TERM_CLAIMED, me, &me->rng);
                if (!t)
                    break;
                ABT_thread_state st;
                VRT_ABT(ABT_thread_get_state(t->th, &st));
                if (st != ABT_THREAD_STATE_TERMINATED || __atomic_load_n(&g_budget, __ATOMIC_SEQ_CST) <= 0) {
                    __atomic_store_n(&t->st, ST_TERM, __ATOMIC_SEQ_CST);
                    break;
                }
                vrt_count(c_fresh_target, 1);
                __atomic_fetch_add(&g_active, 1, __ATOMIC_SEQ_CST);
                __atomic_store_n(&t->st, ST_CLAIMED, __ATOMIC_SEQ_CST);
                __atomic_store_n(&me->st, ST_READY, __ATOMIC_SEQ_CST);
                sw(me, op, (void *)ABT_thread_revive_to, (long)g_pools[t->pool], (long)worker_fn, (long)t, (long)&t->th);
                __atomic_store_n(&me->st, ST_RUNNING, __ATOMIC_SEQ_CST);
                break;
            }
            case OP_SUSPEND:
                __atomic_store_n(&me->st, ST_BLOCKED, __ATOMIC_SEQ_CST);
                sw(me, op, (void *)ABT_self_suspend, 0, 0, 0, 0);
                __atomic_store_n(&me->st, ST_RUNNING, __ATOMIC_SEQ_CST);
                break;
            case OP_RESUME:
                t = claim(ST_BLOCKED, ST_BLOCKED_CLAIMED, me, &me->rng);
                if (!t)
                    break;
                wait_blocked(t);
                vrt_count(c_ops[op], 1);
                VRT_ABT(ABT_thread_resume(t->th));
                mark_resumed(t);
                break;
            case OP_RESUME_YIELD_TO:
            case OP_RESUME_SUSPEND_TO:
            case OP_RESUME_EXIT_TO:
                t = claim(ST_BLOCKED, ST_BLOCKED_CLAIMED, me, &me->rng);
                if (!t)
                    break;
                wait_blocked(t);
                vrt_count(c_started_target, 1);
                __atomic_store_n(&t->st, ST_CLAIMED, __ATOMIC_SEQ_CST);
                if (op == OP_RESUME_SUSPEND_TO) {
                    __atomic_store_n(&me->st, ST_BLOCKED, __ATOMIC_SEQ_CST);
                    sw(me, op, (void *)ABT_self_resume_suspend_to, (long)t->th, 0, 0, 0);
                } else if (op == OP_RESUME_EXIT_TO && __atomic_load_n(&g_active, __ATOMIC_SEQ_CST) > 3) {
                    finish_by_exit_to(me, t, 1);
                } else {
                    __atomic_store_n(&me->st, ST_READY, __ATOMIC_SEQ_CST);
                    sw(me, OP_RESUME_YIELD_TO, (void *)ABT_self_resume_yield_to, (long)t->th, 0, 0, 0);
                }
                __atomic_store_n(&me->st, ST_RUNNING, __ATOMIC_SEQ_CST);
                break;
            case OP_JOIN_CHILD: {
                cw_t *ch = (cw_t *)calloc(1, sizeof(cw_t));
                ch->id = 1000 + me->id;
                ch->is_child = 1;
                ch->th = ABT_THREAD_NULL;
                ch->running_on = -1;
                ch->rng.s = vrt_next(&me->rng);
                ch->mxcsr = FP_MXCSR_DEFAULT | ((unsigned)vrt_range(&me->rng, 4) << 13);
                ch->cw = (uint16_t)(0x037f | ((unsigned)vrt_range(&me->rng, 4) << 10));
                for (int k = 0; k < 6; k++)
                    ch->ctl.vals[k] = vrt_next(&me->rng) | 1;
                ch->ctl.use_rbp = me->ctl.use_rbp;
                ch->child_yields = (int)vrt_range(&me->rng, 4);
                ABT_thread cth;
                VRT_ABT(ABT_thread_create(g_pools[vrt_range(&me->rng, (uint64_t)g_npools)], child_fn, ch, ABT_THREAD_ATTR_NULL,
                                          &cth));
                __atomic_store_n(&me->st, ST_INSYNC, __ATOMIC_SEQ_CST);
                sw(me, op, (void *)ABT_thread_join, (long)cth, 0, 0, 0);
                __atomic_store_n(&me->st, ST_RUNNING, __ATOMIC_SEQ_CST);
                VRT_ABT(ABT_thread_free(&cth));
                free(ch);
                break;
            }
            case OP_MUTEX:
                __atomic_store_n(&me->st, ST_INSYNC, __ATOMIC_SEQ_CST);
                sw(me, op, (void *)ABT_mutex_lock, (long)g_mtx, 0, 0, 0);
                sw(me, OP_YIELD, (void *)ABT_thread_yield, 0, 0, 0, 0);
                VRT_ABT(ABT_mutex_unlock(g_mtx));
                __atomic_store_n(&me->st, ST_RUNNING, __ATOMIC_SEQ_CST);
                break;
            case OP_SET_MAIN_SCHED: {
                if (!g_allow_sched || vrt_range(&me->rng, 4))
                    break;
                ABT_xstream xs;
                VRT_ABT(ABT_self_get_xstream(&xs));
                __atomic_store_n(&me->st, ST_READY, __ATOMIC_SEQ_CST);
                sw(me, op, (void *)ABT_xstream_set_main_sched_basic, (long)xs, (long)g_sched_kind_repl, (long)g_npools,
                   (long)g_pools);
                __atomic_store_n(&me->st, ST_RUNNING, __ATOMIC_SEQ_CST);
                break;
            }
            default:
                break;
        }
    }
    for (int i = 0; i < 400; i++)
        if (big[i] != (uint8_t)vrt_hash64((uint64_t)me->id * 31 + (uint64_t)i + (uint64_t)me->lives)) {
            CTXV("ctx:stack-contents", "worker %d: byte %d of its outermost frame changed", me->id, i);
            break;
        }
    worker_leave(me);
}

static int c_many_probe;
static void probe_fn(void *arg)
{
    (void)arg;
}
static void run_scenario(vrt_rng *r, int idx, long ops)
{
    VRT_ABT(ABT_init(0, NULL));
    memset(g_w, 0, sizeof(g_w));
    static const int pk[] = { ABT_POOL_FIFO, ABT_POOL_FIFO_WAIT, ABT_POOL_RANDWS };
    static const int sp[] = { ABT_SCHED_BASIC, ABT_SCHED_PRIO, ABT_SCHED_DEFAULT, ABT_SCHED_BASIC_WAIT, ABT_SCHED_RANDWS };
    int kind = pk[vrt_range(r, 3)];
    int sched = sp[vrt_range(r, 5)];
    if (sched == ABT_SCHED_BASIC_WAIT)
        kind = ABT_POOL_FIFO_WAIT;
    g_npools = 1 + (int)vrt_range(r, 2);
    g_nes = 1 + (int)vrt_range(r, 4);
    g_single = g_nes == 1;
    g_allow_sched = (int)vrt_range(r, 2);
    static const int rep[] = { ABT_SCHED_BASIC, ABT_SCHED_PRIO, ABT_SCHED_RANDWS };
    g_sched_kind_repl = rep[vrt_range(r, 3)];
    g_budget = ops;
    g_active = 0;
    for (int i = 0; i < g_npools; i++)
        VRT_ABT(ABT_pool_create_basic((ABT_pool_kind)kind, ABT_POOL_ACCESS_MPMC, ABT_FALSE, &g_pools[i]));
    VRT_ABT(ABT_mutex_create(&g_mtx));
    int n0 = 3 + (int)vrt_range(r, 12);
    for (int i = 0; i < n0; i++) {
        ABT_thread_attr attr;
        cw_t *w = slot_new(r, &attr);
        VRT_ABT(ABT_thread_create(g_pools[w->pool], worker_fn, w, attr, &w->th_created));
        if (attr != ABT_THREAD_ATTR_NULL)
            VRT_ABT(ABT_thread_attr_free(&attr));
    }
    /* one user-supplied stack cannot serve several ULTs: ABT_thread_create_many
     * with such an attribute must be refused */
    {
        ABT_thread_attr a;
        ABT_thread ths[3] = { ABT_THREAD_NULL, ABT_THREAD_NULL, ABT_THREAD_NULL };
        ABT_pool pl[3] = { g_pools[0], g_pools[0], g_pools[0] };
        static void (*fns[3])(void *) = { probe_fn, probe_fn, probe_fn };
        char *stk = (char *)aligned_alloc(64, g_default_stack);
        VRT_ABT(ABT_thread_attr_create(&a));
        VRT_ABT(ABT_thread_attr_set_stack(a, stk, g_default_stack));
        int rc = ABT_thread_create_many(3, pl, fns, NULL, a, ths);
        if (rc == ABT_SUCCESS)
            vrt_violation("ctx:shared-stack", "ABT_thread_create_many accepted an attribute with a user-supplied stack: 3 ULTs "
                          "were created on the same stack %p+%zu", (void *)stk, g_default_stack);
        VRT_ABT(ABT_thread_attr_free(&a));
        vrt_count(c_many_probe, 1);
        if (vrt_num_violations())
            return;
        free(stk);
    }
    ABT_xstream xs[4];
    for (int i = 0; i < g_nes; i++) {
        ABT_pool mine[2];
        for (int k = 0; k < g_npools; k++)
            mine[k] = g_pools[(k + i) % g_npools];
        VRT_ABT(ABT_xstream_create_basic((ABT_sched_predef)sched, g_npools, mine, ABT_SCHED_CONFIG_NULL, &xs[i]));
    }
    /* the primary ULT resumes suspended workers now and then, so that nobody
     * stays blocked for ever */
    vrt_rng rr = { vrt_next(r) };
    while (__atomic_load_n(&g_active, __ATOMIC_SEQ_CST) > 0 && vrt_num_violations() == 0) {
        vrt_sleep_us(100);
        int force = __atomic_load_n(&g_budget, __ATOMIC_SEQ_CST) <= 0;
        if (!force && vrt_range(&rr, 4))
            continue;
        cw_t *t = claim(ST_BLOCKED, ST_BLOCKED_CLAIMED, NULL, &rr);
        if (!t)
            continue;
        wait_blocked(t);
        VRT_ABT(ABT_thread_resume(t->th));
        mark_resumed(t);
        vrt_count(c_rescues, 1);
        vrt_progress();
    }
    if (vrt_num_violations())
        return;
    for (int i = 0; i < g_nes; i++) {
        VRT_ABT(ABT_xstream_join(xs[i]));
        VRT_ABT(ABT_xstream_free(&xs[i]));
    }
    int nw = 0;
    for (int i = 0; i < MAXW; i++) {
        cw_t *w = &g_w[i];
        if (!w->used)
            continue;
        nw++;
        ABT_thread_state st;
        VRT_ABT(ABT_thread_get_state(w->th, &st));
        VRT_CHECK(st == ABT_THREAD_STATE_TERMINATED, "ctx:not-terminated", "worker %d in state %d at the end", i, (int)st);
        VRT_ABT(ABT_thread_free(&w->th));
        if (w->ubuf) {
            guard_check(w);
            free(w->ubuf);
        }
    }
    VRT_ABT(ABT_mutex_free(&g_mtx));
    for (int i = 0; i < g_npools; i++)
        VRT_ABT(ABT_pool_free(&g_pools[i]));
    VRT_ABT(ABT_finalize());
    if (idx < 3)
        vrt_sample("scenario %d: %d stream(s) share %d %s pool(s) under scheduler %s (replacement %s), %d initial workers, %d "
                   "worker slots used, %ld switch operations", idx, g_nes, g_npools, w_pool_kind_name(kind), w_sched_name(sched),
                   g_allow_sched ? "allowed" : "off", n0, nw, ops);
    vrt_signature_add("es%d,p%d,%s,%s,r%d", g_nes, g_npools, w_pool_kind_name(kind), w_sched_name(sched), g_allow_sched);
    vrt_count(c_cases, 1);
}

int main(int argc, char **argv)
{
    vrt_init(argc, argv, "h_ctx");
    int scen = (int)vrt_arg_int("scenarios", 10);
    long ops = vrt_arg_int("ops", 3000);
    c_cases = vrt_counter("cases");
    vrt_counter("distinct_nontrivial");
    c_switch_checks = vrt_counter("switches_checked");
    c_resumed_other_es = vrt_counter("resumed_on_another_stream");
    c_resumed_same_es = vrt_counter("resumed_on_same_stream");
    c_entries = vrt_counter("worker_starts");
    c_fresh_target = vrt_counter("switch_target_never_started");
    c_started_target = vrt_counter("switch_target_already_started");
    c_rescues = vrt_counter("resumed_by_primary_ult");
    c_many_probe = vrt_counter("create_many_with_user_stack_refused");
    c_user_unaligned_top = vrt_counter("user_stack_top_not_16_aligned");
    for (int i = 0; i < OP_NOPS; i++) {
        char nm[64];
        snprintf(nm, sizeof(nm), "op_%s", op_name[i]);
        c_ops[i] = vrt_counter(nm);
    }
    for (int i = 0; i < SK_NKINDS; i++) {
        char nm[64];
        snprintf(nm, sizeof(nm), "stack_%s", sk_name[i]);
        c_stack[i] = vrt_counter(nm);
    }
    for (int i = 0; i < 4; i++) {
        char nm[64];
        snprintf(nm, sizeof(nm), "switch_at_extra_depth_%d", i);
        c_depths[i] = vrt_counter(nm);
    }
    pthread_spin_init(&g_range_lock, 0);
    const char *e = getenv("ABT_THREAD_STACKSIZE");
    g_default_stack = e ? (size_t)strtoul(e, NULL, 0) : 65536;
    if (g_default_stack < 32768)
        g_default_stack = 32768;
    vrt_supervisor_start();
    vrt_rng r;
    vrt_rng_init(&r, vrt_seed, 97);
    for (int s = 0; s < scen && vrt_num_violations() == 0; s++)
        run_scenario(&r, s, ops);
    fp_default();
    return vrt_finish("ctx");
}
