#define _GNU_SOURCE
#include "vclock.h"
#include <unistd.h>
#include <sys/syscall.h>

static int g_mode = VCLOCK_REAL;
static int64_t g_now_ns = 1000000LL * 1000000000LL;
static int64_t g_off_ns;

void vclock_set_mode(int mode)
{
    __atomic_store_n(&g_mode, mode, __ATOMIC_SEQ_CST);
}
void vclock_set_ns(int64_t ns)
{
    __atomic_store_n(&g_now_ns, ns, __ATOMIC_SEQ_CST);
}
int64_t vclock_advance_ns(int64_t d)
{
    return __atomic_add_fetch(&g_now_ns, d, __ATOMIC_SEQ_CST);
}
void vclock_set_offset_ns(int64_t off)
{
    __atomic_store_n(&g_off_ns, off, __ATOMIC_SEQ_CST);
}
static int64_t real_ns(clockid_t id)
{
    struct timespec ts;
    syscall(SYS_clock_gettime, id, &ts);
    return (int64_t)ts.tv_sec * 1000000000LL + ts.tv_nsec;
}
int64_t vclock_now_ns(void)
{
    int m = __atomic_load_n(&g_mode, __ATOMIC_SEQ_CST);
    if (m == VCLOCK_MANUAL)
        return __atomic_load_n(&g_now_ns, __ATOMIC_SEQ_CST);
    if (m == VCLOCK_OFFSET)
        return real_ns(CLOCK_REALTIME) +
               __atomic_load_n(&g_off_ns, __ATOMIC_SEQ_CST);
    return real_ns(CLOCK_REALTIME);
}

int clock_gettime(clockid_t id, struct timespec *ts)
{
    if (id == CLOCK_REALTIME &&
        __atomic_load_n(&g_mode, __ATOMIC_SEQ_CST) != VCLOCK_REAL) {
        *ts = vclock_ts(vclock_now_ns());
        return 0;
    }
    return (int)syscall(SYS_clock_gettime, id, ts);
}
