/* C05 / C19(cond part): condition variables.
 *
 * mode=soup   : closed producer/consumer programs (monitor discipline) on random
 *               configurations with ULT/external, timed/untimed waiters.
 *               Oracle under the user mutex: wake-credit accounting
 *               (signal: credits=min(credits+1,registered); broadcast:
 *               credits=registered; SUCCESS needs a credit; TIMEDOUT needs
 *               deadline<=clock), holder word (waiter returns holding the
 *               mutex), token conservation, logical deadlock = lost signal.
 * mode=script : single stream + manual virtual clock: for a queue shape of
 *               n<=6 waiters {ULT,external}x{timed,untimed} a scripted sequence
 *               of clock advances / signals / broadcasts is executed and after
 *               every step the set of returned waiters is compared with a
 *               reference queue model (exactly the expired ones time out, a
 *               signal wakes exactly one waiter still queued, broadcast wakes
 *               all, nobody else returns).
 */
#define _GNU_SOURCE
#include "actors.h"
#include "vclock.h"
#include <errno.h>

#define MAXA 48

/* ------------------------------------------------------------------ */
/* shared monitor */
typedef struct {
    ABT_mutex m;
    ABT_cond c;
    /* all below protected by m */
    long tokens;
    long registered;
    long credits;
    long produced, consumed;
    int holder; /* atomic: actor idx or -1 */
    /* config */
    int quota;    /* tokens per consumer / producer */
    int nprod, ncons;
    int timed_pct;
    int recursive; /* the user mutex is recursive */
} cctx_t;

static int c_far_deadline, c_recursive_rounds, c_recursive_relocks;
static int c_cases, c_waits, c_timedwaits, c_timeouts, c_signals, c_broadcasts,
    c_success, c_rewaits, c_past_deadline, c_ext_waits, c_shapes, c_steps,
    c_fifo_head, c_fifo_other, c_inv_mutex, c_sig_empty, c_distinct;

static void hold_enter(cctx_t *c, int me, const char *where)
{
    int exp = -1;
    if (!__atomic_compare_exchange_n(&c->holder, &exp, me, 0, __ATOMIC_ACQ_REL,
                                     __ATOMIC_ACQUIRE))
        vrt_violation("cond:mutex-not-exclusive",
                      "%s: actor %d holds the mutex while actor %d is inside",
                      where, me, exp);
}
static void hold_leave(cctx_t *c, int me)
{
    (void)me;
    __atomic_store_n(&c->holder, -1, __ATOMIC_RELEASE);
}

/* consumer: takes `quota` tokens */
static void consumer_body(actor_t *a)
{
    cctx_t *c = (cctx_t *)a->ctx;
    for (int k = 0; k < c->quota && vrt_num_violations() == 0; k++) {
        vrt_actor_set(a->vid, VRT_A_BLOCKED, "mutex_lock");
        VRT_ABT(ABT_mutex_lock(c->m));
        vrt_actor_set(a->vid, VRT_A_RUNNING, "locked");
        hold_enter(c, a->idx, "lock");
        int first = 1;
        while (c->tokens == 0 && vrt_num_violations() == 0) {
            if (!first)
                vrt_count(c_rewaits, 1);
            first = 0;
            int timed = (int)vrt_range(&a->rng, 100) < c->timed_pct;
            c->registered++;
            hold_leave(c, a->idx);
            int rc;
            int64_t deadline = 0;
            if (timed) {
                /* past, now, near future (real clock) */
                int64_t now = vclock_now_ns();
                unsigned kind = (unsigned)vrt_range(&a->rng, 8);
                if (kind == 0) {
                    deadline = now - 1000000;
                    vrt_count(c_past_deadline, 1);
                } else if (kind == 1) {
                    deadline = now;
                } else if (kind <= 3) {
                    /* far future: behaves like an untimed wait, so a signal
                     * lost between releasing the mutex and enqueueing shows
                     * as a waiter that sleeps although tokens are there */
                    deadline = now + ((int64_t)1 << 50);
                    vrt_count(c_far_deadline, 1);
                } else {
                    deadline = now + 20000 + (int64_t)vrt_range(&a->rng, 3000000);
                }
                struct timespec ts = vclock_ts(deadline);
                vrt_actor_set(a->vid, kind == 2 || kind == 3 ? VRT_A_BLOCKED : VRT_A_RUNNING, "cond_timedwait");
                rc = ABT_cond_timedwait(c->c, c->m, &ts);
                vrt_count(c_timedwaits, 1);
            } else {
                vrt_actor_set(a->vid, VRT_A_BLOCKED, "cond_wait");
                rc = ABT_cond_wait(c->c, c->m);
                vrt_count(c_waits, 1);
            }
            vrt_actor_set(a->vid, VRT_A_RUNNING, "woken");
            hold_enter(c, a->idx, timed ? "timedwait-return" : "wait-return");
            if (c->recursive) {
                /* the waiter owns the (recursive) mutex again: it can lock it
                 * once more */
                int rl = ABT_mutex_trylock(c->m);
                if (rl != ABT_SUCCESS)
                    vrt_violation("cond:waiter-does-not-own-mutex", "actor %d(%s) returned from %s with a recursive mutex, but "
                                  "a nested trylock by the same caller returned %d", a->idx, act_kind_name[a->kind],
                                  timed ? "timedwait" : "wait", rl);
                else
                    VRT_ABT(ABT_mutex_unlock(c->m));
                vrt_count(c_recursive_relocks, 1);
            }
            if (a->kind == ACT_EXT)
                vrt_count(c_ext_waits, 1);
            if (rc == ABT_SUCCESS) {
                vrt_count(c_success, 1);
                if (c->credits <= 0)
                    vrt_violation("cond:spurious-wakeup",
                                  "actor %d(%s) returned ABT_SUCCESS from %s but "
                                  "no signal/broadcast credit is outstanding "
                                  "(registered=%ld)",
                                  a->idx, act_kind_name[a->kind],
                                  timed ? "timedwait" : "wait", c->registered);
                else
                    c->credits--;
                c->registered--;
            } else if (timed && rc == ABT_ERR_COND_TIMEDOUT) {
                vrt_count(c_timeouts, 1);
                int64_t now = vclock_now_ns();
                if (now + 1000 < deadline)
                    vrt_violation("cond:early-timeout",
                                  "timedwait returned TIMEDOUT %lld ns before its "
                                  "deadline",
                                  (long long)(deadline - now));
                c->registered--;
                if (c->credits > c->registered)
                    c->credits = c->registered;
            } else {
                vrt_violation("cond:wait-rc", "wait returned %d", rc);
                c->registered--;
            }
        }
        if (c->tokens > 0) {
            c->tokens--;
            c->consumed++;
        }
        hold_leave(c, a->idx);
        VRT_ABT(ABT_mutex_unlock(c->m));
        if (a->kind == ACT_ULT && vrt_range(&a->rng, 4) == 0)
            ABT_thread_yield();
    }
}

static void producer_body(actor_t *a)
{
    cctx_t *c = (cctx_t *)a->ctx;
    for (int k = 0; k < c->quota && vrt_num_violations() == 0; k++) {
        vrt_actor_set(a->vid, VRT_A_BLOCKED, "mutex_lock");
        VRT_ABT(ABT_mutex_lock(c->m));
        vrt_actor_set(a->vid, VRT_A_RUNNING, "locked");
        hold_enter(c, a->idx, "lock");
        c->tokens++;
        c->produced++;
        if (vrt_range(&a->rng, 4) != 0) {
            c->credits = c->credits + 1 > c->registered ? c->registered
                                                        : c->credits + 1;
            if (c->registered == 0)
                vrt_count(c_sig_empty, 1);
            VRT_ABT(ABT_cond_signal(c->c));
            vrt_count(c_signals, 1);
        } else {
            c->credits = c->registered;
            VRT_ABT(ABT_cond_broadcast(c->c));
            vrt_count(c_broadcasts, 1);
        }
        hold_leave(c, a->idx);
        VRT_ABT(ABT_mutex_unlock(c->m));
        unsigned d = (unsigned)vrt_range(&a->rng, 8);
        if (a->kind == ACT_ULT && d < 3)
            ABT_thread_yield();
        else if (d == 7)
            vrt_sleep_us(20);
    }
}

static void both_body(actor_t *a)
{
    cctx_t *c = (cctx_t *)a->ctx;
    if (a->idx < c->nprod)
        producer_body(a);
    else
        consumer_body(a);
}

static int soup_legit_block(void)
{
    return 0;
}

static void run_soup(vrt_rng *r, int round, int max_es, int quota)
{
    int nes, shared, pk, sp;
    world_random_config(r, max_es, &nes, &shared, &pk, &sp);
    VRT_ABT(ABT_init(0, NULL));
    world_t w;
    world_create(&w, nes, shared, pk, sp);
    static cctx_t c;
    memset(&c, 0, sizeof(c));
    c.holder = -1;
    c.recursive = (int)vrt_range(r, 3) == 0;
    if (c.recursive) {
        ABT_mutex_attr ma;
        VRT_ABT(ABT_mutex_attr_create(&ma));
        VRT_ABT(ABT_mutex_attr_set_recursive(ma, ABT_TRUE));
        VRT_ABT(ABT_mutex_create_with_attr(ma, &c.m));
        VRT_ABT(ABT_mutex_attr_free(&ma));
        vrt_count(c_recursive_rounds, 1);
    } else {
        VRT_ABT(ABT_mutex_create(&c.m));
    }
    int static_cond = (int)vrt_range(r, 2);
    static ABT_cond_memory cmem;
    static const ABT_cond_memory cinit = ABT_COND_INITIALIZER;
    if (static_cond) {
        cmem = cinit;
        c.c = ABT_COND_MEMORY_GET_HANDLE(&cmem);
    } else {
        VRT_ABT(ABT_cond_create(&c.c));
    }
    /* equal numbers so that quotas balance */
    int pairs = 1 + (int)vrt_range(r, 10);
    c.nprod = pairs;
    c.ncons = pairs;
    c.quota = quota;
    c.timed_pct = (int)vrt_range(r, 3) == 0 ? 0 : (int)vrt_range(r, 70);
    int n = 2 * pairs;
    int kinds[MAXA];
    int next = (int)vrt_range(r, (uint64_t)(n > 6 ? 6 : n));
    actors_kinds(r, kinds, n - next, next, 0);
    static actor_t actors[MAXA];
    task_stream_t ts;
    vrt_actor_reset_all();
    vrt_set_legit_block_cb(soup_legit_block);
    actors_spawn(&w, actors, n, kinds, both_body, &c, &ts,
                 vrt_hash64(vrt_seed * 131 + (uint64_t)round));
    actors_join(actors, n, &ts);
    VRT_CHECK(c.produced == c.consumed && c.tokens == 0, "cond:token-conservation",
              "produced=%ld consumed=%ld tokens=%ld", c.produced, c.consumed,
              c.tokens);
    VRT_CHECK(c.registered == 0, "cond:registered-left", "registered=%ld",
              c.registered);
    char wd[128];
    world_describe(&w, wd, sizeof(wd));
    if (round < 2)
        vrt_sample("soup %d: %s producers=consumers=%d (external=%d) quota=%d "
                   "timed%%=%d static_cond=%d delay=%s",
                   round, wd, pairs, next, quota, c.timed_pct, static_cond,
                   vrt_delay_profile_name());
    vrt_signature_add("%s,p%d,e%d,t%d,s%d", wd, pairs, next, c.timed_pct / 10,
                      static_cond);
    if (!static_cond)
        VRT_ABT(ABT_cond_free(&c.c));
    VRT_ABT(ABT_mutex_free(&c.m));
    world_destroy(&w);
    VRT_ABT(ABT_finalize());
    vrt_count(c_cases, 1);
}

/* ------------------------------------------------------------------ */
/* scripted queue shapes */
#define SMAX 6
enum { W_ULT = 0, W_ULT_TIMED = 1, W_EXT = 2, W_EXT_TIMED = 3 };
static const char *wtype_name[] = { "U", "Ut", "E", "Et" };

typedef struct {
    ABT_mutex m, m2;
    ABT_cond c;
    int n;
    int type[SMAX];
    int64_t deadline[SMAX];
    long registered; /* under m */
    int returned[SMAX]; /* atomic: 0 none, 1 SUCCESS, 2 TIMEDOUT, 3 other */
    int64_t ret_clock[SMAX];
    int holder;
    ABT_thread th[SMAX];
    pthread_t pt[SMAX];
} shape_t;

typedef struct {
    shape_t *s;
    int i;
} warg_t;

static void shape_waiter(void *arg)
{
    warg_t *wa = (warg_t *)arg;
    shape_t *s = wa->s;
    int i = wa->i;
    VRT_ABT(ABT_mutex_lock(s->m));
    s->registered++;
    int rc;
    if (s->type[i] & 1) {
        struct timespec ts = vclock_ts(s->deadline[i]);
        rc = ABT_cond_timedwait(s->c, s->m, &ts);
    } else {
        rc = ABT_cond_wait(s->c, s->m);
    }
    int exp = -1;
    if (!__atomic_compare_exchange_n(&s->holder, &exp, i, 0, __ATOMIC_ACQ_REL,
                                     __ATOMIC_ACQUIRE))
        vrt_violation("cond:mutex-not-exclusive",
                      "scripted waiter %d returned while %d holds the mutex", i,
                      exp);
    s->ret_clock[i] = vclock_now_ns();
    __atomic_store_n(&s->holder, -1, __ATOMIC_RELEASE);
    VRT_ABT(ABT_mutex_unlock(s->m));
    __atomic_store_n(&s->returned[i],
                     rc == ABT_SUCCESS ? 1
                                       : rc == ABT_ERR_COND_TIMEDOUT ? 2 : 3,
                     __ATOMIC_RELEASE);
    vrt_progress();
}
static void *shape_waiter_pt(void *arg)
{
    shape_waiter(arg);
    return NULL;
}

/* director helpers (the director is the primary ULT of a 1-stream runtime) */
static void settle_steps(int k)
{
    for (int i = 0; i < k; i++)
        ABT_thread_yield();
}

/* wait until pred(waiter) for all waiters in mask have returned; ULTs need the
 * director to yield, externals need real time. Returns 0 on success. */
static int await_returned(shape_t *s, unsigned mask, const char *what)
{
    double t0 = vrt_wall();
    int spins = 0;
    for (;;) {
        unsigned done = 0;
        int has_ext = 0;
        for (int i = 0; i < s->n; i++) {
            if (!(mask & (1u << i)))
                continue;
            if (__atomic_load_n(&s->returned[i], __ATOMIC_ACQUIRE))
                done |= 1u << i;
            else if (s->type[i] >= W_EXT)
                has_ext = 1;
        }
        if (done == mask)
            return 0;
        ABT_thread_yield();
        spins++;
        if (!has_ext && spins > 200) {
            /* single stream, cooperative: a woken/expired ULT runs within one
             * scheduling round */
            vrt_violation("cond:ult-waiter-not-returned",
                          "%s: ULT waiters mask 0x%x did not return after %d "
                          "scheduling rounds (returned 0x%x)",
                          what, mask, spins, done);
            return -1;
        }
        if (has_ext) {
            vrt_sleep_us(100);
            if (vrt_wall() - t0 > 30.0 * vrt_san_scale) {
                vrt_violation("cond:ext-waiter-not-returned",
                              "%s: waiters mask 0x%x, returned 0x%x after %.0fs",
                              what, mask, done, vrt_wall() - t0);
                return -1;
            }
        }
    }
}

static unsigned returned_mask(shape_t *s)
{
    unsigned m = 0;
    for (int i = 0; i < s->n; i++)
        if (__atomic_load_n(&s->returned[i], __ATOMIC_ACQUIRE))
            m |= 1u << i;
    return m;
}

static int popcount(unsigned x)
{
    return __builtin_popcount(x);
}

/* let possible extra (wrong) wake-ups show up: scheduling rounds for ULTs and a
 * short real-time pause when externals are queued */
static void grace(shape_t *s, unsigned queued)
{
    settle_steps(6);
    int ext = 0;
    for (int i = 0; i < s->n; i++)
        if ((queued & (1u << i)) && s->type[i] >= W_EXT)
            ext = 1;
    if (ext) {
        vrt_sleep_us(300);
        settle_steps(2);
    }
}

static void run_shape(vrt_rng *r, int n, char *desc, size_t dl)
{
    static shape_t S;
    static warg_t wa[SMAX];
    shape_t *s = &S;
    memset(s, 0, sizeof(*s));
    s->n = n;
    s->holder = -1;
    VRT_ABT(ABT_mutex_create(&s->m));
    VRT_ABT(ABT_mutex_create(&s->m2));
    VRT_ABT(ABT_cond_create(&s->c));
    int64_t base = 1000000LL * 1000000000LL + (int64_t)vrt_range(r, 1000) * 1000000;
    vclock_set_mode(VCLOCK_MANUAL);
    vclock_set_ns(base);
    /* distinct deadlines: base + perm*2ms; some far future */
    int perm[SMAX];
    for (int i = 0; i < n; i++)
        perm[i] = i;
    for (int i = n - 1; i > 0; i--) {
        int j = (int)vrt_range(r, (uint64_t)i + 1);
        int t = perm[i];
        perm[i] = perm[j];
        perm[j] = t;
    }
    size_t off = 0;
    for (int i = 0; i < n; i++) {
        s->type[i] = (int)vrt_range(r, 4);
        s->deadline[i] = base + (int64_t)(perm[i] + 1) * 2000000LL;
        if ((s->type[i] & 1) && s->type[i] < W_EXT && vrt_range(r, 8) == 0)
            s->deadline[i] = ((int64_t)1 << 61); /* far future (ULT only) */
        off += (size_t)snprintf(desc + off, off < dl ? dl - off : 0, "%s%s",
                                i ? "," : "", wtype_name[s->type[i]]);
    }
    /* enqueue in order */
    for (int i = 0; i < n; i++) {
        wa[i].s = s;
        wa[i].i = i;
        if (s->type[i] >= W_EXT) {
            if (pthread_create(&s->pt[i], NULL, shape_waiter_pt, &wa[i]))
                vrt_fatal("pthread_create");
        } else {
            ABT_pool pool;
            ABT_xstream xs;
            VRT_ABT(ABT_xstream_self(&xs));
            VRT_ABT(ABT_xstream_get_main_pools(xs, 1, &pool));
            VRT_ABT(ABT_thread_create(pool, shape_waiter, &wa[i],
                                      ABT_THREAD_ATTR_NULL, &s->th[i]));
        }
        /* wait until it is registered and has released the mutex (wait()
         * releases the mutex and enqueues atomically) */
        double t0 = vrt_wall();
        for (;;) {
            VRT_ABT(ABT_mutex_lock(s->m));
            long reg = s->registered;
            VRT_ABT(ABT_mutex_unlock(s->m));
            if (reg == i + 1)
                break;
            ABT_thread_yield();
            if (s->type[i] >= W_EXT)
                vrt_sleep_us(50);
            if (vrt_wall() - t0 > 30.0 * vrt_san_scale)
                vrt_fatal("waiter %d did not register", i);
        }
    }
    /* wrong-mutex wait must be rejected while waiters use s->m */
    if (n > 0) {
        VRT_ABT(ABT_mutex_lock(s->m2));
        int rc = ABT_cond_wait(s->c, s->m2);
        VRT_CHECK(rc == ABT_ERR_INV_MUTEX, "cond:wrong-mutex-accepted",
                  "cond_wait with a different mutex returned %d", rc);
        if (rc == ABT_ERR_INV_MUTEX)
            vrt_count(c_inv_mutex, 1);
        VRT_ABT(ABT_mutex_unlock(s->m2));
    }
    /* reference queue: bit i set = waiter i still queued */
    unsigned queued = (1u << n) - 1;
    int order[SMAX];
    int qn = n;
    for (int i = 0; i < n; i++)
        order[i] = i;
    int nsteps = 1 + (int)vrt_range(r, (uint64_t)n + 3);
    int64_t now = base;
    for (int st = 0; st <= nsteps && vrt_num_violations() == 0; st++) {
        int act = st == nsteps ? 2 : (int)vrt_range(r, 5); /* 0,1 ADV 2 BRD.. */
        unsigned before = returned_mask(s);
        if (before != (((1u << n) - 1) & ~queued)) {
            vrt_violation("cond:unexpected-return",
                          "shape [%s]: before step %d returned mask 0x%x but "
                          "model says 0x%x", desc, st, before,
                          ((1u << n) - 1) & ~queued);
            break;
        }
        if (st < nsteps && act <= 1) {
            /* advance the clock past the k-th pending deadline */
            int64_t target = now + (int64_t)(1 + vrt_range(r, (uint64_t)n + 1)) * 2000000LL;
            now = target;
            vclock_set_ns(now);
            unsigned expire = 0;
            for (int i = 0; i < n; i++)
                if ((queued & (1u << i)) && (s->type[i] & 1) &&
                    s->deadline[i] <= now)
                    expire |= 1u << i;
            if (await_returned(s, expire, "clock advance"))
                break;
            for (int i = 0; i < n; i++)
                if (expire & (1u << i)) {
                    int rv = __atomic_load_n(&s->returned[i], __ATOMIC_ACQUIRE);
                    VRT_CHECK(rv == 2, "cond:expired-waiter-rc",
                              "shape [%s]: waiter %d deadline passed, nobody "
                              "signalled, returned code class %d", desc, i, rv);
                    vrt_count(c_timeouts, 1);
                }
            queued &= ~expire;
            grace(s, queued);
        } else if (st < nsteps && act <= 3) {
            /* signal */
            VRT_ABT(ABT_mutex_lock(s->m));
            VRT_ABT(ABT_cond_signal(s->c));
            VRT_ABT(ABT_mutex_unlock(s->m));
            vrt_count(c_signals, 1);
            if (queued) {
                /* exactly one queued waiter must return with SUCCESS */
                double t0 = vrt_wall();
                int spins = 0;
                unsigned newly = 0;
                int ext_q = 0;
                for (int i = 0; i < n; i++)
                    if ((queued & (1u << i)) && s->type[i] >= W_EXT)
                        ext_q = 1;
                for (;;) {
                    newly = returned_mask(s) & queued;
                    if (newly)
                        break;
                    ABT_thread_yield();
                    spins++;
                    if (!ext_q && spins > 200) {
                        vrt_violation("cond:signal-woke-nobody",
                                      "shape [%s] step %d: signal with queued "
                                      "mask 0x%x woke nobody", desc, st, queued);
                        break;
                    }
                    if (ext_q) {
                        vrt_sleep_us(100);
                        if (vrt_wall() - t0 > 30.0 * vrt_san_scale) {
                            vrt_violation("cond:signal-woke-nobody",
                                          "shape [%s] step %d: signal with "
                                          "queued mask 0x%x woke nobody in "
                                          "%.0fs", desc, st, queued,
                                          vrt_wall() - t0);
                            break;
                        }
                    }
                }
                if (!newly)
                    break;
                grace(s, queued);
                newly = returned_mask(s) & queued;
                if (popcount(newly) != 1)
                    vrt_violation("cond:signal-woke-many",
                                  "shape [%s] step %d: one signal, returned "
                                  "mask 0x%x of queued 0x%x", desc, st, newly,
                                  queued);
                for (int i = 0; i < n; i++)
                    if (newly & (1u << i)) {
                        int rv = __atomic_load_n(&s->returned[i], __ATOMIC_ACQUIRE);
                        VRT_CHECK(rv == 1, "cond:signalled-waiter-rc",
                                  "shape [%s]: waiter %d signalled before its "
                                  "deadline (deadline %lld now %lld) returned "
                                  "code class %d", desc, i,
                                  (long long)s->deadline[i], (long long)now, rv);
                        /* FIFO? (evidence only) */
                        int head = -1;
                        for (int j = 0; j < n; j++)
                            if (queued & (1u << j)) {
                                head = j;
                                break;
                            }
                        vrt_count(i == head ? c_fifo_head : c_fifo_other, 1);
                    }
                queued &= ~newly;
            } else {
                vrt_count(c_sig_empty, 1);
                grace(s, queued);
            }
        } else {
            /* broadcast: everybody queued returns with SUCCESS */
            VRT_ABT(ABT_mutex_lock(s->m));
            VRT_ABT(ABT_cond_broadcast(s->c));
            VRT_ABT(ABT_mutex_unlock(s->m));
            vrt_count(c_broadcasts, 1);
            if (await_returned(s, queued, "broadcast"))
                break;
            for (int i = 0; i < n; i++)
                if (queued & (1u << i)) {
                    int rv = __atomic_load_n(&s->returned[i], __ATOMIC_ACQUIRE);
                    VRT_CHECK(rv == 1, "cond:broadcast-waiter-rc",
                              "shape [%s]: waiter %d returned code class %d "
                              "after broadcast", desc, i, rv);
                }
            queued = 0;
            grace(s, queued);
        }
        vrt_count(c_steps, 1);
    }
    /* TIMEDOUT only after the deadline */
    for (int i = 0; i < n; i++) {
        int rv = __atomic_load_n(&s->returned[i], __ATOMIC_ACQUIRE);
        if (rv == 2 && s->ret_clock[i] < s->deadline[i])
            vrt_violation("cond:early-timeout",
                          "shape [%s]: waiter %d TIMEDOUT at %lld < deadline %lld",
                          desc, i, (long long)s->ret_clock[i],
                          (long long)s->deadline[i]);
    }
    if (vrt_num_violations()) {
        /* do not try to clean up a broken queue */
        return;
    }
    for (int i = 0; i < n; i++) {
        if (s->type[i] >= W_EXT)
            pthread_join(s->pt[i], NULL);
        else
            VRT_ABT(ABT_thread_free(&s->th[i]));
    }
    VRT_ABT(ABT_cond_free(&s->c));
    VRT_ABT(ABT_mutex_free(&s->m));
    VRT_ABT(ABT_mutex_free(&s->m2));
    vclock_set_mode(VCLOCK_REAL);
    (void)order;
    (void)qn;
}

/* ======================================================================= */
/* mode=handoff: release-and-wait must be atomic.  The waiter W sets `waiting`
 * under the mutex and calls cond_wait / cond_timedwait (deadline 2 s away).
 * The signaller S spins on trylock; the first time it owns the mutex with
 * `waiting` set it records the time, signals and unlocks.  Since W released
 * the mutex and started waiting atomically, that signal cannot be lost: W must
 * return ABT_SUCCESS.  A TIMEDOUT return although the signal was issued well
 * before the deadline is a lost signal.  Helper threads keep the mutex busy. */
static struct {
    ABT_mutex m;
    ABT_cond c;
    int waiting;      /* under m */
    int signalled;    /* under m */
    int64_t t_signal; /* under m */
    int stop;         /* atomic */
    int trial_done;   /* atomic */
    int timed;
} g_ho;
static int c_ho_trials, c_ho_timed, c_ho_untimed, c_ho_helpers;
static void *ho_helper(void *arg)
{
    (void)arg;
    while (!__atomic_load_n(&g_ho.stop, __ATOMIC_SEQ_CST)) {
        if (ABT_mutex_trylock(g_ho.m) == ABT_SUCCESS)
            ABT_mutex_unlock(g_ho.m);
        for (volatile int i = 0; i < 30; i++)
            ;
    }
    return NULL;
}
static void ho_waiter(void *arg)
{
    (void)arg;
    VRT_ABT(ABT_mutex_lock(g_ho.m));
    g_ho.waiting = 1;
    int rc;
    int64_t deadline = 0;
    if (g_ho.timed) {
        deadline = vclock_now_ns() + 2000000000LL;
        struct timespec ts = vclock_ts(deadline);
        rc = ABT_cond_timedwait(g_ho.c, g_ho.m, &ts);
    } else {
        vrt_call_begin("ABT_cond_wait of a waiter that has been signalled");
        rc = ABT_cond_wait(g_ho.c, g_ho.m);
        vrt_call_end();
    }
    g_ho.waiting = 0;
    if (rc == ABT_ERR_COND_TIMEDOUT) {
        if (g_ho.signalled && g_ho.t_signal + 500000000LL < deadline)
            vrt_violation("cond:signal-lost-in-release-and-wait",
                          "a signaller that owned the mutex after the waiter had released it inside ABT_cond_timedwait "
                          "signalled %.3f s before the deadline, but the waiter returned ABT_ERR_COND_TIMEDOUT",
                          (double)(deadline - g_ho.t_signal) / 1e9);
    } else if (rc != ABT_SUCCESS) {
        vrt_violation("cond:wait-rc", "wait returned %d", rc);
    }
    VRT_ABT(ABT_mutex_unlock(g_ho.m));
    __atomic_store_n(&g_ho.trial_done, 1, __ATOMIC_SEQ_CST);
}
static void run_handoff(vrt_rng *r, int trials)
{
    VRT_ABT(ABT_init(0, NULL));
    ABT_xstream xs;
    ABT_pool pool;
    VRT_ABT(ABT_xstream_create(ABT_SCHED_NULL, &xs));
    VRT_ABT(ABT_xstream_get_main_pools(xs, 1, &pool));
    VRT_ABT(ABT_mutex_create(&g_ho.m));
    VRT_ABT(ABT_cond_create(&g_ho.c));
    int nh = (int)vrt_range(r, 4);
    pthread_t hp[3];
    g_ho.stop = 0;
    for (int i = 0; i < nh; i++)
        pthread_create(&hp[i], NULL, ho_helper, NULL);
    vrt_count(c_ho_helpers, (uint64_t)nh);
    for (int t = 0; t < trials && vrt_num_violations() == 0; t++) {
        g_ho.waiting = g_ho.signalled = 0;
        g_ho.trial_done = 0;
        g_ho.timed = vrt_range(r, 4) != 0;
        vrt_count(g_ho.timed ? c_ho_timed : c_ho_untimed, 1);
        ABT_thread w;
        VRT_ABT(ABT_thread_create(pool, ho_waiter, NULL, ABT_THREAD_ATTR_NULL, &w));
        /* the signaller: the primary ULT */
        for (;;) {
            if (ABT_mutex_trylock(g_ho.m) == ABT_SUCCESS) {
                if (g_ho.waiting) {
                    g_ho.signalled = 1;
                    g_ho.t_signal = vclock_now_ns();
                    VRT_ABT(ABT_cond_signal(g_ho.c));
                    VRT_ABT(ABT_mutex_unlock(g_ho.m));
                    break;
                }
                VRT_ABT(ABT_mutex_unlock(g_ho.m));
            }
            if (vrt_num_violations())
                break;
        }
        VRT_ABT(ABT_thread_join(w));
        VRT_ABT(ABT_thread_free(&w));
        vrt_count(c_ho_trials, 1);
        if ((t & 63) == 0)
            vrt_progress();
    }
    __atomic_store_n(&g_ho.stop, 1, __ATOMIC_SEQ_CST);
    for (int i = 0; i < nh; i++)
        pthread_join(hp[i], NULL);
    if (vrt_num_violations())
        return;
    VRT_ABT(ABT_cond_free(&g_ho.c));
    VRT_ABT(ABT_mutex_free(&g_ho.m));
    VRT_ABT(ABT_xstream_join(xs));
    VRT_ABT(ABT_xstream_free(&xs));
    VRT_ABT(ABT_finalize());
    vrt_sample("handoff: %d trials, waiter on a second stream (3/4 timed with a 2 s deadline), signaller = primary ULT "
               "spinning on trylock, %d helper threads keeping the mutex busy", trials, nh);
    vrt_signature_add("handoff,h%d", nh);
    vrt_count(c_cases, 1);
}

int main(int argc, char **argv)
{
    vrt_init(argc, argv, "h_cond");
    const char *mode = vrt_arg("mode", "soup");
    c_cases = vrt_counter("cases");
    c_waits = vrt_counter("waits");
    c_timedwaits = vrt_counter("timedwaits");
    c_timeouts = vrt_counter("timeouts");
    c_signals = vrt_counter("signals");
    c_broadcasts = vrt_counter("broadcasts");
    c_success = vrt_counter("wakeups");
    c_rewaits = vrt_counter("rewaits_token_taken_by_other");
    c_past_deadline = vrt_counter("deadline_in_past");
    c_far_deadline = vrt_counter("deadline_far_future_in_soup");
    c_recursive_rounds = vrt_counter("soup_rounds_with_recursive_mutex");
    c_recursive_relocks = vrt_counter("nested_relocks_after_wait_with_recursive_mutex");
    c_ext_waits = vrt_counter("waits_by_external");
    c_shapes = vrt_counter("shapes");
    c_steps = vrt_counter("script_steps");
    c_fifo_head = vrt_counter("signal_woke_head");
    c_fifo_other = vrt_counter("signal_woke_non_head");
    c_inv_mutex = vrt_counter("wrong_mutex_rejected");
    c_sig_empty = vrt_counter("signal_with_no_waiter");
    c_distinct = vrt_counter("distinct_nontrivial");
    vrt_rng r;
    vrt_rng_init(&r, vrt_seed, 11);
    if (!strcmp(mode, "handoff")) {
        c_ho_trials = vrt_counter("handoff_trials");
        c_ho_timed = vrt_counter("handoff_timed_waits");
        c_ho_untimed = vrt_counter("handoff_untimed_waits");
        c_ho_helpers = vrt_counter("handoff_helper_threads");
        vrt_supervisor_start();
        int rounds = (int)vrt_arg_int("rounds", 4);
        for (int i = 0; i < rounds && vrt_num_violations() == 0; i++)
            run_handoff(&r, (int)vrt_arg_int("trials", 2000));
        return vrt_finish("cond_handoff");
    } else if (!strcmp(mode, "soup")) {
        int rounds = (int)vrt_arg_int("rounds", 8);
        int quota = (int)vrt_arg_int("quota", 400);
        int max_es = (int)vrt_arg_int("max-es", 4);
        vrt_supervisor_start();
        for (int i = 0; i < rounds && vrt_num_violations() == 0; i++)
            run_soup(&r, i, max_es, quota);
        return vrt_finish("cond_soup");
    } else {
        int shapes = (int)vrt_arg_int("shapes", 300);
        int maxn = (int)vrt_arg_int("max-n", 5);
        if (maxn > SMAX)
            maxn = SMAX;
        vrt_supervisor_start();
        VRT_ABT(ABT_init(0, NULL));
        /* distinct shapes seen (hash set) */
        static uint64_t seen[1 << 14];
        for (int i = 0; i < shapes && vrt_num_violations() == 0; i++) {
            int n = 1 + (int)vrt_range(&r, (uint64_t)maxn);
            char desc[64];
            desc[0] = 0;
            run_shape(&r, n, desc, sizeof(desc));
            uint64_t h = 1469598103934665603ULL;
            for (char *p = desc; *p; p++)
                h = (h ^ (uint64_t)(unsigned char)*p) * 1099511628211ULL;
            h |= 1;
            size_t k = (size_t)(h & ((1 << 14) - 1));
            while (seen[k] && seen[k] != h)
                k = (k + 1) & ((1 << 14) - 1);
            if (!seen[k]) {
                seen[k] = h;
                vrt_count(c_distinct, 1);
            }
            if (i < 3)
                vrt_sample("shape %d: queue [%s] (U=ULT untimed, Ut=ULT timed, "
                           "E=external untimed, Et=external timed), random "
                           "script of clock advances/signals/broadcasts",
                           i, desc);
            vrt_count(c_shapes, 1);
            vrt_count(c_cases, 1);
        }
        if (vrt_num_violations() == 0)
            VRT_ABT(ABT_finalize());
        return vrt_finish("cond_script");
    }
}
