/* actors.h: spawn a mixed set of actors (ULTs on the world's pools, external
 * pthreads, tasklets on a dedicated stream) that run the same body. */
#ifndef ACTORS_H
#define ACTORS_H
#include "world.h"

enum { ACT_ULT = 0, ACT_EXT = 1, ACT_TASK = 2 };
static const char *act_kind_name[] = { "ult", "ext", "task" };

typedef struct actor {
    int idx;
    int kind;
    int vid; /* vrt actor id */
    vrt_rng rng;
    void *ctx;
    void (*body)(struct actor *);
    ABT_thread th;
    pthread_t pt;
    int pool_idx;
    char pad[64];
} actor_t;

typedef struct {
    ABT_xstream xs;
    ABT_pool pool;
    int active;
} task_stream_t;

static void actor_entry_abt(void *arg)
{
    actor_t *a = (actor_t *)arg;
    a->body(a);
    vrt_actor_set(a->vid, VRT_A_DONE, "done");
}
static void *actor_entry_pt(void *arg)
{
    actor_entry_abt(arg);
    return NULL;
}

/* kinds[i] gives the kind of actor i.  Tasklets run on ts (created here on
 * demand, one tasklet at a time since a blocked tasklet blocks its stream). */
static void actors_spawn(world_t *w, actor_t *a, int n, const int *kinds,
                         void (*body)(actor_t *), void *ctx, task_stream_t *ts,
                         uint64_t seed)
{
    int ntask = 0;
    for (int i = 0; i < n; i++)
        if (kinds[i] == ACT_TASK)
            ntask++;
    ts->active = 0;
    if (ntask) {
        VRT_ABT(ABT_pool_create_basic(ABT_POOL_FIFO, ABT_POOL_ACCESS_MPMC,
                                      ABT_TRUE, &ts->pool));
        VRT_ABT(ABT_xstream_create_basic(ABT_SCHED_BASIC, 1, &ts->pool,
                                         ABT_SCHED_CONFIG_NULL, &ts->xs));
        ts->active = 1;
    }
    for (int i = 0; i < n; i++) {
        a[i].idx = i;
        a[i].kind = kinds[i];
        a[i].ctx = ctx;
        a[i].body = body;
        vrt_rng_init(&a[i].rng, seed, 100 + (uint64_t)i);
        a[i].vid = vrt_actor_new(act_kind_name[kinds[i]]);
    }
    int ult_seq = 0;
    for (int i = 0; i < n; i++) {
        if (kinds[i] == ACT_ULT) {
            /* the k-th ULT actor goes to pool k % nes */
            a[i].pool_idx = ult_seq++ % w->nes;
            VRT_ABT(ABT_thread_create(w->pools[a[i].pool_idx], actor_entry_abt,
                                      &a[i], ABT_THREAD_ATTR_NULL, &a[i].th));
        } else if (kinds[i] == ACT_TASK) {
            VRT_ABT(ABT_task_create(ts->pool, actor_entry_abt, &a[i], &a[i].th));
        } else {
            if (pthread_create(&a[i].pt, NULL, actor_entry_pt, &a[i]) != 0)
                vrt_fatal("pthread_create failed");
        }
    }
}

static void actors_join(actor_t *a, int n, task_stream_t *ts)
{
    /* Work units first: joining them keeps the caller's stream scheduling.
     * pthread_join() blocks the caller's OS thread, so externals are joined
     * only when no work unit can still need this stream. */
    for (int i = 0; i < n; i++)
        if (a[i].kind != ACT_EXT)
            VRT_ABT(ABT_thread_free(&a[i].th));
    for (int i = 0; i < n; i++)
        if (a[i].kind == ACT_EXT)
            pthread_join(a[i].pt, NULL);
    if (ts->active) {
        VRT_ABT(ABT_xstream_join(ts->xs));
        VRT_ABT(ABT_xstream_free(&ts->xs));
        ts->active = 0;
    }
}

/* choose kinds: nult ULTs, next externals, ntask tasklets, shuffled */
static void actors_kinds(vrt_rng *r, int *kinds, int nult, int next, int ntask)
{
    int n = 0;
    for (int i = 0; i < nult; i++)
        kinds[n++] = ACT_ULT;
    for (int i = 0; i < next; i++)
        kinds[n++] = ACT_EXT;
    for (int i = 0; i < ntask; i++)
        kinds[n++] = ACT_TASK;
    for (int i = n - 1; i > 0; i--) {
        int j = (int)vrt_range(r, (uint64_t)i + 1);
        int t = kinds[i];
        kinds[i] = kinds[j];
        kinds[j] = t;
    }
}

#endif
