/* vrt: verification runtime shared by all harnesses (monitors, PRNG, delay
 * policy, supervisor, JSON result).  All monitor state is atomics or protected
 * by a pthread mutex that is never held across an Argobots call. */
#ifndef VRT_H
#define VRT_H

#include <stdint.h>
#include <stdio.h>
#include <stdlib.h>
#include <string.h>
#include <stdarg.h>
#include <pthread.h>
#include <abt.h>

/* ---------- PRNG (splitmix64) ---------- */
typedef struct {
    uint64_t s;
} vrt_rng;
static inline uint64_t vrt_next(vrt_rng *r)
{
    uint64_t z = (r->s += 0x9e3779b97f4a7c15ULL);
    z = (z ^ (z >> 30)) * 0xbf58476d1ce4e5b9ULL;
    z = (z ^ (z >> 27)) * 0x94d049bb133111ebULL;
    return z ^ (z >> 31);
}
static inline void vrt_rng_init(vrt_rng *r, uint64_t seed, uint64_t stream)
{
    /* hash the seed so that neighbouring seeds do not give shifted copies of
     * one stream */
    r->s = seed * 0x9e3779b97f4a7c15ULL + stream * 0xd1342543de82ef95ULL + 1;
    r->s = vrt_next(r) ^ (seed << 17);
    r->s = vrt_next(r);
}
static inline uint64_t vrt_range(vrt_rng *r, uint64_t n)
{
    return n ? vrt_next(r) % n : 0;
}
static inline int vrt_chance(vrt_rng *r, unsigned num, unsigned den)
{
    return vrt_range(r, den) < num;
}
static inline uint64_t vrt_hash64(uint64_t x)
{
    vrt_rng r = { x };
    return vrt_next(&r);
}

/* ---------- global state / args ---------- */
extern uint64_t vrt_seed;
extern int vrt_san_scale; /* 1 for mon, larger under sanitizers (timeouts) */
void vrt_init(int argc, char **argv, const char *harness);
const char *vrt_arg(const char *name, const char *def);
long vrt_arg_int(const char *name, long def);
int vrt_arg_has(const char *name);

/* ---------- violations ---------- */
/* key: short, stable class id (no addresses / counters) used for known-finding
 * matching; msg: free text with the witness. */
void vrt_violation(const char *key, const char *fmt, ...)
    __attribute__((format(printf, 2, 3)));
int vrt_num_violations(void);
/* like vrt_violation, but the workload goes on (see vrt.c) */
void vrt_finding(const char *key, const char *fmt, ...) __attribute__((format(printf, 2, 3)));
#define VRT_CHECK(cond, key, ...)                                              \
    do {                                                                       \
        if (!(cond))                                                           \
            vrt_violation(key, __VA_ARGS__);                                   \
    } while (0)
/* harness-internal failure (not a property violation): exit code 2 */
/* text printed by the crash handler (which case was running) */
void vrt_crash_label(const char *label);
void vrt_fatal(const char *fmt, ...) __attribute__((format(printf, 1, 2), noreturn));
#define VRT_ABT(call)                                                          \
    do {                                                                       \
        int vrt_rc_ = (call);                                                  \
        if (vrt_rc_ != ABT_SUCCESS)                                            \
            vrt_fatal("%s:%d: %s returned %d", __FILE__, __LINE__, #call,      \
                      vrt_rc_);                                                \
    } while (0)

/* ---------- counters reported as evidence ---------- */
#define VRT_MAX_COUNTERS 96
int vrt_counter(const char *name); /* register (idempotent) */
void vrt_count(int id, uint64_t n);
uint64_t vrt_counter_get(int id);
/* a free-form "signature" of the interleaving/config class that was observed */
void vrt_signature_add(const char *fmt, ...)
    __attribute__((format(printf, 1, 2)));
/* a sample (actual case) to be copied into evidence; at most a few are kept */
void vrt_sample(const char *fmt, ...) __attribute__((format(printf, 1, 2)));
void vrt_note(const char *key, const char *fmt, ...)
    __attribute__((format(printf, 2, 3)));

/* ---------- progress + logical deadlock detection ---------- */
enum { VRT_A_UNUSED = 0, VRT_A_RUNNING, VRT_A_BLOCKED, VRT_A_DONE };
#define VRT_MAX_ACTORS 4096
void vrt_progress(void);
int vrt_actor_new(const char *kind);
void vrt_actor_set(int id, int state, const char *what);
void vrt_actor_reset_all(void);
/* pools whose emptiness is part of the deadlock rule */
void vrt_watch_pools(ABT_pool *pools, int n);
/* optional harness callback: return 1 if some blocked actor's wake condition
 * does NOT hold (i.e. blocking is legitimate), then no deadlock is reported. */
void vrt_set_legit_block_cb(int (*cb)(void));
void vrt_supervisor_start(void);
void vrt_supervisor_stop(void);
void vrt_dump_actors(FILE *f);

/* A call that must return by itself (nothing it could wait for): if it has not
 * returned after a very generous real-time bound the supervisor reports a
 * violation with key "hang:call-did-not-return:<what>".  Only for calls made in
 * uncontended, single-threaded phases. */
void vrt_call_begin(const char *what);
void vrt_call_end(void);

/* ---------- delay injection at named runtime points ---------- */
/* profile: "off" | "uniform" | "hammer:<id>[,<id>...]" | "heavy" */
void vrt_delay_profile(const char *profile);
const char *vrt_delay_profile_name(void);
/* optional: called at every named runtime point while a delay profile is active */
extern void (*vrt_point_observer)(int id);

/* ---------- logical clock ---------- */
uint64_t vrt_ticket(void);
double vrt_wall(void); /* real CLOCK_MONOTONIC via raw syscall */

/* ---------- finish: print the JSON result line, return exit code ---------- */
/* scenario: short name; returns 0 (held), 1 (violated), 3 (inconclusive) */
int vrt_finish(const char *scenario);
void vrt_inconclusive(const char *why);

/* ---------- small helpers ---------- */
void vrt_sleep_us(unsigned us);
int vrt_ncpus(void);
void vrt_squeeze(int ncpus); /* pin the whole process to <ncpus> CPUs */

#endif
