/* C15: descriptors and stacks are exclusively owned, conserved; any stack size
 * works.
 *
 * mode=alloc  (white box): several ABTI_mem_pool_local_pool's (one per OS
 *   thread) over one global pool; random alloc / free / hand-over-to-another-
 *   thread.  Ledger: every block handed out is aligned, is not live already
 *   (concurrent address set), keeps the owner's byte pattern until it is freed
 *   (so no two live blocks overlap), is freed exactly once; after destroying
 *   the pools the allocation ledger (malloc/mmap wrappers) is back to where it
 *   started.
 * mode=stacks (API level): ULTs with default / arbitrary / user-supplied
 *   stacks of many sizes and alignments, created and freed from several streams
 *   and external threads.  Each ULT checks ABT_thread_get_stacksize >= request,
 *   writes its own pattern over its whole stack below the current frame,
 *   yields, and verifies it (another live ULT or descriptor inside that range
 *   would have destroyed it); guard patterns around user stacks stay intact;
 *   live descriptors are pairwise disjoint and outside every live stack; after
 *   ABT_finalize the ledger is balanced.
 * Memory-pool configuration comes from the environment (driver matrix). */
#define _GNU_SOURCE
#include "abti.h"
#include "vrt.h"
#include "allocwrap.h"
#include <unistd.h>
#include <sched.h>

static int c_cases, c_distinct, c_allocs, c_frees, c_handover, c_pattern_checks,
    c_ults, c_default_stack, c_odd_stack, c_user_stack, c_ext_created, c_cross_free,
    c_stack_bytes, c_desc_pairs, c_not64;

/* ======================================================================= */
/* mode=alloc */
#define AW_MAXT 8
#define AW_SET (1 << 18)
static uintptr_t g_set[AW_SET]; /* concurrent open-addressing set of live block addresses */

static int set_insert(uintptr_t a)
{
    size_t i = (size_t)(vrt_hash64(a) & (AW_SET - 1));
    for (int probe = 0; probe < AW_SET; probe++) {
        uintptr_t cur = __atomic_load_n(&g_set[i], __ATOMIC_ACQUIRE);
        if (cur == a)
            return 0; /* already live */
        if (cur == 0 || cur == 1) {
            uintptr_t exp = cur;
            if (__atomic_compare_exchange_n(&g_set[i], &exp, a, 0, __ATOMIC_ACQ_REL, __ATOMIC_ACQUIRE))
                return 1;
            if (exp == a)
                return 0;
            continue;
        }
        i = (i + 1) & (AW_SET - 1);
    }
    vrt_fatal("address set full");
}
static int set_remove(uintptr_t a)
{
    size_t i = (size_t)(vrt_hash64(a) & (AW_SET - 1));
    for (int probe = 0; probe < AW_SET; probe++) {
        uintptr_t cur = __atomic_load_n(&g_set[i], __ATOMIC_ACQUIRE);
        if (cur == a) {
            __atomic_store_n(&g_set[i], (uintptr_t)1, __ATOMIC_RELEASE); /* tombstone */
            return 1;
        }
        if (cur == 0)
            return 0;
        i = (i + 1) & (AW_SET - 1);
    }
    return 0;
}

typedef struct {
    void *p;
    uint64_t tag;
} blk_t;
typedef struct {
    int idx;
    pthread_t pt;
    vrt_rng rng;
    ABTI_mem_pool_local_pool local;
    blk_t *held;
    int nheld, cap;
    int ops;
    /* inbox for hand-over (single lock) */
    pthread_mutex_t lock;
    blk_t inbox[4096];
    int ninbox;
} aw_t;
static aw_t g_aw[AW_MAXT];
static int g_naw;
static ABTI_mem_pool_global_pool g_gp;
static size_t g_hsize, g_hoff;
static int g_done_workers;
static int g_conc_destroy, c_conc_destroy;
static pthread_barrier_t g_destroy_bar;
static void verify_epoch(vrt_rng *r, int n_per_pool);

static void fill(void *p, uint64_t tag)
{
    char *base = (char *)p - g_hoff;
    uint64_t *w = (uint64_t *)base;
    size_t n = g_hsize / 8;
    vrt_rng r = { tag };
    for (size_t i = 0; i < n; i++)
        w[i] = vrt_next(&r);
}
static int verify(void *p, uint64_t tag)
{
    char *base = (char *)p - g_hoff;
    uint64_t *w = (uint64_t *)base;
    size_t n = g_hsize / 8;
    vrt_rng r = { tag };
    for (size_t i = 0; i < n; i++)
        if (w[i] != vrt_next(&r))
            return 0;
    return 1;
}

static void aw_free_block(aw_t *w, blk_t b)
{
    vrt_count(c_pattern_checks, 1);
    if (!verify(b.p, b.tag)) {
        vrt_violation("mem:block-overwritten",
                      "a live block (%p, element size %zu) lost its owner's pattern: it overlaps "
                      "another live block or allocator metadata", b.p, g_hsize);
        return;
    }
    if (!set_remove((uintptr_t)b.p)) {
        vrt_violation("mem:ledger", "freeing %p which the ledger does not know as live", b.p);
        return;
    }
    ABTI_mem_pool_free(&w->local, b.p);
    vrt_count(c_frees, 1);
}

static void *aw_worker(void *arg)
{
    aw_t *w = (aw_t *)arg;
    for (int op = 0; op < w->ops && vrt_num_violations() == 0; op++) {
        /* take hand-overs */
        pthread_mutex_lock(&w->lock);
        while (w->ninbox > 0 && w->nheld < w->cap)
            w->held[w->nheld++] = w->inbox[--w->ninbox];
        pthread_mutex_unlock(&w->lock);
        unsigned k = (unsigned)vrt_range(&w->rng, 100);
        /* phases: grow, shrink, churn */
        int phase = (op / 400) % 3;
        unsigned alloc_pct = phase == 0 ? 75 : phase == 1 ? 25 : 50;
        if ((k < alloc_pct || w->nheld == 0) && w->nheld < w->cap) {
            void *p = NULL;
            int rc = ABTI_mem_pool_alloc(&w->local, &p);
            if (rc != ABT_SUCCESS || !p) {
                vrt_violation("mem:alloc-failed", "ABTI_mem_pool_alloc returned %d", rc);
                break;
            }
            if (((uintptr_t)p - g_hoff) % 8 != 0 || ((uintptr_t)p % ABT_CONFIG_STATIC_CACHELINE_SIZE) != 0) {
                vrt_violation("mem:misaligned-block", "block %p (offset %zu) is not cache-line aligned", p, g_hoff);
                break;
            }
            if (!set_insert((uintptr_t)p)) {
                vrt_violation("mem:block-handed-out-twice", "block %p was handed out while it is still live", p);
                break;
            }
            uint64_t tag = vrt_next(&w->rng) | 1;
            fill(p, tag);
            w->held[w->nheld].p = p;
            w->held[w->nheld].tag = tag;
            w->nheld++;
            vrt_count(c_allocs, 1);
        } else if (w->nheld > 0) {
            int i = (int)vrt_range(&w->rng, (uint64_t)w->nheld);
            blk_t b = w->held[i];
            w->held[i] = w->held[--w->nheld];
            if (vrt_range(&w->rng, 4) == 0 && g_naw > 1) {
                /* hand the block to another thread, which frees it into ITS local pool */
                aw_t *o = &g_aw[(w->idx + 1 + (int)vrt_range(&w->rng, (uint64_t)g_naw - 1)) % g_naw];
                int given = 0;
                pthread_mutex_lock(&o->lock);
                if (o->ninbox < 4096) {
                    o->inbox[o->ninbox++] = b;
                    given = 1;
                }
                pthread_mutex_unlock(&o->lock);
                if (given)
                    vrt_count(c_handover, 1);
                else
                    aw_free_block(w, b);
            } else {
                aw_free_block(w, b);
            }
        }
        if ((op & 1023) == 0)
            sched_yield();
    }
    __atomic_fetch_add(&g_done_workers, 1, __ATOMIC_SEQ_CST);
    /* keep draining the inbox until everybody is done */
    for (;;) {
        int done = __atomic_load_n(&g_done_workers, __ATOMIC_SEQ_CST) == g_naw;
        pthread_mutex_lock(&w->lock);
        int n = w->ninbox;
        blk_t tmp[64];
        int m = 0;
        while (w->ninbox > 0 && m < 64)
            tmp[m++] = w->inbox[--w->ninbox];
        pthread_mutex_unlock(&w->lock);
        for (int i = 0; i < m; i++)
            aw_free_block(w, tmp[i]);
        if (done && n == 0)
            break;
        if (m == 0)
            sched_yield();
    }
    while (w->nheld > 0 && vrt_num_violations() == 0)
        aw_free_block(w, w->held[--w->nheld]);
    if (g_conc_destroy) {
        /* all local pools are destroyed at the same moment, each by its own
         * thread (as concurrent ABT_xstream_free calls do) */
        pthread_barrier_wait(&g_destroy_bar);
        ABTI_mem_pool_destroy_local_pool(&w->local);
    }
    return NULL;
}

/* after concurrent destruction: what the global pool hands out must still be
 * pairwise distinct, keep its contents and be conserved */
static void verify_epoch(vrt_rng *r, int n_per_pool)
{
    enum { NP = 3 };
    ABTI_mem_pool_local_pool lp[NP];
    static blk_t blk[NP][4096];
    int nb[NP] = { 0, 0, 0 };
    if (n_per_pool > 4096)
        n_per_pool = 4096;
    for (int i = 0; i < NP; i++)
        if (ABTI_mem_pool_init_local_pool(&lp[i], &g_gp) != ABT_SUCCESS)
            vrt_fatal("init_local_pool failed");
    for (int k = 0; k < n_per_pool && vrt_num_violations() == 0; k++)
        for (int i = 0; i < NP; i++) {
            void *p = NULL;
            int rc = ABTI_mem_pool_alloc(&lp[i], &p);
            if (rc != ABT_SUCCESS || !p) {
                vrt_violation("mem:alloc-failed", "ABTI_mem_pool_alloc returned %d after the pools were destroyed concurrently", rc);
                break;
            }
            if (!set_insert((uintptr_t)p)) {
                vrt_violation("mem:block-handed-out-twice", "block %p was handed out twice after local pools had been "
                              "destroyed concurrently", p);
                break;
            }
            uint64_t tag = vrt_next(r) | 1;
            fill(p, tag);
            blk[i][nb[i]].p = p;
            blk[i][nb[i]].tag = tag;
            nb[i]++;
            vrt_count(c_allocs, 1);
        }
    for (int i = 0; i < NP; i++) {
        for (int k = 0; k < nb[i] && vrt_num_violations() == 0; k++) {
            if (!verify(blk[i][k].p, blk[i][k].tag))
                vrt_violation("mem:live-block-overwritten", "a live block lost its contents after local pools had been "
                              "destroyed concurrently");
            set_remove((uintptr_t)blk[i][k].p);
            ABTI_mem_pool_free(&lp[(i + k) % NP], blk[i][k].p);
            vrt_count(c_frees, 1);
        }
        vrt_count(c_pattern_checks, (uint64_t)nb[i]);
    }
    for (int i = 0; i < NP; i++)
        ABTI_mem_pool_destroy_local_pool(&lp[i]);
    vrt_count(c_conc_destroy, 1);
}

static void run_alloc(vrt_rng *r, int scen, int ops)
{
    static const size_t hsizes[] = { 64, 128, 192, 4096 + 64, 16384 + 384 + 64, 576 };
    static const size_t psizes[] = { 4096, 65536, 2 * 1024 * 1024, 8 * 1024 * 1024 };
    static const int buckets[] = { 1, 2, 8, 64, 512 };
    for (int s = 0; s < scen && vrt_num_violations() == 0; s++) {
        aw_ledger_t l0, l1;
        aw_ledger(&l0);
        g_hsize = hsizes[vrt_range(r, 6)];
        g_hoff = vrt_range(r, 2) ? 0 : (g_hsize > 256 ? g_hsize - 128 - 64 * vrt_range(r, 2) : 0);
        size_t psize = psizes[vrt_range(r, 4)];
        if (psize < g_hsize * 2 + 256)
            psize = 65536 * 8;
        int nb = buckets[vrt_range(r, 5)];
        ABTU_MEM_LARGEPAGE_TYPE types[3];
        int nt = 0;
        unsigned lp = (unsigned)vrt_range(r, 3);
        if (lp == 0)
            types[nt++] = ABTU_MEM_LARGEPAGE_MMAP;
        if (lp == 1)
            types[nt++] = ABTU_MEM_LARGEPAGE_MEMALIGN;
        types[nt++] = ABTU_MEM_LARGEPAGE_MALLOC;
        memset(g_set, 0, sizeof(g_set));
        ABTI_mem_pool_init_global_pool(&g_gp, (size_t)nb, g_hsize, g_hoff, psize, types, (uint32_t)nt,
                                       vrt_range(r, 2) ? 4096 : 64, NULL);
        g_naw = 1 + (int)vrt_range(r, AW_MAXT);
        g_done_workers = 0;
        int cap = 16 + (int)vrt_range(r, 3000);
        for (int i = 0; i < g_naw; i++) {
            aw_t *w = &g_aw[i];
            memset(w, 0, offsetof(aw_t, inbox));
            w->idx = i;
            w->ops = ops;
            w->cap = cap;
            w->held = (blk_t *)malloc(sizeof(blk_t) * (size_t)cap);
            pthread_mutex_init(&w->lock, NULL);
            w->ninbox = 0;
            vrt_rng_init(&w->rng, vrt_seed * 53 + (uint64_t)s, 10 + (uint64_t)i);
            if (ABTI_mem_pool_init_local_pool(&w->local, &g_gp) != ABT_SUCCESS)
                vrt_fatal("init_local_pool failed");
        }
        g_conc_destroy = g_naw >= 2 && vrt_range(r, 2);
        if (g_conc_destroy)
            pthread_barrier_init(&g_destroy_bar, NULL, (unsigned)g_naw);
        for (int i = 0; i < g_naw; i++)
            pthread_create(&g_aw[i].pt, NULL, aw_worker, &g_aw[i]);
        for (int i = 0; i < g_naw; i++)
            pthread_join(g_aw[i].pt, NULL);
        if (g_conc_destroy) {
            pthread_barrier_destroy(&g_destroy_bar);
            if (vrt_num_violations() == 0)
                verify_epoch(r, cap);
        }
        for (int i = 0; i < g_naw; i++) {
            if (!g_conc_destroy)
                ABTI_mem_pool_destroy_local_pool(&g_aw[i].local);
            free(g_aw[i].held);
            pthread_mutex_destroy(&g_aw[i].lock);
        }
        ABTI_mem_pool_destroy_global_pool(&g_gp);
        aw_ledger(&l1);
        if (vrt_num_violations() == 0) {
            VRT_CHECK(l1.live_heap == l0.live_heap && l1.live_mmap == l0.live_mmap, "mem:not-returned-at-destroy",
                      "after destroying the pools: %lld heap blocks and %lld mappings are still allocated",
                      (long long)(l1.live_heap - l0.live_heap), (long long)(l1.live_mmap - l0.live_mmap));
        }
        if (s < 3)
            vrt_sample("alloc scenario %d: element %zu B (header offset %zu), page %zu B, %d headers/bucket, %d "
                       "threads x %d ops, <=%d live blocks/thread", s, g_hsize, g_hoff, psize, nb, g_naw, ops, cap);
        vrt_signature_add("h%zu,o%zu,p%zu,b%d,t%d,lp%u,cd%d", g_hsize, g_hoff, psize, nb, g_naw, lp, g_conc_destroy);
        vrt_count(c_cases, 1);
    }
}

/* ======================================================================= */
/* mode=stacks */
#define SMAXU 96
typedef struct {
    int id;
    int kind;          /* 0 default, 1 sized (malloc), 2 user stack */
    size_t req;        /* requested stack size */
    char *ubuf;        /* user stack allocation (with guards) */
    char *ustack;      /* user stack start */
    size_t guard;
    ABT_thread th;
    ABT_thread self;
    int ran;           /* atomic */
    uintptr_t lo, hi;  /* stack range reported by the runtime */
    uintptr_t desc;    /* descriptor address (handle) */
    size_t reported;
    int creator_ext;
    size_t lowskip;    /* bytes at the bottom not touched (guard pages) */
} su_t;
static su_t g_su[SMAXU];
static int g_nsu;
static size_t g_pagesz;
static int g_guard_mode;

static __attribute__((noinline)) void touch_stack(su_t *u, volatile char *frame)
{
    /* everything from the bottom of the stack (above guard pages) up to a
     * safety margin below the current frame */
    uintptr_t lo = u->lo + u->lowskip;
    uintptr_t hi = (uintptr_t)frame - 1024 * (uintptr_t)vrt_san_scale;
    if (hi <= lo + 64)
        return;
    uint64_t *p = (uint64_t *)((lo + 7) & ~(uintptr_t)7);
    uint64_t *e = (uint64_t *)(hi & ~(uintptr_t)7);
    vrt_rng r = { 0x1234567 + (uint64_t)u->id * 7919 };
    for (uint64_t *q = p; q < e; q++)
        *q = vrt_next(&r);
    vrt_count(c_stack_bytes, (uint64_t)((char *)e - (char *)p));
}
static __attribute__((noinline)) int check_stack(su_t *u, volatile char *frame)
{
    uintptr_t lo = u->lo + u->lowskip;
    uintptr_t hi = (uintptr_t)frame - 1024 * (uintptr_t)vrt_san_scale;
    if (hi <= lo + 64)
        return 1;
    uint64_t *p = (uint64_t *)((lo + 7) & ~(uintptr_t)7);
    uint64_t *e = (uint64_t *)(hi & ~(uintptr_t)7);
    vrt_rng r = { 0x1234567 + (uint64_t)u->id * 7919 };
    for (uint64_t *q = p; q < e; q++)
        if (*q != vrt_next(&r))
            return 0;
    return 1;
}

static void stack_fn(void *arg)
{
    su_t *u = (su_t *)arg;
    volatile char frame[64];
    frame[0] = 1;
    VRT_ABT(ABT_self_get_thread(&u->self));
    size_t ss = 0;
    VRT_ABT(ABT_thread_get_stacksize(u->self, &ss));
    u->reported = ss;
    ABT_thread_attr at;
    void *addr = NULL;
    size_t asz = 0;
    VRT_ABT(ABT_thread_get_attr(u->self, &at));
    VRT_ABT(ABT_thread_attr_get_stack(at, &addr, &asz));
    VRT_ABT(ABT_thread_attr_free(&at));
    u->lo = (uintptr_t)addr;
    u->hi = (uintptr_t)addr + asz;
    u->desc = (uintptr_t)u->self;
    if (ss < u->req)
        vrt_violation("mem:stack-smaller-than-requested", "ULT %d: requested %zu bytes, ABT_thread_get_stacksize=%zu",
                      u->id, u->req, ss);
    uintptr_t sp = (uintptr_t)frame;
    if (!(sp > u->lo && sp <= u->hi))
        vrt_violation("mem:frame-outside-stack", "ULT %d runs at %p outside its reported stack [%p,%p)", u->id,
                      (void *)sp, (void *)u->lo, (void *)u->hi);
    if (u->kind == 2 && (u->lo != (uintptr_t)u->ustack || asz != u->req))
        vrt_violation("mem:user-stack-not-used", "ULT %d: user stack %p+%zu, runtime reports %p+%zu", u->id,
                      u->ustack, u->req, addr, asz);
    if (vrt_num_violations() == 0) {
        touch_stack(u, frame);
        ABT_thread_yield();
        if (!check_stack(u, frame))
            vrt_violation("mem:stack-overwritten",
                          "ULT %d (kind %d, %zu bytes): its stack contents changed while it was suspended: the "
                          "memory is shared with another live unit or with allocator metadata", u->id, u->kind, u->req);
        ABT_thread_yield();
        if (!check_stack(u, frame))
            vrt_violation("mem:stack-overwritten", "ULT %d: stack contents changed (second check)", u->id);
    }
    __atomic_store_n(&u->ran, 1, __ATOMIC_SEQ_CST);
}

typedef struct {
    int first, last;
    ABT_pool *pools;
    int npools;
    int ext;
} creator_t;

static void create_units(void *arg)
{
    creator_t *c = (creator_t *)arg;
    for (int i = c->first; i < c->last; i++) {
        su_t *u = &g_su[i];
        ABT_thread_attr at = ABT_THREAD_ATTR_NULL;
        if (u->kind == 1) {
            VRT_ABT(ABT_thread_attr_create(&at));
            VRT_ABT(ABT_thread_attr_set_stacksize(at, u->req));
        } else if (u->kind == 2) {
            VRT_ABT(ABT_thread_attr_create(&at));
            VRT_ABT(ABT_thread_attr_set_stack(at, u->ustack, u->req));
        }
        u->creator_ext = c->ext;
        int rc = ABT_thread_create(c->pools[i % c->npools], stack_fn, u, at, &u->th);
        if (rc != ABT_SUCCESS)
            vrt_violation("mem:create-failed", "ABT_thread_create(kind %d, stack %zu) returned %d", u->kind, u->req, rc);
        if (at != ABT_THREAD_ATTR_NULL)
            VRT_ABT(ABT_thread_attr_free(&at));
        if (c->ext)
            vrt_count(c_ext_created, 1);
    }
}
static void *create_units_pt(void *arg)
{
    create_units(arg);
    return NULL;
}
static void free_units(void *arg)
{
    creator_t *c = (creator_t *)arg;
    for (int i = c->first; i < c->last; i++) {
        su_t *u = &g_su[i];
        if (u->th == ABT_THREAD_NULL)
            continue;
        int rc = ABT_thread_free(&u->th);
        if (rc != ABT_SUCCESS)
            vrt_violation("mem:free-failed", "ABT_thread_free returned %d", rc);
        if (c->ext != u->creator_ext)
            vrt_count(c_cross_free, 1);
    }
}
static void *free_units_pt(void *arg)
{
    free_units(arg);
    return NULL;
}

static int c_tk_ext_free;
typedef struct {
    ABT_thread *th;
    int n;
} tkfree_t;
static void tk_fn(void *arg)
{
    __atomic_fetch_add((int *)arg, 1, __ATOMIC_SEQ_CST);
}
static void *tk_free_pt(void *arg)
{
    tkfree_t *t = (tkfree_t *)arg;
    for (int i = 0; i < t->n; i++) {
        int rc = ABT_thread_free(&t->th[i]);
        if (rc != ABT_SUCCESS)
            vrt_violation("mem:free-failed", "ABT_thread_free of a tasklet from an external thread returned %d", rc);
    }
    return NULL;
}
static size_t pick_size(vrt_rng *r, size_t minsz)
{
    static const int deltas[] = { 0, 1, 8, 63, 64, 4095, -1, -8, -63, 24, 40 };
    unsigned k = (unsigned)vrt_range(r, 10);
    size_t s;
    if (k < 7) {
        int sh = 12 + (int)vrt_range(r, vrt_range(r, 8) == 0 ? 13 : 8); /* 4 KiB .. 16 MiB (mostly <= 512 KiB) */
        s = ((size_t)1 << sh);
        int d = deltas[vrt_range(r, 11)];
        if (d < 0 && s <= minsz)
            d = -d;
        s = (size_t)((long)s + d);
    } else {
        s = minsz + (size_t)vrt_range(r, 200000);
    }
    if (s < minsz)
        s = minsz + (s & 63);
    return s;
}

static void run_stacks(vrt_rng *r, int scen)
{
    g_pagesz = (size_t)getpagesize();
    const char *gm = getenv("ABT_STACK_OVERFLOW_CHECK");
    g_guard_mode = gm && (!strcasecmp(gm, "mprotect") || !strcasecmp(gm, "mprotect_strict"));
    /* the body needs this much on top of what it touches */
    size_t minsz = 16384 * (size_t)vrt_san_scale;
    for (int s = 0; s < scen && vrt_num_violations() == 0; s++) {
        aw_ledger_t l0, l1;
        aw_ledger(&l0);
        VRT_ABT(ABT_init(0, NULL));
        int nes = 1 + (int)vrt_range(r, 4);
        ABT_xstream xs[4];
        ABT_pool pools[4];
        VRT_ABT(ABT_xstream_self(&xs[0]));
        VRT_ABT(ABT_xstream_get_main_pools(xs[0], 1, &pools[0]));
        for (int i = 1; i < nes; i++) {
            VRT_ABT(ABT_xstream_create(ABT_SCHED_NULL, &xs[i]));
            VRT_ABT(ABT_xstream_get_main_pools(xs[i], 1, &pools[i]));
        }
        g_nsu = 8 + (int)vrt_range(r, SMAXU - 8);
        memset(g_su, 0, sizeof(g_su));
        for (int i = 0; i < g_nsu; i++) {
            su_t *u = &g_su[i];
            u->id = i;
            u->kind = (int)vrt_range(r, 3);
            if (u->kind == 0) {
                size_t dss = 0;
                VRT_ABT(ABT_info_query_config(ABT_INFO_QUERY_KIND_DEFAULT_THREAD_STACKSIZE, &dss));
                u->req = dss;
                u->lowskip = g_guard_mode ? 2 * g_pagesz : 0;
                vrt_count(c_default_stack, 1);
            } else if (u->kind == 1) {
                u->req = pick_size(r, minsz + (g_guard_mode ? 2 * g_pagesz : 0));
                u->lowskip = g_guard_mode ? 2 * g_pagesz : 0;
                vrt_count(c_odd_stack, 1);
                if (u->req % 64)
                    vrt_count(c_not64, 1);
            } else {
                u->req = pick_size(r, minsz + (g_guard_mode ? 2 * g_pagesz : 0));
                if (u->req > (1u << 21))
                    u->req = (1u << 21) + (u->req & 4095);
                u->guard = 256;
                size_t off = 8 * (size_t)vrt_range(r, 8); /* every 8-byte alignment */
                u->ubuf = (char *)malloc(u->req + 2 * u->guard + 128);
                u->ustack = (char *)(((uintptr_t)u->ubuf + u->guard + 63) & ~(uintptr_t)63) + off;
                memset(u->ubuf, 0xA7, u->req + 2 * u->guard + 128);
                u->lowskip = g_guard_mode ? 2 * g_pagesz : 0;
                vrt_count(c_user_stack, 1);
                if (u->req % 64)
                    vrt_count(c_not64, 1);
            }
        }
        /* tasklet descriptors created on the streams and released by an
         * external thread go back to the descriptor pool, not anywhere else:
         * the ULTs created afterwards get proper stacks (checked below) */
        if (vrt_range(r, 2)) {
            int ntk = 40 + (int)vrt_range(r, 260);
            static ABT_thread tk[300];
            static int tk_ran;
            tk_ran = 0;
            for (int i = 0; i < ntk; i++)
                VRT_ABT(ABT_task_create(pools[i % nes], tk_fn, &tk_ran, &tk[i]));
            for (int i = 0; i < ntk; i++)
                VRT_ABT(ABT_thread_join(tk[i]));
            VRT_CHECK(tk_ran == ntk, "mem:tasklets-ran", "%d of %d tasklets ran", tk_ran, ntk);
            tkfree_t tf = { tk, ntk };
            pthread_t tp;
            pthread_create(&tp, NULL, tk_free_pt, &tf);
            pthread_join(tp, NULL);
            vrt_count(c_tk_ext_free, (uint64_t)ntk);
        }
        /* creators: primary ULT, ULTs on other streams, external threads */
        int ncre = 1 + (int)vrt_range(r, 4);
        creator_t cr[4];
        ABT_thread cth[4];
        pthread_t cpt[4];
        for (int c = 0; c < ncre; c++) {
            cr[c].first = g_nsu * c / ncre;
            cr[c].last = g_nsu * (c + 1) / ncre;
            cr[c].pools = pools;
            cr[c].npools = nes;
            cr[c].ext = c > 0 && vrt_range(r, 2);
        }
        for (int c = 1; c < ncre; c++) {
            if (cr[c].ext)
                pthread_create(&cpt[c], NULL, create_units_pt, &cr[c]);
            else
                VRT_ABT(ABT_thread_create(pools[c % nes], create_units, &cr[c], ABT_THREAD_ATTR_NULL, &cth[c]));
        }
        create_units(&cr[0]);
        for (int c = 1; c < ncre; c++) {
            if (cr[c].ext)
                pthread_join(cpt[c], NULL);
            else
                VRT_ABT(ABT_thread_free(&cth[c]));
        }
        /* wait until all ran (join without freeing) */
        for (int i = 0; i < g_nsu && vrt_num_violations() == 0; i++)
            if (g_su[i].th != ABT_THREAD_NULL)
                VRT_ABT(ABT_thread_join(g_su[i].th));
        /* all are terminated but still allocated: exclusive ownership of
         * descriptors and stacks */
        for (int i = 0; i < g_nsu && vrt_num_violations() == 0; i++) {
            su_t *a = &g_su[i];
            if (!a->ran) {
                vrt_violation("mem:unit-did-not-run", "ULT %d did not run", i);
                break;
            }
            for (int j = i + 1; j < g_nsu; j++) {
                su_t *b = &g_su[j];
                vrt_count(c_desc_pairs, 1);
                if (a->lo < b->hi && b->lo < a->hi) {
                    vrt_violation("mem:stacks-overlap", "stacks of ULT %d [%p,%p) and ULT %d [%p,%p) overlap", i,
                                  (void *)a->lo, (void *)a->hi, j, (void *)b->lo, (void *)b->hi);
                    break;
                }
                uintptr_t da = a->desc, db = b->desc;
                if ((da > db ? da - db : db - da) < sizeof(ABTI_ythread)) {
                    vrt_violation("mem:descriptors-overlap", "descriptors %p and %p overlap", (void *)da, (void *)db);
                    break;
                }
                if ((da + sizeof(ABTI_ythread) > b->lo && da < b->hi) ||
                    (db + sizeof(ABTI_ythread) > a->lo && db < a->hi)) {
                    vrt_violation("mem:descriptor-inside-stack", "a live descriptor lies inside another live ULT's stack");
                    break;
                }
            }
            if (a->kind == 2) {
                /* guard bytes around the user stack */
                int ok = 1;
                for (char *q = a->ubuf; q < a->ustack; q++)
                    if ((unsigned char)*q != 0xA7)
                        ok = 0;
                for (char *q = a->ustack + a->req; q < a->ubuf + a->req + 2 * a->guard + 128; q++)
                    if ((unsigned char)*q != 0xA7)
                        ok = 0;
                if (!ok)
                    vrt_violation("mem:user-stack-guard-damaged",
                                  "bytes outside the user-supplied stack [%p,+%zu) were modified", a->ustack, a->req);
            }
        }
        /* free from other contexts than the creator */
        if (vrt_num_violations() == 0) {
            for (int c = 0; c < ncre; c++)
                cr[c].ext = c > 0 && vrt_range(r, 2);
            for (int c = 1; c < ncre; c++) {
                if (cr[c].ext)
                    pthread_create(&cpt[c], NULL, free_units_pt, &cr[c]);
                else
                    VRT_ABT(ABT_thread_create(pools[(c + 1) % nes], free_units, &cr[c], ABT_THREAD_ATTR_NULL, &cth[c]));
            }
            free_units(&cr[0]);
            for (int c = 1; c < ncre; c++) {
                if (cr[c].ext)
                    pthread_join(cpt[c], NULL);
                else
                    VRT_ABT(ABT_thread_free(&cth[c]));
            }
        }
        for (int i = 0; i < g_nsu; i++)
            free(g_su[i].ubuf);
        if (vrt_num_violations())
            break;
        for (int i = 1; i < nes; i++) {
            VRT_ABT(ABT_xstream_join(xs[i]));
            VRT_ABT(ABT_xstream_free(&xs[i]));
        }
        VRT_ABT(ABT_finalize());
        aw_ledger(&l1);
        VRT_CHECK(l1.live_heap == l0.live_heap && l1.live_mmap == l0.live_mmap, "mem:not-released-at-finalize",
                  "after ABT_finalize %lld heap blocks and %lld mappings allocated since ABT_init are still there",
                  (long long)(l1.live_heap - l0.live_heap), (long long)(l1.live_mmap - l0.live_mmap));
        vrt_count(c_ults, (uint64_t)g_nsu);
        if (s < 3)
            vrt_sample("stacks scenario %d: %d streams, %d ULTs (default/sized/user stacks), %d creators, e.g. ULT 1: "
                       "kind %d size %zu; env MAX_NUM_STACKS=%s LP_ALLOC=%s OVERFLOW_CHECK=%s", s, nes, g_nsu, ncre,
                       g_su[1].kind, g_su[1].req, getenv("ABT_MEM_MAX_NUM_STACKS") ? getenv("ABT_MEM_MAX_NUM_STACKS") : "-",
                       getenv("ABT_MEM_LP_ALLOC") ? getenv("ABT_MEM_LP_ALLOC") : "-", gm ? gm : "-");
        vrt_signature_add("es%d,u%d,c%d", nes, g_nsu / 16, ncre);
        vrt_count(c_cases, 1);
    }
}

int main(int argc, char **argv)
{
    vrt_init(argc, argv, "h_mem");
    const char *mode = vrt_arg("mode", "alloc");
    c_cases = vrt_counter("cases");
    c_distinct = vrt_counter("distinct_nontrivial");
    c_allocs = vrt_counter("blocks_allocated");
    c_frees = vrt_counter("blocks_freed");
    c_handover = vrt_counter("blocks_freed_by_other_thread");
    c_conc_destroy = vrt_counter("concurrent_local_pool_destructions_verified");
    c_pattern_checks = vrt_counter("pattern_checks");
    c_ults = vrt_counter("ults");
    c_default_stack = vrt_counter("ults_default_stack");
    c_odd_stack = vrt_counter("ults_sized_stack");
    c_user_stack = vrt_counter("ults_user_stack");
    c_not64 = vrt_counter("stack_sizes_not_multiple_of_64");
    c_tk_ext_free = vrt_counter("tasklets_created_on_streams_freed_by_external_thread");
    c_ext_created = vrt_counter("ults_created_by_external_thread");
    c_cross_free = vrt_counter("ults_freed_by_other_kind_of_context");
    c_stack_bytes = vrt_counter("stack_bytes_written_and_verified");
    c_desc_pairs = vrt_counter("live_pairs_checked_disjoint");
    vrt_supervisor_start();
    vrt_rng r;
    vrt_rng_init(&r, vrt_seed, 43);
    if (!strcmp(mode, "alloc"))
        run_alloc(&r, (int)vrt_arg_int("scenarios", 8), (int)vrt_arg_int("ops", 20000));
    else
        run_stacks(&r, (int)vrt_arg_int("scenarios", 6));
    return vrt_finish(mode);
}
