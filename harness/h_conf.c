/* C20: configuration objects are exact maps; textual settings parse exactly and
 * safely.  Four modes, each compares the library with an independent reference:
 *   cfgmap   ABT_sched_config_* / ABT_pool_config_* op sequences vs. a
 *            reference map (negative, colliding, extreme keys; 3 value types)
 *   atoi     ABTU_atoi/atoui32/atoui64/atosz (white box) vs. a reference that
 *            decides on decimal digit strings (no machine arithmetic)
 *   env      numeric/boolean ABT_* / ABT_ENV_* variables -> effective values
 *            (white-box getters and ABTD_env_init on a scratch global) vs. the
 *            documented default/min/max/rounding rules; ABT_init + smoke
 *            workload for sane values
 *   affinity ABTD_affinity_list_create (white box) vs. a recursive-descent
 *            reference of the documented grammar: acceptance and expanded lists
 * ASan/UBSan builds watch the parsers for overflow and out-of-bounds accesses. */
#define _GNU_SOURCE
#include "abti.h"
#include "vrt.h"
#include <limits.h>
#include <unistd.h>

static int c_cases, c_distinct, c_cfg_ops, c_cfg_objs, c_atoi_exh, c_atoi_gen,
    c_atoi_overflow, c_atoi_invalid, c_env_cases, c_env_clamped, c_env_default,
    c_env_smoke, c_aff_accept, c_aff_reject, c_aff_exh, c_aff_ids, c_aff_toolarge;
static int c_env_invariants;

/* ======================================================================= */
/* cfgmap */
typedef struct {
    int key;
    int type; /* 0 int 1 double 2 ptr */
    int vi;
    double vd;
    void *vp;
    int used;
} ref_ent;
#define REFN 256
typedef struct {
    ref_ent e[REFN];
} ref_map;
static ref_ent *ref_find(ref_map *m, int key)
{
    for (int i = 0; i < REFN; i++)
        if (m->e[i].used && m->e[i].key == key)
            return &m->e[i];
    return NULL;
}
static void ref_set(ref_map *m, int key, int type, int vi, double vd, void *vp)
{
    ref_ent *e = ref_find(m, key);
    if (!e)
        for (int i = 0; i < REFN; i++)
            if (!m->e[i].used) {
                e = &m->e[i];
                break;
            }
    if (!e)
        vrt_fatal("reference map full");
    e->used = 1;
    e->key = key;
    e->type = type;
    e->vi = vi;
    e->vd = vd;
    e->vp = vp;
}
static void ref_del(ref_map *m, int key)
{
    ref_ent *e = ref_find(m, key);
    if (e)
        e->used = 0;
}
static int pick_key(vrt_rng *r)
{
    static const int keys[] = { -1000, -17, -16, -9, -8, -7, -4, -3, -2, -1, 0, 1, 2, 7,
                                8, 9, 15, 16, 17, 24, 32, 1000, INT_MIN, INT_MAX,
                                INT_MIN + 8, INT_MAX - 7, INT_MIN + 1, 40, 48, 56 };
    if (vrt_range(r, 6) == 0)
        return (int)vrt_next(r);
    return keys[vrt_range(r, sizeof(keys) / sizeof(keys[0]))];
}

static void check_get(int sched, void *cfg, ref_map *m, int key, const char *what)
{
    int ty = -1;
    union {
        int i;
        double d;
        void *p;
        char raw[16];
    } v;
    memset(&v, 0x5a, sizeof(v));
    int rc = sched ? ABT_sched_config_get((ABT_sched_config)cfg, key, (ABT_sched_config_type *)&ty, &v)
                   : ABT_pool_config_get((ABT_pool_config)cfg, key, (ABT_pool_config_type *)&ty, &v);
    ref_ent *e = ref_find(m, key);
    if (!e) {
        VRT_CHECK(rc != ABT_SUCCESS, "config:get-found-absent-key",
                  "%s: get(key=%d) succeeded but the key was never set/was deleted", what, key);
        return;
    }
    if (rc != ABT_SUCCESS) {
        vrt_violation("config:get-lost-key", "%s: get(key=%d) failed (%d) but the key is set", what, key, rc);
        return;
    }
    int ok = ty == e->type &&
             (e->type == 0 ? v.i == e->vi : e->type == 1 ? v.d == e->vd : v.p == e->vp);
    VRT_CHECK(ok, "config:get-wrong-value",
              "%s: get(key=%d) returned type %d (expected %d) or a wrong value", what, key, ty, e->type);
}

static void run_cfgmap(vrt_rng *r, int nobj, int nops)
{
    VRT_ABT(ABT_init(0, NULL));
    for (int o = 0; o < nobj && vrt_num_violations() == 0; o++) {
        int sched = (int)vrt_range(r, 2);
        static ref_map m;
        memset(&m, 0, sizeof(m));
        void *cfg = NULL;
        char what[64];
        snprintf(what, sizeof(what), "%s_config #%d", sched ? "sched" : "pool", o);
        if (sched) {
            ABT_sched_config sc;
            int pat = (int)vrt_range(r, 4);
            ABT_sched_config_var v1 = { .idx = pick_key(r), .type = ABT_SCHED_CONFIG_INT };
            ABT_sched_config_var v2 = { .idx = pick_key(r), .type = ABT_SCHED_CONFIG_DOUBLE };
            ABT_sched_config_var v3 = { .idx = pick_key(r), .type = ABT_SCHED_CONFIG_PTR };
            if (v1.idx == -1)
                v1.idx = 5;
            if (v2.idx == -1)
                v2.idx = 6;
            if (v3.idx == -1)
                v3.idx = 7;
            int i1 = (int)vrt_next(r);
            double d2 = (double)(int64_t)vrt_next(r) / 7.0;
            void *p3 = (void *)(uintptr_t)vrt_next(r);
            if (pat == 0) {
                VRT_ABT(ABT_sched_config_create(&sc, ABT_sched_config_var_end));
            } else if (pat == 1) {
                VRT_ABT(ABT_sched_config_create(&sc, v1, i1, ABT_sched_config_var_end));
                ref_set(&m, v1.idx, 0, i1, 0, NULL);
            } else if (pat == 2) {
                VRT_ABT(ABT_sched_config_create(&sc, v1, i1, v2, d2, ABT_sched_config_var_end));
                ref_set(&m, v1.idx, 0, i1, 0, NULL);
                ref_set(&m, v2.idx, 1, 0, d2, NULL);
            } else {
                VRT_ABT(ABT_sched_config_create(&sc, v1, i1, v2, d2, v3, p3, ABT_sched_config_var_end));
                ref_set(&m, v1.idx, 0, i1, 0, NULL);
                ref_set(&m, v2.idx, 1, 0, d2, NULL);
                ref_set(&m, v3.idx, 2, 0, 0, p3);
            }
            cfg = sc;
        } else {
            ABT_pool_config pc;
            VRT_ABT(ABT_pool_config_create(&pc));
            cfg = pc;
        }
        int recent[16], nrecent = 0;
        for (int i = 0; i < nops && vrt_num_violations() == 0; i++) {
            unsigned k = (unsigned)vrt_range(r, 100);
            int key = (nrecent && vrt_range(r, 2)) ? recent[vrt_range(r, (uint64_t)nrecent)] : pick_key(r);
            if (k < 45) {
                int ty = (int)vrt_range(r, 3);
                int vi = (int)vrt_next(r);
                double vd = (double)(int64_t)vrt_next(r) * 0.5;
                void *vp = (void *)(uintptr_t)vrt_next(r);
                const void *pv = ty == 0 ? (void *)&vi : ty == 1 ? (void *)&vd : (void *)&vp;
                int rc = sched ? ABT_sched_config_set((ABT_sched_config)cfg, key, (ABT_sched_config_type)ty, pv)
                               : ABT_pool_config_set((ABT_pool_config)cfg, key, (ABT_pool_config_type)ty, pv);
                VRT_CHECK(rc == ABT_SUCCESS, "config:set-rc", "%s: set(key=%d) returned %d", what, key, rc);
                ref_set(&m, key, ty, vi, vd, vp);
                recent[nrecent < 16 ? nrecent++ : (int)vrt_range(r, 16)] = key;
            } else if (k < 60) {
                int rc = sched ? ABT_sched_config_set((ABT_sched_config)cfg, key, ABT_SCHED_CONFIG_INT, NULL)
                               : ABT_pool_config_set((ABT_pool_config)cfg, key, ABT_POOL_CONFIG_INT, NULL);
                VRT_CHECK(rc == ABT_SUCCESS, "config:delete-rc", "%s: delete(key=%d) returned %d", what, key, rc);
                ref_del(&m, key);
            } else if (k < 95 || !sched) {
                check_get(sched, cfg, &m, key, what);
            } else {
                /* ABT_sched_config_read: indices 0..3 */
                union {
                    int i;
                    double d;
                    void *p;
                    char raw[16];
                } out[4];
                memset(out, 0x5a, sizeof(out));
                VRT_ABT(ABT_sched_config_read((ABT_sched_config)cfg, 4, &out[0], &out[1], &out[2], &out[3]));
                for (int j = 0; j < 4; j++) {
                    ref_ent *e = ref_find(&m, j);
                    int ok;
                    if (!e) {
                        char z[16];
                        memset(z, 0x5a, 16);
                        ok = !memcmp(out[j].raw, z, 16);
                    } else {
                        ok = e->type == 0 ? out[j].i == e->vi : e->type == 1 ? out[j].d == e->vd : out[j].p == e->vp;
                    }
                    VRT_CHECK(ok, "config:read-wrong", "%s: read() slot %d wrong (key %s)", what, j,
                              e ? "set" : "absent: output must stay untouched");
                }
            }
            vrt_count(c_cfg_ops, 1);
        }
        /* full sweep */
        for (int i = 0; i < REFN && vrt_num_violations() == 0; i++)
            if (m.e[i].used)
                check_get(sched, cfg, &m, m.e[i].key, what);
        if (sched) {
            ABT_sched_config sc = (ABT_sched_config)cfg;
            VRT_ABT(ABT_sched_config_free(&sc));
            VRT_CHECK(sc == ABT_SCHED_CONFIG_NULL, "config:free-handle", "handle not NULL after free");
        } else {
            ABT_pool_config pc = (ABT_pool_config)cfg;
            VRT_ABT(ABT_pool_config_free(&pc));
            VRT_CHECK(pc == ABT_POOL_CONFIG_NULL, "config:free-handle", "handle not NULL after free");
        }
        if (o < 2)
            vrt_sample("%s: %d random set/delete/get/read ops over keys incl. INT_MIN/INT_MAX/negatives/"
                       "multiples of 8", what, nops);
        vrt_count(c_cfg_objs, 1);
        vrt_count(c_cases, 1);
        vrt_count(c_distinct, 1);
    }
    VRT_ABT(ABT_finalize());
}

/* ======================================================================= */
/* reference integer parser on digit strings */
typedef struct {
    int valid;
    int negative;
    char digits[512]; /* without leading zeros; "0" for zero */
} refnum;

static void ref_parse(const char *s, refnum *o)
{
    memset(o, 0, sizeof(*o));
    while (*s == ' ' || *s == '\t' || *s == '\n' || *s == '\r')
        s++;
    int neg = 0;
    while (*s == '+' || *s == '-') {
        if (*s == '-')
            neg = !neg;
        s++;
    }
    if (!(*s >= '0' && *s <= '9'))
        return;
    while (*s == '0')
        s++;
    size_t n = 0;
    while (*s >= '0' && *s <= '9' && n < sizeof(o->digits) - 1)
        o->digits[n++] = *s++;
    if (n == 0)
        o->digits[n++] = '0';
    o->digits[n] = 0;
    o->valid = 1;
    o->negative = neg;
}
/* compare decimal strings without leading zeros */
static int dec_cmp(const char *a, const char *b)
{
    size_t la = strlen(a), lb = strlen(b);
    if (la != lb)
        return la < lb ? -1 : 1;
    return strcmp(a, b);
}
static uint64_t dec_to_u64(const char *a)
{
    uint64_t v = 0;
    for (; *a; a++)
        v = v * 10 + (uint64_t)(*a - '0');
    return v;
}
static int is_zero(const refnum *n)
{
    return !strcmp(n->digits, "0");
}

static void ref_atoi(const refnum *n, int *val, int *ovf)
{
    *ovf = 0;
    if (n->negative) {
        if (dec_cmp(n->digits, "2147483648") > 0) {
            *val = INT_MIN;
            *ovf = 1;
        } else {
            *val = (int)(-(int64_t)dec_to_u64(n->digits));
        }
    } else {
        if (dec_cmp(n->digits, "2147483647") > 0) {
            *val = INT_MAX;
            *ovf = 1;
        } else {
            *val = (int)dec_to_u64(n->digits);
        }
    }
}
static void ref_atou(const refnum *n, const char *maxs, uint64_t maxv, uint64_t *val, int *ovf)
{
    *ovf = 0;
    if (n->negative) {
        *val = 0;
        *ovf = !is_zero(n);
    } else if (dec_cmp(n->digits, maxs) > 0) {
        *val = maxv;
        *ovf = 1;
    } else {
        *val = dec_to_u64(n->digits);
    }
}

static void atoi_case(const char *s)
{
    refnum n;
    ref_parse(s, &n);
    int iv = 12345, ri;
    ABT_bool o1 = (ABT_bool)77;
    uint32_t u32 = 12345;
    uint64_t u64 = 12345;
    size_t sz = 12345;
    ABT_bool o2 = (ABT_bool)77, o3 = (ABT_bool)77, o4 = (ABT_bool)77;
    int r1 = ABTU_atoi(s, &iv, &o1);
    int r2 = ABTU_atoui32(s, &u32, &o2);
    int r3 = ABTU_atoui64(s, &u64, &o3);
    int r4 = ABTU_atosz(s, &sz, &o4);
    if (!n.valid) {
        vrt_count(c_atoi_invalid, 1);
        if (r1 == ABT_SUCCESS || r2 == ABT_SUCCESS || r3 == ABT_SUCCESS || r4 == ABT_SUCCESS)
            vrt_violation("atoi:accepted-non-number", "string \"%.60s\" has no integer but was parsed (%d %d %d %d)", s,
                          r1, r2, r3, r4);
        return;
    }
    if (r1 != ABT_SUCCESS || r2 != ABT_SUCCESS || r3 != ABT_SUCCESS || r4 != ABT_SUCCESS) {
        vrt_violation("atoi:rejected-number", "string \"%.60s\" holds an integer but parsing failed (%d %d %d %d)", s, r1,
                      r2, r3, r4);
        return;
    }
    int ovf;
    ref_atoi(&n, &ri, &ovf);
    if (iv != ri || (o1 == ABT_TRUE) != ovf)
        vrt_violation("atoi:int-value", "ABTU_atoi(\"%.60s\") = %d overflow=%d, reference %d overflow=%d", s, iv,
                      (int)o1, ri, ovf);
    uint64_t rv;
    ref_atou(&n, "4294967295", UINT32_MAX, &rv, &ovf);
    if (u32 != (uint32_t)rv || (o2 == ABT_TRUE) != ovf)
        vrt_violation("atoi:uint32-value", "ABTU_atoui32(\"%.60s\") = %u overflow=%d, reference %llu overflow=%d", s,
                      u32, (int)o2, (unsigned long long)rv, ovf);
    if (ovf)
        vrt_count(c_atoi_overflow, 1);
    ref_atou(&n, "18446744073709551615", UINT64_MAX, &rv, &ovf);
    if (u64 != rv || (o3 == ABT_TRUE) != ovf)
        vrt_violation("atoi:uint64-value", "ABTU_atoui64(\"%.60s\") = %llu overflow=%d, reference %llu overflow=%d", s,
                      (unsigned long long)u64, (int)o3, (unsigned long long)rv, ovf);
    if ((uint64_t)sz != rv || (o4 == ABT_TRUE) != ovf)
        vrt_violation("atoi:size-value", "ABTU_atosz(\"%.60s\") = %zu overflow=%d, reference %llu overflow=%d", s, sz,
                      (int)o4, (unsigned long long)rv, ovf);
}

static const char *LIMITS[] = { "2147483647", "2147483648", "4294967295", "4294967296", "9223372036854775807",
                                "9223372036854775808", "18446744073709551615", "18446744073709551616",
                                "1844674407370955161", "1073741823", "65535", "0", "9", "10" };

/* decimal string +/- 1 (string arithmetic, non-negative input) */
static void dec_add(const char *a, int delta, char *out)
{
    size_t l = strlen(a);
    char tmp[600];
    memcpy(tmp + 1, a, l + 1);
    tmp[0] = '0';
    int i = (int)l;
    if (delta > 0) {
        while (i >= 0) {
            if (tmp[i] == '9') {
                tmp[i] = '0';
                i--;
            } else {
                tmp[i]++;
                break;
            }
        }
    } else if (strcmp(a, "0")) {
        while (i >= 0) {
            if (tmp[i] == '0') {
                tmp[i] = '9';
                i--;
            } else {
                tmp[i]--;
                break;
            }
        }
    }
    char *p = tmp;
    while (*p == '0' && p[1])
        p++;
    strcpy(out, p);
}

static void gen_number_string(vrt_rng *r, char *out, size_t cap)
{
    static const char *pre[] = { "", " ", "\t\n", "+", "-", "--", "+-", "-+-", "  +", " -", "000", "-000", "+0" };
    static const char *suf[] = { "", " ", "a", "-", "+5", " 7", ".5", "e9", "\n", "x" };
    char core[600];
    unsigned k = (unsigned)vrt_range(r, 10);
    if (k < 5) {
        const char *l = LIMITS[vrt_range(r, sizeof(LIMITS) / sizeof(LIMITS[0]))];
        int d = (int)vrt_range(r, 3) - 1;
        dec_add(l, d, core);
        if (vrt_range(r, 6) == 0)
            strcat(core, "0"); /* x10 */
    } else if (k < 8) {
        int n = 1 + (int)vrt_range(r, vrt_range(r, 4) == 0 ? 400 : 24);
        for (int i = 0; i < n; i++)
            core[i] = (char)('0' + vrt_range(r, 10));
        core[n] = 0;
    } else {
        snprintf(core, sizeof(core), "%llu", (unsigned long long)(vrt_next(r) >> vrt_range(r, 64)));
    }
    snprintf(out, cap, "%s%s%s", pre[vrt_range(r, sizeof(pre) / sizeof(pre[0]))], core,
             suf[vrt_range(r, sizeof(suf) / sizeof(suf[0]))]);
}

static void run_atoi(vrt_rng *r, int exhaustive_len, long ngen)
{
    static const char alpha[] = { '0', '1', '9', '+', '-', ' ', '\t', 'a' };
    char s[16];
    /* all strings of length 0..exhaustive_len */
    uint64_t count = 0;
    for (int len = 0; len <= exhaustive_len; len++) {
        uint64_t total = 1;
        for (int i = 0; i < len; i++)
            total *= 8;
        for (uint64_t x = 0; x < total && vrt_num_violations() == 0; x++) {
            uint64_t y = x;
            for (int i = 0; i < len; i++) {
                s[i] = alpha[y & 7];
                y >>= 3;
            }
            s[len] = 0;
            atoi_case(s);
            count++;
        }
    }
    vrt_count(c_atoi_exh, count);
    char buf[1200];
    for (long i = 0; i < ngen && vrt_num_violations() == 0; i++) {
        gen_number_string(r, buf, sizeof(buf));
        atoi_case(buf);
        if (i < 3)
            vrt_sample("atoi case: \"%.80s\"", buf);
    }
    vrt_count(c_atoi_gen, (uint64_t)ngen);
    vrt_count(c_cases, count + (uint64_t)ngen);
    vrt_count(c_distinct, count + (uint64_t)ngen / 2);
}

/* ======================================================================= */
/* env */
static uint64_t pow2_up(uint64_t v)
{
    if (v == 0)
        return 0;
    uint64_t p = 1;
    while (p < v && p < ((uint64_t)1 << 63))
        p <<= 1;
    return p;
}
static uint64_t round_up(uint64_t v, uint64_t m)
{
    return (v + m - 1) / m * m;
}
/* expected unsigned env value: default if unset/unparsable, else saturating
 * parse clamped to [minv, maxv] */
static uint64_t env_expect_u(const char *str, uint64_t def, uint64_t minv, uint64_t maxv, const char *typemax,
                             uint64_t typemaxv, int *kind)
{
    uint64_t v = def;
    *kind = 0;
    if (str) {
        refnum n;
        ref_parse(str, &n);
        if (n.valid) {
            int ovf;
            ref_atou(&n, typemax, typemaxv, &v, &ovf);
            *kind = 1;
        }
    }
    if (v > maxv)
        v = maxv, *kind = 2;
    if (v < minv)
        v = minv, *kind = 2;
    return v;
}

typedef struct {
    const char *name;
    int type; /* 0 int, 1 u32, 2 u64, 3 size */
} envvar_t;
static const envvar_t ENVVARS[] = {
    { "MAX_NUM_XSTREAMS", 0 }, { "KEY_TABLE_SIZE", 1 },      { "SYS_PAGE_SIZE", 3 },
    { "THREAD_STACKSIZE", 3 }, { "SCHED_STACKSIZE", 3 },     { "SCHED_EVENT_FREQ", 1 },
    { "SCHED_SLEEP_NSEC", 2 }, { "MUTEX_MAX_HANDOVERS", 1 }, { "MUTEX_MAX_WAKEUPS", 1 },
    { "HUGE_PAGE_SIZE", 3 },   { "MEM_PAGE_SIZE", 3 },       { "MEM_MAX_NUM_STACKS", 1 },
    { "MEM_MAX_NUM_DESCS", 1 },
};
#define NENV (sizeof(ENVVARS) / sizeof(ENVVARS[0]))

static void clear_abt_env(void)
{
    char name[96];
    for (size_t i = 0; i < NENV; i++) {
        snprintf(name, sizeof(name), "ABT_%s", ENVVARS[i].name);
        unsetenv(name);
        snprintf(name, sizeof(name), "ABT_ENV_%s", ENVVARS[i].name);
        unsetenv(name);
    }
    unsetenv("ABT_USE_LOG");
    unsetenv("ABT_USE_DEBUG");
    unsetenv("ABT_PRINT_CONFIG");
    unsetenv("ABT_PRINT_RAW_STACK");
    unsetenv("ABT_ENV_PRINT_RAW_STACK");
    unsetenv("ABT_MEM_STACK_PAGE_SIZE");
    unsetenv("ABT_STACK_OVERFLOW_CHECK");
    unsetenv("ABT_MEM_LP_ALLOC");
}

static void smoke_fn(void *arg)
{
    int *p = (int *)arg;
    ABT_thread_yield();
    __atomic_fetch_add(p, 1, __ATOMIC_RELAXED);
}

static void env_case(vrt_rng *r, int idx)
{
    clear_abt_env();
    const envvar_t *ev = &ENVVARS[vrt_range(r, NENV)];
    char val[1200], name[96];
    unsigned k = (unsigned)vrt_range(r, 10);
    if (k == 0)
        snprintf(val, sizeof(val), "%s", (const char *[]){ "", "abc", "+", "-", " ", "0x10", "1e3" }[vrt_range(r, 7)]);
    else if (k < 4)
        snprintf(val, sizeof(val), "%s%llu", vrt_range(r, 5) == 0 ? "-" : "",
                 (unsigned long long)vrt_range(r, 1 + (vrt_next(r) >> vrt_range(r, 64))));
    else
        gen_number_string(r, val, sizeof(val));
    int use_alias = (int)vrt_range(r, 3) == 0;
    snprintf(name, sizeof(name), "%s%s", use_alias ? "ABT_ENV_" : "ABT_", ev->name);
    setenv(name, val, 1);
    if (!use_alias && vrt_range(r, 4) == 0) {
        /* the ABT_ prefix has priority over ABT_ENV_ */
        char alias[96];
        snprintf(alias, sizeof(alias), "ABT_ENV_%s", ev->name);
        setenv(alias, "777", 1);
    }
    const uint64_t I_MAX = INT_MAX / 2, U32_MAX = UINT32_MAX / 2, U64_MAX = UINT64_MAX / 2, SZ_MAX = SIZE_MAX / 2;
    static ABTI_global g;
    memset(&g, 0, sizeof(g));
    ABTD_env_init(&g);
    long ncores = sysconf(_SC_NPROCESSORS_ONLN);
    size_t pagesz = (size_t)getpagesize();
    int kind = 0;
    uint64_t exp = 0, got = 0;
    const char *n = ev->name;
    if (!strcmp(n, "MAX_NUM_XSTREAMS")) {
        /* signed int: negative values clamp to the minimum 1 */
        refnum rn;
        ref_parse(val, &rn);
        int64_t v = ncores;
        if (rn.valid) {
            int iv, ovf;
            ref_atoi(&rn, &iv, &ovf);
            v = iv;
            kind = 1;
        }
        if (v > (int64_t)I_MAX)
            v = (int64_t)I_MAX, kind = 2;
        if (v < 1)
            v = 1, kind = 2;
        exp = (uint64_t)v;
        got = (uint64_t)g.max_xstreams;
    } else if (!strcmp(n, "KEY_TABLE_SIZE")) {
        exp = pow2_up(env_expect_u(val, 4, 1, U32_MAX, "4294967295", UINT32_MAX, &kind));
        got = g.key_table_size;
    } else if (!strcmp(n, "SYS_PAGE_SIZE")) {
        exp = pow2_up(env_expect_u(val, pagesz, 64, SZ_MAX, "18446744073709551615", UINT64_MAX, &kind));
        got = g.sys_page_size;
    } else if (!strcmp(n, "THREAD_STACKSIZE")) {
        exp = round_up(env_expect_u(val, 16384, 512, SZ_MAX, "18446744073709551615", UINT64_MAX, &kind), 64);
        got = g.thread_stacksize;
    } else if (!strcmp(n, "SCHED_STACKSIZE")) {
        exp = round_up(env_expect_u(val, 4 * 1024 * 1024, 512, SZ_MAX, "18446744073709551615", UINT64_MAX, &kind), 64);
        got = g.sched_stacksize;
    } else if (!strcmp(n, "SCHED_EVENT_FREQ")) {
        exp = env_expect_u(val, 50, 1, U32_MAX, "4294967295", UINT32_MAX, &kind);
        got = g.sched_event_freq;
    } else if (!strcmp(n, "SCHED_SLEEP_NSEC")) {
        exp = env_expect_u(val, 100, 0, U64_MAX, "18446744073709551615", UINT64_MAX, &kind);
        got = g.sched_sleep_nsec;
    } else if (!strcmp(n, "MUTEX_MAX_HANDOVERS")) {
        exp = env_expect_u(val, 64, 1, U32_MAX, "4294967295", UINT32_MAX, &kind);
        got = g.mutex_max_handovers;
    } else if (!strcmp(n, "MUTEX_MAX_WAKEUPS")) {
        exp = env_expect_u(val, 1, 1, U32_MAX, "4294967295", UINT32_MAX, &kind);
        got = g.mutex_max_wakeups;
    } else if (!strcmp(n, "HUGE_PAGE_SIZE")) {
        exp = env_expect_u(val, 2 * 1024 * 1024, 4096, SZ_MAX, "18446744073709551615", UINT64_MAX, &kind);
        got = g.huge_page_size;
    } else if (!strcmp(n, "MEM_PAGE_SIZE")) {
        exp = pow2_up(round_up(env_expect_u(val, 2 * 1024 * 1024, 4096, SZ_MAX, "18446744073709551615", UINT64_MAX, &kind), 64));
        got = g.mem_page_size;
    } else if (!strcmp(n, "MEM_MAX_NUM_STACKS")) {
        uint64_t def = 64 * 1024 * 1024 / 16384;
        if (def > 1024)
            def = 1024;
        exp = round_up(env_expect_u(val, def, 2, U32_MAX, "4294967295", UINT32_MAX, &kind), 2);
        got = g.mem_max_stacks;
    } else {
        exp = round_up(env_expect_u(val, 4096, 2, U32_MAX, "4294967295", UINT32_MAX, &kind), 2);
        got = g.mem_max_descs;
    }
    vrt_count(kind == 0 ? c_env_default : kind == 2 ? c_env_clamped : c_env_cases, 1);
    if (exp != got) {
        char key[96];
        snprintf(key, sizeof(key), "env:%s-value", n);
        vrt_violation(key, "%s=\"%.80s\" -> effective %llu, documented rules give %llu", name, val,
                      (unsigned long long)got, (unsigned long long)exp);
    }
    /* whatever was set, every effective value (also the ones derived from other
     * settings, e.g. the default of MEM_MAX_NUM_STACKS from THREAD_STACKSIZE)
     * stays inside its documented range */
    {
        struct {
            const char *what;
            uint64_t v, lo;
        } inv[] = { { "mem_max_stacks", g.mem_max_stacks, 2 },       { "mem_max_descs", g.mem_max_descs, 2 },
                    { "thread_stacksize", g.thread_stacksize, 512 }, { "sched_stacksize", g.sched_stacksize, 512 },
                    { "max_xstreams", (uint64_t)g.max_xstreams, 1 }, { "key_table_size", g.key_table_size, 1 },
                    { "mem_page_size", g.mem_page_size, 4096 },      { "huge_page_size", g.huge_page_size, 4096 },
                    { "sched_event_freq", g.sched_event_freq, 1 } };
        for (size_t i = 0; i < sizeof(inv) / sizeof(inv[0]); i++)
            if (inv[i].v < inv[i].lo) {
                char key[96];
                snprintf(key, sizeof(key), "env:%s-below-minimum", inv[i].what);
                vrt_violation(key, "%s=\"%.80s\" -> effective %s = %llu, documented minimum %llu", name, val, inv[i].what,
                              (unsigned long long)inv[i].v, (unsigned long long)inv[i].lo);
            }
        vrt_count(c_env_invariants, 1);
    }
    if (idx < 4)
        vrt_sample("env case: %s=\"%.60s\" -> %llu", name, val, (unsigned long long)got);
    /* ABT_init + smoke workload when the effective values are of sane magnitude */
    int sane = g.thread_stacksize >= 16384 && g.thread_stacksize <= (1u << 20) && g.sched_stacksize >= (64u << 10) &&
               g.sched_stacksize <= (16u << 20) && g.mem_page_size <= (64u << 20) && g.huge_page_size <= (64u << 20) &&
               g.key_table_size <= 4096 && g.mem_max_stacks <= 65536 && g.mem_max_descs <= 65536 &&
               g.max_xstreams <= 4096 && g.sys_page_size <= (1u << 20) && g.sched_event_freq <= 100000 &&
               g.sched_sleep_nsec <= 1000000;
    if (sane && vrt_range(r, 3) == 0 && vrt_num_violations() == 0) {
        VRT_ABT(ABT_init(0, NULL));
        /* cross-check the public query interface where it exists */
        int mx = 0;
        VRT_ABT(ABT_info_query_config(ABT_INFO_QUERY_KIND_MAX_NUM_XSTREAMS, &mx));
        VRT_CHECK(mx == g.max_xstreams, "env:info-query", "info query max_num_xstreams %d != %d", mx, g.max_xstreams);
        size_t dss = 0;
        VRT_ABT(ABT_info_query_config(ABT_INFO_QUERY_KIND_DEFAULT_THREAD_STACKSIZE, &dss));
        VRT_CHECK(dss == g.thread_stacksize, "env:info-query", "info query thread stacksize %zu != %zu", dss,
                  g.thread_stacksize);
        ABT_xstream xs;
        ABT_pool pool;
        VRT_ABT(ABT_xstream_create(ABT_SCHED_NULL, &xs));
        VRT_ABT(ABT_xstream_get_main_pools(xs, 1, &pool));
        int done = 0;
        ABT_thread th[24];
        for (int i = 0; i < 24; i++)
            VRT_ABT(ABT_thread_create(pool, smoke_fn, &done, ABT_THREAD_ATTR_NULL, &th[i]));
        for (int i = 0; i < 24; i++)
            VRT_ABT(ABT_thread_free(&th[i]));
        VRT_CHECK(done == 24, "env:smoke-workload", "smoke workload ran %d of 24 units with %s=%s", done, name, val);
        VRT_ABT(ABT_xstream_join(xs));
        VRT_ABT(ABT_xstream_free(&xs));
        VRT_ABT(ABT_finalize());
        vrt_count(c_env_smoke, 1);
    }
    clear_abt_env();
}

static void env_bool_cases(void)
{
    static const struct {
        const char *s;
        int t; /* is_true incl "1" */
        int f; /* is_false incl "0" */
    } B[] = { { "1", 1, 0 },   { "0", 0, 1 },    { "y", 1, 0 },    { "Y", 1, 0 },   { "yes", 1, 0 }, { "YES", 1, 0 },
              { "true", 1, 0 }, { "on", 1, 0 },  { "n", 0, 1 },    { "No", 0, 1 },  { "false", 0, 1 },
              { "OFF", 0, 1 },  { "", 0, 0 },    { "2", 0, 0 },    { "maybe", 0, 0 }, { " 1", 0, 0 }, { "yess", 0, 0 } };
    for (size_t i = 0; i < sizeof(B) / sizeof(B[0]); i++) {
        clear_abt_env();
        setenv("ABT_PRINT_CONFIG", B[i].s, 1);     /* default false: true iff is_true */
        setenv("ABT_PRINT_RAW_STACK", B[i].s, 1);  /* default true: false iff is_false */
        ABT_bool pc = ABTD_env_get_print_config();
        static ABTI_global g;
        memset(&g, 0, sizeof(g));
        /* print_raw_stack is only reachable through ABTD_env_init */
        unsetenv("ABT_PRINT_CONFIG");
        ABTD_env_init(&g);
        VRT_CHECK((pc == ABT_TRUE) == B[i].t, "env:bool-default-false", "ABT_PRINT_CONFIG=\"%s\" -> %d", B[i].s, (int)pc);
        VRT_CHECK((g.print_raw_stack == ABT_FALSE) == B[i].f, "env:bool-default-true",
                  "ABT_PRINT_RAW_STACK=\"%s\" -> %d", B[i].s, (int)g.print_raw_stack);
        vrt_count(c_env_cases, 2);
    }
    clear_abt_env();
}

static void run_env(vrt_rng *r, int ncases)
{
    env_bool_cases();
    for (int i = 0; i < ncases && vrt_num_violations() == 0; i++)
        env_case(r, i);
    vrt_count(c_cases, (uint64_t)ncases);
    vrt_count(c_distinct, (uint64_t)ncases / 2);
}

/* ======================================================================= */
/* affinity: reference recursive descent */
#define AMAX_LISTS 4096
#define AMAX_IDS 200000
typedef struct {
    int nlists;
    int start[AMAX_LISTS + 1];
    int *ids;
    int nids;
    int toobig; /* a <num> >= 2^20 (implementation limit) or expansion too large for the reference */
} aff_ref;

typedef struct {
    const char *s;
    size_t i;
    int bad_int; /* an integer token did not fit in int */
} aps;

static void a_ws(aps *p)
{
    while (p->s[p->i] == ' ' || p->s[p->i] == '\t' || p->s[p->i] == '\r' || p->s[p->i] == '\n')
        p->i++;
}
/* integer token: optional run of signs directly followed by digits */
static int a_int(aps *p, int64_t *out)
{
    size_t save = p->i;
    a_ws(p);
    int neg = 0;
    while (p->s[p->i] == '+' || p->s[p->i] == '-') {
        if (p->s[p->i] == '-')
            neg = !neg;
        p->i++;
    }
    if (!(p->s[p->i] >= '0' && p->s[p->i] <= '9')) {
        p->i = save;
        return 0;
    }
    /* digits (decide the range on the string) */
    size_t d0 = p->i;
    while (p->s[p->i] >= '0' && p->s[p->i] <= '9')
        p->i++;
    size_t z = d0;
    while (z < p->i - 1 && p->s[z] == '0')
        z++;
    char buf[32];
    size_t len = p->i - z;
    if (len > 10) {
        p->bad_int = 1;
        *out = 0;
        return 1;
    }
    memcpy(buf, p->s + z, len);
    buf[len] = 0;
    uint64_t v = dec_to_u64(buf);
    if ((!neg && v > (uint64_t)INT_MAX) || (neg && v > (uint64_t)INT_MAX + 1)) {
        p->bad_int = 1;
        *out = 0;
        return 1;
    }
    *out = neg ? -(int64_t)v : (int64_t)v;
    return 1;
}
static int a_sym(aps *p, char c)
{
    size_t save = p->i;
    a_ws(p);
    if (p->s[p->i] == c) {
        if (c != 0)
            p->i++;
        return 1;
    }
    p->i = save;
    return 0;
}

/* returns 1 accept, 0 reject */
static int aff_reference(const char *s, aff_ref *R)
{
    aps p = { s, 0, 0 };
    R->nlists = 0;
    R->nids = 0;
    R->toobig = 0;
    for (;;) {
        /* <es-id-list> */
        int base_start = R->nids;
        int64_t v;
        if (a_int(&p, &v)) {
            if (R->nids >= AMAX_IDS) {
                R->toobig = 1; /* the reference's buffer is full: not judged */
                return 1;
            }
            R->ids[R->nids++] = (int)v;
        } else if (a_sym(&p, '{')) {
            for (;;) {
                int64_t id, num = 1, stride = 1;
                if (!a_int(&p, &id))
                    return 0;
                if (a_sym(&p, ':')) {
                    if (!a_int(&p, &num) || (!p.bad_int && num <= 0))
                        return 0;
                    if (a_sym(&p, ':'))
                        if (!a_int(&p, &stride))
                            return 0;
                }
                if (p.bad_int)
                    return 0;
                if (num >= 1024 * 1024 || R->nids + num > AMAX_IDS) {
                    R->toobig = 1;
                    return 1;
                }
                for (int64_t k = 0; k < num; k++)
                    R->ids[R->nids++] = (int)(uint32_t)((uint64_t)id + (uint64_t)stride * (uint64_t)k);
                if (a_sym(&p, ','))
                    continue;
                if (!a_sym(&p, '}'))
                    return 0;
                break;
            }
        } else {
            return 0;
        }
        if (p.bad_int)
            return 0;
        int base_n = R->nids - base_start;
        int64_t num = 1, stride = 1;
        if (a_sym(&p, ':')) {
            if (!a_int(&p, &num) || (!p.bad_int && num <= 0))
                return 0;
            if (a_sym(&p, ':'))
                if (!a_int(&p, &stride))
                    return 0;
        }
        if (p.bad_int)
            return 0;
        if (num >= 1024 * 1024 || R->nlists + num > AMAX_LISTS || R->nids + (num - 1) * base_n > AMAX_IDS) {
            R->toobig = 1;
            return 1;
        }
        R->start[R->nlists++] = base_start;
        for (int64_t k = 1; k < num; k++) {
            R->start[R->nlists++] = R->nids;
            for (int j = 0; j < base_n; j++)
                R->ids[R->nids++] =
                    (int)(uint32_t)((uint64_t)(int64_t)R->ids[base_start + j] + (uint64_t)stride * (uint64_t)k);
        }
        R->start[R->nlists] = R->nids;
        if (a_sym(&p, ','))
            continue;
        if (!a_sym(&p, '\0'))
            return 0;
        return 1;
    }
}

static aff_ref g_R;

static void aff_case(const char *s)
{
    int acc = aff_reference(s, &g_R);
    if (acc && g_R.toobig) {
        vrt_count(c_aff_toolarge, 1);
        return; /* legal but beyond what is safe to expand here: not judged */
    }
    ABTD_affinity_list *L = NULL;
    int rc = ABTD_affinity_list_create(s, &L);
    if (!acc) {
        vrt_count(c_aff_reject, 1);
        if (rc == ABT_SUCCESS) {
            vrt_violation("affinity:accepted-invalid", "string \"%.100s\" does not match the grammar but was accepted", s);
            ABTD_affinity_list_free(L);
        }
        return;
    }
    vrt_count(c_aff_accept, 1);
    if (rc != ABT_SUCCESS) {
        vrt_violation("affinity:rejected-valid", "string \"%.100s\" matches the grammar but was rejected (%d)", s, rc);
        return;
    }
    if ((int)L->num != g_R.nlists) {
        vrt_violation("affinity:list-count", "\"%.100s\": %u CPU-id lists, reference %d", s, L->num, g_R.nlists);
    } else {
        for (int i = 0; i < g_R.nlists && vrt_num_violations() == 0; i++) {
            int n = g_R.start[i + 1] - g_R.start[i];
            if ((int)L->p_id_lists[i]->num != n) {
                vrt_violation("affinity:id-count", "\"%.100s\": list %d has %u ids, reference %d", s, i,
                              L->p_id_lists[i]->num, n);
                break;
            }
            for (int j = 0; j < n; j++)
                if (L->p_id_lists[i]->ids[j] != g_R.ids[g_R.start[i] + j]) {
                    vrt_violation("affinity:id-value", "\"%.100s\": list %d id %d is %d, reference %d", s, i, j,
                                  L->p_id_lists[i]->ids[j], g_R.ids[g_R.start[i] + j]);
                    break;
                }
            vrt_count(c_aff_ids, (uint64_t)n);
        }
    }
    ABTD_affinity_list_free(L);
}

/* grammar-based generator */
static size_t g_int(vrt_rng *r, char *o, int positive_small)
{
    size_t n = 0;
    unsigned k = (unsigned)vrt_range(r, 12);
    if (vrt_range(r, 4) == 0)
        o[n++] = ' ';
    if (positive_small) {
        if (vrt_range(r, 5) == 0)
            o[n++] = '+';
        n += (size_t)sprintf(o + n, "%d", 1 + (int)vrt_range(r, vrt_range(r, 4) ? 6 : 40));
        return n;
    }
    if (k < 2)
        o[n++] = '-';
    else if (k == 2)
        o[n++] = '+';
    else if (k == 3) {
        o[n++] = '-';
        o[n++] = '-';
    } else if (k == 4) {
        o[n++] = '+';
        o[n++] = '-';
    }
    if (k == 11) {
        static const char *big[] = { "2147483647", "2147483648", "2147483646", "4294967296", "99999999999",
                                     "000000000012", "1000000000", "2000000000" };
        n += (size_t)sprintf(o + n, "%s", big[vrt_range(r, 8)]);
    } else {
        n += (size_t)sprintf(o + n, "%d", (int)vrt_range(r, vrt_range(r, 3) ? 16 : 3000));
    }
    return n;
}
static void gen_affinity(vrt_rng *r, char *o, size_t cap)
{
    size_t n = 0;
    int nint = 1 + (int)vrt_range(r, 4);
    for (int a = 0; a < nint && n + 200 < cap; a++) {
        if (a)
            o[n++] = ',';
        if (vrt_range(r, 2)) {
            n += g_int(r, o + n, 0);
        } else {
            o[n++] = '{';
            int nid = 1 + (int)vrt_range(r, 3);
            for (int b = 0; b < nid; b++) {
                if (b)
                    o[n++] = ',';
                n += g_int(r, o + n, 0);
                if (vrt_range(r, 2)) {
                    o[n++] = ':';
                    n += g_int(r, o + n, 1);
                    if (vrt_range(r, 2)) {
                        o[n++] = ':';
                        n += g_int(r, o + n, 0);
                    }
                }
            }
            if (vrt_range(r, 5) == 0)
                o[n++] = ' ';
            o[n++] = '}';
        }
        if (vrt_range(r, 2)) {
            o[n++] = ':';
            n += g_int(r, o + n, 1);
            if (vrt_range(r, 2)) {
                o[n++] = ':';
                n += g_int(r, o + n, 0);
            }
        }
    }
    o[n] = 0;
}
static void mutate(vrt_rng *r, char *s)
{
    static const char alpha[] = "019-+ {}:,";
    size_t l = strlen(s);
    unsigned k = (unsigned)vrt_range(r, 4);
    if (l == 0)
        return;
    size_t pos = (size_t)vrt_range(r, l);
    if (k == 0) { /* delete */
        memmove(s + pos, s + pos + 1, l - pos);
    } else if (k == 1) { /* replace */
        s[pos] = alpha[vrt_range(r, 10)];
    } else if (k == 2) { /* insert */
        memmove(s + pos + 1, s + pos, l - pos + 1);
        s[pos] = alpha[vrt_range(r, 10)];
    } else { /* truncate */
        s[pos] = 0;
    }
}

static void run_affinity(vrt_rng *r, int exhaustive_len, long ngen)
{
    g_R.ids = (int *)malloc(sizeof(int) * (AMAX_IDS + 16));
    static const char alpha[] = { '0', '1', '9', '-', '+', ' ', '{', '}', ':', ',' };
    char s[16];
    uint64_t count = 0;
    for (int len = 0; len <= exhaustive_len; len++) {
        uint64_t total = 1;
        for (int i = 0; i < len; i++)
            total *= 10;
        for (uint64_t x = 0; x < total && vrt_num_violations() == 0; x++) {
            uint64_t y = x;
            for (int i = 0; i < len; i++) {
                s[i] = alpha[y % 10];
                y /= 10;
            }
            s[len] = 0;
            aff_case(s);
            count++;
        }
    }
    vrt_count(c_aff_exh, count);
    char buf[2048];
    for (long i = 0; i < ngen && vrt_num_violations() == 0; i++) {
        gen_affinity(r, buf, sizeof(buf) - 8);
        unsigned m = (unsigned)vrt_range(r, 4);
        if (m >= 2)
            mutate(r, buf);
        if (m == 3)
            mutate(r, buf);
        aff_case(buf);
        if (i < 3)
            vrt_sample("affinity case: \"%.100s\" -> %s", buf, aff_reference(buf, &g_R) ? "valid" : "invalid");
    }
    /* NULL string */
    ABTD_affinity_list *L = NULL;
    VRT_CHECK(ABTD_affinity_list_create(NULL, &L) != ABT_SUCCESS, "affinity:null-accepted", "NULL string accepted");
    vrt_count(c_cases, count + (uint64_t)ngen);
    vrt_count(c_distinct, count + (uint64_t)ngen / 2);
    free(g_R.ids);
}

int main(int argc, char **argv)
{
    vrt_init(argc, argv, "h_conf");
    const char *mode = vrt_arg("mode", "atoi");
    c_cases = vrt_counter("cases");
    c_distinct = vrt_counter("distinct_nontrivial");
    c_cfg_ops = vrt_counter("config_ops");
    c_cfg_objs = vrt_counter("config_objects");
    c_atoi_exh = vrt_counter("atoi_exhaustive_strings");
    c_atoi_gen = vrt_counter("atoi_generated_strings");
    c_atoi_overflow = vrt_counter("atoi_saturated");
    c_atoi_invalid = vrt_counter("atoi_non_numbers");
    c_env_cases = vrt_counter("env_values_in_range");
    c_env_clamped = vrt_counter("env_values_clamped");
    c_env_default = vrt_counter("env_unparsable_default");
    c_env_smoke = vrt_counter("env_smoke_workloads");
    c_env_invariants = vrt_counter("env_cases_with_all_effective_values_range_checked");
    c_aff_accept = vrt_counter("affinity_valid");
    c_aff_reject = vrt_counter("affinity_invalid");
    c_aff_exh = vrt_counter("affinity_exhaustive_strings");
    c_aff_ids = vrt_counter("affinity_ids_compared");
    c_aff_toolarge = vrt_counter("affinity_not_judged_too_large");
    vrt_rng r;
    vrt_rng_init(&r, vrt_seed, 29);
    vrt_supervisor_start();
    if (!strcmp(mode, "cfgmap"))
        run_cfgmap(&r, (int)vrt_arg_int("objects", 100), (int)vrt_arg_int("ops", 200));
    else if (!strcmp(mode, "atoi"))
        run_atoi(&r, (int)vrt_arg_int("exhaustive-len", 5), vrt_arg_int("generated", 200000));
    else if (!strcmp(mode, "env"))
        run_env(&r, (int)vrt_arg_int("cases", 300));
    else if (!strcmp(mode, "affinity"))
        run_affinity(&r, (int)vrt_arg_int("exhaustive-len", 5), vrt_arg_int("generated", 200000));
    else
        vrt_fatal("unknown mode %s", mode);
    return vrt_finish(mode);
}
