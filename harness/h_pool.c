/* C07 (+ pool part of C19): built-in pools are linearizable queues.
 *
 * Tokens are named tasklets that are never scheduled during a history; every
 * push of a token is a unique instance (token id, generation).  Workers are OS
 * threads (as many producers/consumers as the access mode permits) calling the
 * pool API directly; every call is logged with call/return tickets from one
 * global atomic counter.  After each history the log is checked offline:
 *   fresh   : a unit leaving the pool was pushed, and the push began before the
 *             pop returned
 *   repeat  : every push instance leaves at most once
 *   loss    : pushed - left == remaining (drained and compared)
 *   order   : FIFO pools: no a,b with push(a) wholly before push(b) and
 *             pop(b) wholly before pop(a) (batches ordered by index)
 *   empty   : a pop returning nothing is wrong only if some instance was inside
 *             the pool during the whole call
 *   size    : get_size/is_empty exact at quiescent points
 * plus a sequential phase where every pop is compared with a reference deque
 * (FIFO: tail-push/head-pop; RANDWS: ends chosen by the context flags).
 * All conditions only flag true non-linearizability. */
#define _GNU_SOURCE
#include "vrt.h"
#include <unistd.h>

#define MAXTOK 64
#define MAXW 16
#define MAXEV 6000
#define MAXB 6

enum { OP_PUSH = 1, OP_PUSH_MANY, OP_POP, OP_POP_MANY, OP_POP_WAIT, OP_POP_TIMEDWAIT, OP_REMOVE };
static const char *opn[] = { "?", "push", "push_many", "pop", "pop_many", "pop_wait", "pop_timedwait", "remove" };

typedef struct {
    ABT_thread th;
    int id;
    uint32_t gen; /* owned by whoever holds the token */
    int executed;
} tok_t;

typedef struct {
    uint8_t op;
    int8_t n;      /* number of tokens involved (0 = empty pop / failed remove) */
    uint8_t worker;
    uint8_t flag;  /* push: 1 = head-context; pop: 1 = secondary(tail) */
    uint64_t t_call, t_ret;
    int16_t ids[MAXB];
    uint32_t gens[MAXB];
} ev_t;

typedef struct {
    int idx;
    int producer;
    pthread_t pt;
    vrt_rng rng;
    ev_t *ev;
    int nev;
    int ops;
    tok_t *hand[MAXTOK];
    int nhand;
} worker_t;

static ABT_pool g_pool;
static int g_kind, g_access;
static tok_t g_tok[MAXTOK];
static int g_ntok;
static worker_t g_w[MAXW];
static int g_nw;
static pthread_mutex_t g_free_lock = PTHREAD_MUTEX_INITIALIZER;
static tok_t *g_free[MAXTOK];
static int g_nfree;
static int g_producers_left;
static int g_allow_remove, g_allow_wait;

static int c_hist, c_ops, c_push, c_pop_ok, c_pop_empty, c_remove_ok, c_remove_fail,
    c_popwait_ok, c_popwait_empty, c_many, c_seq_ops, c_cases, c_size_checks,
    c_order_pairs, c_empty_judged, c_by_kind[3], c_by_access[5], c_wait_empty_ret;

static void tok_fn(void *arg)
{
    tok_t *t = (tok_t *)arg;
    __atomic_fetch_add(&t->executed, 1, __ATOMIC_RELAXED);
}

static tok_t *tok_of(ABT_thread th)
{
    void *arg = NULL;
    if (ABT_thread_get_arg(th, &arg) != ABT_SUCCESS || !arg)
        return NULL;
    tok_t *t = (tok_t *)arg;
    if (t < g_tok || t >= g_tok + MAXTOK)
        return NULL;
    return t;
}

static void free_put(tok_t *t)
{
    pthread_mutex_lock(&g_free_lock);
    g_free[g_nfree++] = t;
    pthread_mutex_unlock(&g_free_lock);
}
static tok_t *free_get(void)
{
    tok_t *t = NULL;
    pthread_mutex_lock(&g_free_lock);
    if (g_nfree > 0)
        t = g_free[--g_nfree];
    pthread_mutex_unlock(&g_free_lock);
    return t;
}

static ev_t *ev_begin(worker_t *w, int op, int flag)
{
    if (w->nev >= MAXEV)
        vrt_fatal("event log overflow");
    ev_t *e = &w->ev[w->nev];
    memset(e, 0, sizeof(*e));
    e->op = (uint8_t)op;
    e->worker = (uint8_t)w->idx;
    e->flag = (uint8_t)flag;
    return e;
}
static void ev_commit(worker_t *w, ev_t *e)
{
    e->t_ret = vrt_ticket();
    w->nev++;
    vrt_progress();
}

static void leave_tok(ev_t *e, ABT_thread th)
{
    tok_t *t = tok_of(th);
    if (!t) {
        vrt_violation("pool:popped-unknown-unit",
                      "%s returned a handle that is not one of the tokens", opn[e->op]);
        return;
    }
    if (e->n < MAXB) {
        e->ids[e->n] = (int16_t)t->id;
        e->gens[e->n] = t->gen;
    }
    e->n++;
}

static const ABT_pool_context push_head_ctx[] = { ABT_POOL_CONTEXT_OP_THREAD_CREATE,
                                                  ABT_POOL_CONTEXT_OP_THREAD_REVIVE,
                                                  ABT_POOL_CONTEXT_OP_THREAD_CREATE_TO };
static const ABT_pool_context push_tail_ctx[] = { ABT_POOL_CONTEXT_OP_POOL_OTHER,
                                                  ABT_POOL_CONTEXT_OP_THREAD_YIELD,
                                                  ABT_POOL_CONTEXT_OP_THREAD_RESUME };

static void do_push(worker_t *w, int many)
{
    int k = many ? 1 + (int)vrt_range(&w->rng, MAXB) : 1;
    if (k > w->nhand)
        k = w->nhand;
    if (k <= 0)
        return;
    int head = g_kind == ABT_POOL_RANDWS && vrt_range(&w->rng, 3) == 0;
    ABT_pool_context ctx = head ? push_head_ctx[vrt_range(&w->rng, 3)]
                                : push_tail_ctx[vrt_range(&w->rng, 3)];
    ev_t *e = ev_begin(w, many ? OP_PUSH_MANY : OP_PUSH, head);
    ABT_thread ths[MAXB];
    for (int i = 0; i < k; i++) {
        tok_t *t = w->hand[--w->nhand];
        t->gen++;
        e->ids[i] = (int16_t)t->id;
        e->gens[i] = t->gen;
        ths[i] = t->th;
    }
    e->n = (int8_t)k;
    e->t_call = vrt_ticket();
    int rc;
    if (many) {
        rc = vrt_range(&w->rng, 2) ? ABT_pool_push_threads_ex(g_pool, ths, (size_t)k, ctx)
                                   : (ctx == ABT_POOL_CONTEXT_OP_POOL_OTHER
                                          ? ABT_pool_push_threads(g_pool, ths, (size_t)k)
                                          : ABT_pool_push_threads_ex(g_pool, ths, (size_t)k, ctx));
        vrt_count(c_many, 1);
    } else {
        if (ctx == ABT_POOL_CONTEXT_OP_POOL_OTHER && vrt_range(&w->rng, 2))
            rc = ABT_pool_push_thread(g_pool, ths[0]);
        else
            rc = ABT_pool_push_thread_ex(g_pool, ths[0], ctx);
    }
    ev_commit(w, e);
    if (rc != ABT_SUCCESS)
        vrt_violation("pool:push-rc", "%s returned %d", opn[e->op], rc);
    vrt_count(c_push, (uint64_t)k);
}

static void do_consume(worker_t *w)
{
    unsigned r = (unsigned)vrt_range(&w->rng, 100);
    int tail = g_kind == ABT_POOL_RANDWS && vrt_range(&w->rng, 3) == 0;
    ABT_pool_context ctx = tail ? ABT_POOL_CONTEXT_OWNER_SECONDARY
                                : (vrt_range(&w->rng, 2) ? ABT_POOL_CONTEXT_OWNER_PRIMARY
                                                         : ABT_POOL_CONTEXT_OP_POOL_OTHER);
    if (r < 45) {
        ev_t *e = ev_begin(w, OP_POP, tail);
        ABT_thread th = ABT_THREAD_NULL;
        e->t_call = vrt_ticket();
        int rc = ABT_pool_pop_thread_ex(g_pool, &th, ctx);
        if (rc != ABT_SUCCESS)
            vrt_violation("pool:pop-rc", "pop returned %d", rc);
        if (th != ABT_THREAD_NULL)
            leave_tok(e, th);
        ev_commit(w, e);
        if (th != ABT_THREAD_NULL) {
            free_put(tok_of(th));
            vrt_count(c_pop_ok, 1);
        } else {
            vrt_count(c_pop_empty, 1);
        }
    } else if (r < 60) {
        ev_t *e = ev_begin(w, OP_POP_MANY, tail);
        ABT_thread ths[MAXB];
        size_t num = 0;
        size_t want = 1 + (size_t)vrt_range(&w->rng, MAXB);
        e->t_call = vrt_ticket();
        int rc = ABT_pool_pop_threads_ex(g_pool, ths, want, &num, ctx);
        if (rc != ABT_SUCCESS)
            vrt_violation("pool:pop-many-rc", "pop_threads returned %d", rc);
        if (num > want)
            vrt_violation("pool:pop-many-count", "popped %zu > requested %zu", num, want);
        for (size_t i = 0; i < num && i < MAXB; i++)
            leave_tok(e, ths[i]);
        ev_commit(w, e);
        for (size_t i = 0; i < num && i < MAXB; i++)
            if (tok_of(ths[i]))
                free_put(tok_of(ths[i]));
        vrt_count(c_many, 1);
        vrt_count(num ? c_pop_ok : c_pop_empty, num ? num : 1);
    } else if (r < 75 && g_allow_wait) {
        int timed = (int)vrt_range(&w->rng, 2);
        ev_t *e = ev_begin(w, timed ? OP_POP_TIMEDWAIT : OP_POP_WAIT, 0);
        ABT_thread th = ABT_THREAD_NULL;
        ABT_unit unit = ABT_UNIT_NULL;
        double secs = 0.00002 + (double)vrt_range(&w->rng, 300) * 1e-6;
        e->t_call = vrt_ticket();
        int rc;
        if (timed) {
            rc = ABT_pool_pop_timedwait(g_pool, &unit, ABT_get_wtime() + secs);
            if (rc == ABT_SUCCESS && unit != ABT_UNIT_NULL)
                rc = ABT_unit_get_thread(unit, &th);
        } else {
            rc = vrt_range(&w->rng, 2) ? ABT_pool_pop_wait_thread(g_pool, &th, secs)
                                       : ABT_pool_pop_wait_thread_ex(g_pool, &th, secs, ctx & ~ABT_POOL_CONTEXT_OWNER_SECONDARY);
        }
        if (rc != ABT_SUCCESS)
            vrt_violation("pool:pop-wait-rc", "%s returned %d", opn[e->op], rc);
        if (th != ABT_THREAD_NULL)
            leave_tok(e, th);
        ev_commit(w, e);
        if (th != ABT_THREAD_NULL) {
            free_put(tok_of(th));
            vrt_count(c_popwait_ok, 1);
        } else {
            vrt_count(c_popwait_empty, 1);
        }
    } else if (r < 85 && g_allow_remove) {
        tok_t *t = &g_tok[vrt_range(&w->rng, (uint64_t)g_ntok)];
        ABT_unit unit = ABT_UNIT_NULL;
        if (ABT_thread_get_unit(t->th, &unit) != ABT_SUCCESS || unit == ABT_UNIT_NULL)
            return;
        ev_t *e = ev_begin(w, OP_REMOVE, 0);
        e->t_call = vrt_ticket();
        int rc = ABT_pool_remove(g_pool, unit);
        if (rc == ABT_SUCCESS) {
            e->ids[0] = (int16_t)t->id;
            e->gens[0] = t->gen; /* we own it now */
            e->n = 1;
        }
        ev_commit(w, e);
        if (rc == ABT_SUCCESS) {
            free_put(t);
            vrt_count(c_remove_ok, 1);
        } else {
            vrt_count(c_remove_fail, 1);
        }
    } else {
        /* racy queries: only sanity (no crash, plausible range) */
        size_t sz = 0;
        ABT_bool emp;
        if (ABT_pool_get_size(g_pool, &sz) != ABT_SUCCESS || sz > (size_t)g_ntok)
            vrt_violation("pool:size-out-of-range", "get_size=%zu with %d tokens", sz, g_ntok);
        ABT_pool_is_empty(g_pool, &emp);
    }
}

static void *worker_main(void *arg)
{
    worker_t *w = (worker_t *)arg;
    int both = g_access == ABT_POOL_ACCESS_PRIV;
    if (w->producer || both) {
        int done = 0;
        int starve = 0;
        while (done < w->ops && vrt_num_violations() == 0) {
            if (w->nhand == 0) {
                tok_t *t = free_get();
                if (t)
                    w->hand[w->nhand++] = t;
            }
            if (w->nhand == 0) {
                if (both) {
                    do_consume(w);
                    done++;
                    continue;
                }
                /* wait for consumers to hand tokens back */
                if (++starve > 200000)
                    break;
                if ((starve & 63) == 0)
                    usleep(1);
                continue;
            }
            starve = 0;
            if (both && vrt_range(&w->rng, 2)) {
                do_consume(w);
            } else {
                /* grab a few more tokens for batches */
                while (w->nhand < MAXB && vrt_range(&w->rng, 2)) {
                    tok_t *t = free_get();
                    if (!t)
                        break;
                    w->hand[w->nhand++] = t;
                }
                do_push(w, (int)vrt_range(&w->rng, 4) == 0);
            }
            done++;
            if (vrt_range(&w->rng, 16) == 0)
                sched_yield();
        }
        __atomic_fetch_sub(&g_producers_left, 1, __ATOMIC_SEQ_CST);
    } else {
        int idle = 0;
        while (vrt_num_violations() == 0) {
            int before = w->nev;
            do_consume(w);
            if (w->nev >= MAXEV - 2)
                break;
            if (__atomic_load_n(&g_producers_left, __ATOMIC_SEQ_CST) == 0) {
                /* producers are done: stop after a few empty rounds */
                ev_t *last = w->nev > before ? &w->ev[w->nev - 1] : NULL;
                if (!last || last->n == 0)
                    idle++;
                if (idle > 8)
                    break;
            }
            if (vrt_range(&w->rng, 16) == 0)
                sched_yield();
        }
    }
    /* give tokens still in hand back */
    while (w->nhand > 0)
        free_put(w->hand[--w->nhand]);
    return NULL;
}

/* ---------------- offline checker ---------------- */
typedef struct {
    int tok;
    uint32_t gen;
    uint64_t p_call, p_ret;
    int p_idx;        /* index within a batch */
    uint64_t p_op;    /* unique op id (t_call) */
    int p_head;
    int left;         /* 0 no, 1 pop, 2 remove, 3 drained at end */
    uint64_t l_call, l_ret;
    int l_idx;
    uint64_t l_op;
    int l_tail;
} inst_t;

static inst_t g_inst[MAXW * MAXEV];
static int g_ninst;

static inst_t *find_inst(int tok, uint32_t gen)
{
    /* linear search from the back is fine (few tokens, instances appended in
     * per-worker order); use a small index: last instance per token/gen */
    for (int i = g_ninst - 1; i >= 0; i--)
        if (g_inst[i].tok == tok && g_inst[i].gen == gen)
            return &g_inst[i];
    return NULL;
}

static void check_history(const char *desc, int drained_from)
{
    /* pass 1: instances from push events */
    g_ninst = 0;
    for (int w = 0; w < g_nw; w++)
        for (int i = 0; i < g_w[w].nev; i++) {
            ev_t *e = &g_w[w].ev[i];
            if (e->op != OP_PUSH && e->op != OP_PUSH_MANY)
                continue;
            for (int k = 0; k < e->n; k++) {
                inst_t *in = &g_inst[g_ninst++];
                memset(in, 0, sizeof(*in));
                in->tok = e->ids[k];
                in->gen = e->gens[k];
                in->p_call = e->t_call;
                in->p_ret = e->t_ret;
                in->p_idx = k;
                in->p_op = e->t_call;
                in->p_head = e->flag;
            }
        }
    /* index: per token, instances sorted by gen are unique; build direct map */
    static int idx[MAXTOK][1];
    (void)idx;
    /* pass 2: leaves */
    for (int w = 0; w < g_nw; w++)
        for (int i = 0; i < g_w[w].nev; i++) {
            ev_t *e = &g_w[w].ev[i];
            if (e->op == OP_PUSH || e->op == OP_PUSH_MANY)
                continue;
            for (int k = 0; k < e->n && k < MAXB; k++) {
                inst_t *in = find_inst(e->ids[k], e->gens[k]);
                if (!in) {
                    vrt_violation("pool:fresh-unit",
                                  "%s: %s by worker %d returned token %d gen %u that "
                                  "was never pushed", desc, opn[e->op], w, e->ids[k],
                                  e->gens[k]);
                    return;
                }
                if (in->left) {
                    vrt_violation("pool:unit-returned-twice",
                                  "%s: token %d gen %u (pushed once) left the pool "
                                  "twice: %s and again %s by worker %d", desc, in->tok,
                                  in->gen, in->left == 2 ? "remove" : "pop",
                                  opn[e->op], w);
                    return;
                }
                if (e->t_ret < in->p_call) {
                    vrt_violation("pool:pop-before-push",
                                  "%s: token %d left at ticket %llu before its push "
                                  "was called at %llu", desc, in->tok,
                                  (unsigned long long)e->t_ret,
                                  (unsigned long long)in->p_call);
                    return;
                }
                in->left = e->op == OP_REMOVE ? 2 : (w >= drained_from ? 3 : 1);
                in->l_call = e->t_call;
                in->l_ret = e->t_ret;
                in->l_idx = k;
                in->l_op = e->t_call;
                in->l_tail = e->flag;
            }
        }
    /* loss */
    for (int i = 0; i < g_ninst; i++)
        if (!g_inst[i].left) {
            vrt_violation("pool:unit-lost",
                          "%s: token %d gen %u was pushed (tickets %llu..%llu) but "
                          "never left the pool and the final drain did not find it",
                          desc, g_inst[i].tok, g_inst[i].gen,
                          (unsigned long long)g_inst[i].p_call,
                          (unsigned long long)g_inst[i].p_ret);
            return;
        }
    /* order (FIFO kinds only): a pushed wholly before b, b popped wholly before a */
    if (g_kind != ABT_POOL_RANDWS) {
        uint64_t pairs = 0;
        for (int a = 0; a < g_ninst; a++) {
            inst_t *A = &g_inst[a];
            if (A->left == 2)
                continue;
            for (int b = 0; b < g_ninst; b++) {
                if (a == b)
                    continue;
                inst_t *B = &g_inst[b];
                if (B->left == 2)
                    continue;
                int a_before_b = A->p_ret < B->p_call ||
                                 (A->p_op == B->p_op && A->p_idx < B->p_idx);
                if (!a_before_b)
                    continue;
                pairs++;
                int b_left_first = B->l_ret < A->l_call ||
                                   (A->l_op == B->l_op && B->l_idx < A->l_idx);
                if (b_left_first) {
                    vrt_violation("pool:fifo-order",
                                  "%s: token %d.%u was pushed (..%llu) before token "
                                  "%d.%u (%llu..) but left after it (%llu.. vs ..%llu)",
                                  desc, A->tok, A->gen, (unsigned long long)A->p_ret,
                                  B->tok, B->gen, (unsigned long long)B->p_call,
                                  (unsigned long long)A->l_call,
                                  (unsigned long long)B->l_ret);
                    return;
                }
            }
        }
        vrt_count(c_order_pairs, pairs);
    }
    /* empty pops */
    for (int w = 0; w < g_nw; w++)
        for (int i = 0; i < g_w[w].nev; i++) {
            ev_t *e = &g_w[w].ev[i];
            if (e->n != 0 || (e->op != OP_POP && e->op != OP_POP_MANY &&
                              e->op != OP_POP_WAIT && e->op != OP_POP_TIMEDWAIT))
                continue;
            vrt_count(c_empty_judged, 1);
            for (int k = 0; k < g_ninst; k++) {
                inst_t *in = &g_inst[k];
                if (in->p_ret < e->t_call && in->l_call > e->t_ret) {
                    vrt_violation("pool:empty-pop-on-nonempty",
                                  "%s: %s by worker %d (tickets %llu..%llu) returned "
                                  "nothing although token %d.%u was in the pool the "
                                  "whole time (pushed ..%llu, left %llu..)", desc,
                                  opn[e->op], w, (unsigned long long)e->t_call,
                                  (unsigned long long)e->t_ret, in->tok, in->gen,
                                  (unsigned long long)in->p_ret,
                                  (unsigned long long)in->l_call);
                    return;
                }
            }
        }
}

/* ---------------- sequential exact phase ---------------- */
static void sequential_phase(vrt_rng *r, int nops, const char *desc)
{
    int model[MAXTOK];
    int head = 0, cnt = 0; /* circular deque of token ids */
    int inhand[MAXTOK], nin = 0;
    for (int i = 0; i < g_ntok; i++)
        inhand[nin++] = i;
#define MODEL(i) model[(head + (i)) % MAXTOK]
    for (int op = 0; op < nops && vrt_num_violations() == 0; op++) {
        unsigned k = (unsigned)vrt_range(r, 100);
        if (k < 45 && nin > 0) {
            int many = (int)vrt_range(r, 4) == 0;
            int n = many ? 1 + (int)vrt_range(r, MAXB) : 1;
            if (n > nin)
                n = nin;
            int hd = g_kind == ABT_POOL_RANDWS && vrt_range(r, 3) == 0;
            ABT_pool_context ctx = hd ? push_head_ctx[vrt_range(r, 3)]
                                      : push_tail_ctx[vrt_range(r, 3)];
            ABT_thread ths[MAXB];
            for (int i = 0; i < n; i++) {
                int id = inhand[--nin];
                ths[i] = g_tok[id].th;
                if (hd) {
                    head = (head + MAXTOK - 1) % MAXTOK;
                    model[head] = id;
                } else {
                    MODEL(cnt) = id;
                }
                cnt++;
            }
            if (many)
                VRT_ABT(ABT_pool_push_threads_ex(g_pool, ths, (size_t)n, ctx));
            else
                VRT_ABT(ABT_pool_push_thread_ex(g_pool, ths[0], ctx));
        } else if (k < 85) {
            int tail = g_kind == ABT_POOL_RANDWS && vrt_range(r, 3) == 0;
            ABT_pool_context ctx = tail ? ABT_POOL_CONTEXT_OWNER_SECONDARY
                                        : ABT_POOL_CONTEXT_OWNER_PRIMARY;
            int many = (int)vrt_range(r, 4) == 0;
            size_t want = many ? 1 + (size_t)vrt_range(r, MAXB) : 1;
            ABT_thread ths[MAXB];
            size_t num = 0;
            if (many) {
                VRT_ABT(ABT_pool_pop_threads_ex(g_pool, ths, want, &num, ctx));
            } else if (vrt_range(r, 5) == 0 && g_allow_wait && cnt > 0) {
                if (vrt_range(r, 2)) {
                    vrt_call_begin("pop_wait on a non-empty pool (sequential phase)");
                    VRT_ABT(ABT_pool_pop_wait_thread_ex(g_pool, &ths[0], 0.0001, ctx));
                    vrt_call_end();
                } else if (!tail) {
                    ABT_unit u = ABT_UNIT_NULL;
                    ths[0] = ABT_THREAD_NULL;
                    vrt_call_begin("pop_timedwait on a non-empty pool (sequential phase)");
                    VRT_ABT(ABT_pool_pop_timedwait(g_pool, &u, ABT_get_wtime() + 0.0001));
                    vrt_call_end();
                    if (u != ABT_UNIT_NULL)
                        VRT_ABT(ABT_unit_get_thread(u, &ths[0]));
                } else {
                    VRT_ABT(ABT_pool_pop_thread_ex(g_pool, &ths[0], ctx));
                }
                num = ths[0] != ABT_THREAD_NULL;
            } else {
                VRT_ABT(ABT_pool_pop_thread_ex(g_pool, &ths[0], ctx));
                num = ths[0] != ABT_THREAD_NULL;
            }
            size_t expect = (size_t)cnt < want ? (size_t)cnt : want;
            if (num != expect) {
                vrt_violation("pool:seq-pop-count",
                              "%s: sequential pop returned %zu units, model has %d "
                              "(requested %zu)", desc, num, cnt, want);
                return;
            }
            for (size_t i = 0; i < num; i++) {
                int exp_id;
                if (tail) {
                    exp_id = MODEL(cnt - 1);
                } else {
                    exp_id = MODEL(0);
                    head = (head + 1) % MAXTOK;
                }
                cnt--;
                tok_t *t = tok_of(ths[i]);
                if (!t || t->id != exp_id) {
                    vrt_violation(g_kind == ABT_POOL_RANDWS ? "pool:deque-order"
                                                            : "pool:fifo-order",
                                  "%s: sequential pop (%s end) returned token %d, "
                                  "reference model says %d", desc,
                                  tail ? "tail" : "head", t ? t->id : -1, exp_id);
                    return;
                }
                inhand[nin++] = t->id;
            }
        } else if (k < 92 && cnt > 0 && g_allow_remove) {
            int pos = (int)vrt_range(r, (uint64_t)cnt);
            int id = MODEL(pos);
            ABT_unit unit;
            VRT_ABT(ABT_thread_get_unit(g_tok[id].th, &unit));
            int rc = ABT_pool_remove(g_pool, unit);
            if (rc != ABT_SUCCESS) {
                vrt_violation("pool:seq-remove-failed",
                              "%s: remove of token %d (position %d of %d) returned %d",
                              desc, id, pos, cnt, rc);
                return;
            }
            for (int i = pos; i < cnt - 1; i++)
                MODEL(i) = MODEL(i + 1);
            cnt--;
            inhand[nin++] = id;
        } else if (k < 95 && nin > 0 && g_allow_remove) {
            /* remove of a unit that is not in the pool must fail */
            ABT_unit unit;
            VRT_ABT(ABT_thread_get_unit(g_tok[inhand[nin - 1]].th, &unit));
            int rc = ABT_pool_remove(g_pool, unit);
            VRT_CHECK(rc != ABT_SUCCESS, "pool:seq-remove-absent-succeeded",
                      "%s: remove of a unit that is not in the pool succeeded", desc);
        } else {
            size_t sz = 0;
            ABT_bool emp = ABT_FALSE;
            VRT_ABT(ABT_pool_get_size(g_pool, &sz));
            VRT_ABT(ABT_pool_is_empty(g_pool, &emp));
            vrt_count(c_size_checks, 1);
            if (sz != (size_t)cnt || (emp == ABT_TRUE) != (cnt == 0)) {
                vrt_violation("pool:seq-size",
                              "%s: get_size=%zu is_empty=%d, model size %d", desc, sz,
                              (int)emp, cnt);
                return;
            }
        }
        vrt_count(c_seq_ops, 1);
    }
    /* drain */
    while (cnt > 0) {
        ABT_thread th;
        VRT_ABT(ABT_pool_pop_thread(g_pool, &th));
        tok_t *t = tok_of(th);
        if (!t || t->id != MODEL(0)) {
            vrt_violation("pool:fifo-order", "%s: drain returned %d, model %d", desc,
                          t ? t->id : -1, MODEL(0));
            return;
        }
        head = (head + 1) % MAXTOK;
        cnt--;
    }
#undef MODEL
}

static const char *kind_name(int k)
{
    return k == ABT_POOL_FIFO ? "fifo" : k == ABT_POOL_FIFO_WAIT ? "fifo_wait" : "randws";
}
static const char *access_name(int a)
{
    switch (a) {
        case ABT_POOL_ACCESS_PRIV:
            return "priv";
        case ABT_POOL_ACCESS_SPSC:
            return "spsc";
        case ABT_POOL_ACCESS_MPSC:
            return "mpsc";
        case ABT_POOL_ACCESS_SPMC:
            return "spmc";
        default:
            return "mpmc";
    }
}

static void bounded_empty_wait(const char *desc)
{
    /* C19: a blocking pop on a pool that stays empty returns empty-handed */
    ABT_thread th = (ABT_thread)0x1;
    double t0 = vrt_wall();
    vrt_call_begin("pop_wait(0.02s) on an empty pool");
    VRT_ABT(ABT_pool_pop_wait_thread(g_pool, &th, 0.02));
    vrt_call_end();
    double d1 = vrt_wall() - t0;
    VRT_CHECK(th == ABT_THREAD_NULL, "pool:pop-wait-empty-returned-unit",
              "%s: pop_wait on an empty pool returned a unit", desc);
    ABT_unit u = (ABT_unit)0x1;
    t0 = vrt_wall();
    vrt_call_begin("pop_timedwait(+0.02s) on an empty pool");
    VRT_ABT(ABT_pool_pop_timedwait(g_pool, &u, ABT_get_wtime() + 0.02));
    vrt_call_end();
    double d2 = vrt_wall() - t0;
    VRT_CHECK(u == ABT_UNIT_NULL, "pool:pop-timedwait-empty-returned-unit",
              "%s: pop_timedwait on an empty pool returned a unit", desc);
    /* deadline already in the past */
    VRT_ABT(ABT_pool_pop_timedwait(g_pool, &u, ABT_get_wtime() - 1.0));
    VRT_CHECK(u == ABT_UNIT_NULL, "pool:pop-timedwait-empty-returned-unit",
              "%s: pop_timedwait(past) on an empty pool returned a unit", desc);
    vrt_count(c_wait_empty_ret, 3);
    vrt_note("empty_wait_durations", "pop_wait(0.02s) took %.4fs, pop_timedwait(+0.02s) took %.4fs (evidence only)", d1, d2);
}

/* C19: consumers that are blocked in pop_wait on an empty pool when units are
 * pushed one by one must each get a unit at once: none may sleep on until its
 * own (far away) timeout.  The timeout is 120 s, the join of the consumers
 * carries the call deadline (a stall is inconclusive, re-run once by the
 * driver, and only a reproduced stall is reported). */
typedef struct {
    ABT_thread got;
    int use_timed;
    double took;
} bw_t;
static int c_blocked_woken;
static void *bw_main(void *arg)
{
    bw_t *b = (bw_t *)arg;
    double t0 = vrt_wall();
    b->got = ABT_THREAD_NULL;
    if (b->use_timed) {
        ABT_unit u = ABT_UNIT_NULL;
        if (ABT_pool_pop_timedwait(g_pool, &u, ABT_get_wtime() + 120.0) == ABT_SUCCESS && u != ABT_UNIT_NULL)
            ABT_unit_get_thread(u, &b->got);
    } else {
        ABT_pool_pop_wait_thread(g_pool, &b->got, 120.0);
    }
    b->took = vrt_wall() - t0;
    return NULL;
}
static void blocked_consumers_woken(vrt_rng *r, const char *desc, int nc_max)
{
    int k = 2 + (int)vrt_range(r, 2);
    if (k > nc_max)
        k = nc_max;
    if (k > g_ntok)
        k = g_ntok;
    if (k < 1)
        return;
    bw_t b[3];
    pthread_t pt[3];
    for (int i = 0; i < k; i++) {
        b[i].use_timed = (int)vrt_range(r, 3) == 0;
        if (pthread_create(&pt[i], NULL, bw_main, &b[i]))
            vrt_fatal("pthread_create");
    }
    /* let them block (if one has not yet, it simply finds the unit at once) */
    vrt_sleep_us(2000 + (unsigned)vrt_range(r, 20000));
    unsigned gap = vrt_range(r, 3) ? 0 : (unsigned)vrt_range(r, 300);
    for (int i = 0; i < k; i++) {
        VRT_ABT(ABT_pool_push_thread(g_pool, g_tok[i].th));
        if (gap)
            vrt_sleep_us(gap);
    }
    vrt_call_begin("pop_wait of a consumer that was blocked on an empty pool when as many units as there are blocked "
                   "consumers were pushed one by one (its own timeout is 120 s away)");
    for (int i = 0; i < k; i++)
        pthread_join(pt[i], NULL);
    vrt_call_end();
    unsigned seen = 0;
    double worst = 0;
    for (int i = 0; i < k; i++) {
        int id = -1;
        for (int j = 0; j < g_ntok; j++)
            if (b[i].got == g_tok[j].th)
                id = j;
        if (b[i].took > worst)
            worst = b[i].took;
        if (b[i].got == ABT_THREAD_NULL || id < 0 || id >= k) {
            vrt_violation("pool:blocked-consumer-got-no-unit",
                          "%s: %d consumers blocked in pop_wait/pop_timedwait(120 s), %d units pushed one by one: consumer %d "
                          "returned %s after %.3fs", desc, k, k, i, b[i].got == ABT_THREAD_NULL ? "empty-handed" : "an unknown unit",
                          b[i].took);
            return;
        }
        if (seen & (1u << id)) {
            vrt_violation("pool:unit-popped-twice", "%s: two blocked consumers returned the same unit %d", desc, id);
            return;
        }
        seen |= 1u << id;
    }
    ABT_bool emp;
    VRT_ABT(ABT_pool_is_empty(g_pool, &emp));
    VRT_CHECK(emp == ABT_TRUE, "pool:quiescent-size", "%s: pool not empty after every pushed unit was handed to a blocked consumer",
              desc);
    vrt_count(c_blocked_woken, (uint64_t)k);
    vrt_note("blocked_consumers_worst_wake", "%.4fs (evidence only)", worst);
}

int main(int argc, char **argv)
{
    vrt_init(argc, argv, "h_pool");
    int hist = (int)vrt_arg_int("histories", 40);
    int ops = (int)vrt_arg_int("ops", 400);
    int only_kind = (int)vrt_arg_int("kind", -1);
    c_cases = vrt_counter("cases");
    c_hist = vrt_counter("histories");
    c_ops = vrt_counter("logged_operations");
    c_push = vrt_counter("units_pushed");
    c_pop_ok = vrt_counter("pops_with_unit");
    c_pop_empty = vrt_counter("pops_empty");
    c_popwait_ok = vrt_counter("popwait_with_unit");
    c_popwait_empty = vrt_counter("popwait_empty");
    c_remove_ok = vrt_counter("removes_ok");
    c_remove_fail = vrt_counter("removes_not_in_pool");
    c_many = vrt_counter("batch_operations");
    c_seq_ops = vrt_counter("sequential_model_ops");
    c_size_checks = vrt_counter("quiescent_size_checks");
    c_order_pairs = vrt_counter("fifo_ordered_pairs_checked");
    c_empty_judged = vrt_counter("empty_pops_judged");
    c_wait_empty_ret = vrt_counter("blocking_pops_on_empty_pool_returned");
    c_blocked_woken = vrt_counter("blocked_consumers_woken_by_single_pushes");
    c_by_kind[0] = vrt_counter("histories_fifo");
    c_by_kind[1] = vrt_counter("histories_fifo_wait");
    c_by_kind[2] = vrt_counter("histories_randws");
    c_by_access[0] = vrt_counter("histories_priv");
    c_by_access[1] = vrt_counter("histories_spsc");
    c_by_access[2] = vrt_counter("histories_mpsc");
    c_by_access[3] = vrt_counter("histories_spmc");
    c_by_access[4] = vrt_counter("histories_mpmc");
    vrt_supervisor_start();
    vrt_rng r;
    vrt_rng_init(&r, vrt_seed, 23);
    VRT_ABT(ABT_init(0, NULL));
    ABT_xstream xs;
    ABT_pool mainpool, staging;
    VRT_ABT(ABT_xstream_self(&xs));
    VRT_ABT(ABT_xstream_get_main_pools(xs, 1, &mainpool));
    static ev_t *evbuf[MAXW];
    for (int i = 0; i < MAXW; i++)
        evbuf[i] = (ev_t *)malloc(sizeof(ev_t) * MAXEV);
    static const int kinds[] = { ABT_POOL_FIFO, ABT_POOL_FIFO_WAIT, ABT_POOL_RANDWS };
    static const int accs[] = { ABT_POOL_ACCESS_PRIV, ABT_POOL_ACCESS_SPSC, ABT_POOL_ACCESS_MPSC,
                                ABT_POOL_ACCESS_SPMC, ABT_POOL_ACCESS_MPMC };
    for (int h = 0; h < hist && vrt_num_violations() == 0; h++) {
        int ki = only_kind >= 0 ? only_kind : (int)vrt_range(&r, 3);
        int ai = (int)vrt_range(&r, 5);
        g_kind = kinds[ki];
        g_access = accs[ai];
        g_ntok = 1 + (int)vrt_range(&r, vrt_range(&r, 2) ? 4 : 24);
        g_allow_remove = 1;
        g_allow_wait = 1;
        char desc[160];
        int np = (g_access == ABT_POOL_ACCESS_MPSC || g_access == ABT_POOL_ACCESS_MPMC)
                     ? 1 + (int)vrt_range(&r, 6) : 1;
        int nc = (g_access == ABT_POOL_ACCESS_SPMC || g_access == ABT_POOL_ACCESS_MPMC)
                     ? 1 + (int)vrt_range(&r, 6) : 1;
        if (g_access == ABT_POOL_ACCESS_PRIV)
            np = 1, nc = 0;
        snprintf(desc, sizeof(desc), "history %d: %s/%s tokens=%d producers=%d consumers=%d",
                 h, kind_name(g_kind), access_name(g_access), g_ntok, np, nc);
        /* tokens */
        VRT_ABT(ABT_pool_create_basic(ABT_POOL_FIFO, ABT_POOL_ACCESS_MPMC, ABT_FALSE, &staging));
        memset(g_tok, 0, sizeof(g_tok));
        for (int i = 0; i < g_ntok; i++) {
            g_tok[i].id = i;
            VRT_ABT(ABT_task_create(staging, tok_fn, &g_tok[i], &g_tok[i].th));
        }
        for (int i = 0; i < g_ntok; i++) {
            ABT_thread th;
            VRT_ABT(ABT_pool_pop_thread(staging, &th));
        }
        VRT_ABT(ABT_pool_create_basic((ABT_pool_kind)g_kind, (ABT_pool_access)g_access, ABT_FALSE, &g_pool));
        /* sequential exact phase */
        sequential_phase(&r, ops / 2 + 20, desc);
        if (vrt_num_violations())
            break;
        bounded_empty_wait(desc);
        if (vrt_num_violations() == 0 && nc >= 1 && g_access != ABT_POOL_ACCESS_PRIV)
            blocked_consumers_woken(&r, desc, nc);
        /* concurrent phase */
        g_nfree = 0;
        for (int i = 0; i < g_ntok; i++)
            g_free[g_nfree++] = &g_tok[i];
        g_nw = np + nc;
        g_producers_left = np;
        for (int i = 0; i < g_nw; i++) {
            worker_t *w = &g_w[i];
            memset(w, 0, sizeof(*w));
            w->idx = i;
            w->producer = i < np;
            w->ev = evbuf[i];
            w->ops = ops;
            vrt_rng_init(&w->rng, vrt_seed * 7919 + (uint64_t)h, 50 + (uint64_t)i);
        }
        for (int i = 0; i < g_nw; i++)
            if (pthread_create(&g_w[i].pt, NULL, worker_main, &g_w[i]))
                vrt_fatal("pthread_create");
        for (int i = 0; i < g_nw; i++)
            pthread_join(g_w[i].pt, NULL);
        /* quiescent: size must be exact */
        size_t sz = 0, drained = 0;
        ABT_bool emp;
        VRT_ABT(ABT_pool_get_size(g_pool, &sz));
        VRT_ABT(ABT_pool_is_empty(g_pool, &emp));
        /* drain as an extra pseudo-worker so the checker sees the leaves */
        worker_t *dw = &g_w[g_nw];
        memset(dw, 0, sizeof(*dw));
        dw->idx = g_nw;
        dw->ev = evbuf[g_nw];
        int drained_from = g_nw;
        g_nw++;
        for (;;) {
            ABT_thread th = ABT_THREAD_NULL;
            ev_t *e = ev_begin(dw, OP_POP, 0);
            e->t_call = vrt_ticket();
            VRT_ABT(ABT_pool_pop_thread(g_pool, &th));
            if (th != ABT_THREAD_NULL)
                leave_tok(e, th);
            ev_commit(dw, e);
            if (th == ABT_THREAD_NULL)
                break;
            drained++;
        }
        vrt_count(c_size_checks, 1);
        if (vrt_num_violations() == 0 && (sz != drained || (emp == ABT_TRUE) != (drained == 0)))
            vrt_violation("pool:quiescent-size",
                          "%s: at quiescence get_size=%zu is_empty=%d but %zu units were drained",
                          desc, sz, (int)emp, drained);
        uint64_t nops = 0;
        for (int i = 0; i < g_nw; i++)
            nops += (uint64_t)g_w[i].nev;
        vrt_count(c_ops, nops);
        if (vrt_num_violations() == 0)
            check_history(desc, drained_from);
        if (vrt_num_violations())
            break;
        /* run and free the tokens through the primary stream */
        VRT_ABT(ABT_pool_free(&g_pool));
        for (int i = 0; i < g_ntok; i++)
            VRT_ABT(ABT_pool_push_thread(mainpool, g_tok[i].th));
        for (int i = 0; i < g_ntok; i++) {
            VRT_ABT(ABT_thread_free(&g_tok[i].th));
            VRT_CHECK(g_tok[i].executed == 1, "pool:token-execution",
                      "token %d executed %d times", i, g_tok[i].executed);
        }
        VRT_ABT(ABT_pool_free(&staging));
        if (h < 3)
            vrt_sample("%s, %llu logged calls (delay=%s)", desc, (unsigned long long)nops, vrt_delay_profile_name());
        vrt_signature_add("%s/%s,t%d,p%d,c%d", kind_name(g_kind), access_name(g_access),
                          g_ntok > 4 ? 9 : g_ntok, np, nc);
        vrt_count(c_hist, 1);
        vrt_count(c_cases, 1);
        vrt_count(c_by_kind[ki], 1);
        vrt_count(c_by_access[ai], 1);
    }
    if (vrt_num_violations() == 0)
        VRT_ABT(ABT_finalize());
    return vrt_finish("pool_histories");
}
