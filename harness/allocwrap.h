/* Link-time wrappers (-Wl,--wrap=...) around the allocation-class libc calls made
 * by the harness and by the statically linked libabt.a:
 *   malloc calloc realloc posix_memalign free mmap munmap
 *   pthread_create pthread_mutex_init pthread_cond_init pthread_barrier_init
 * They keep a ledger of live allocations (counts) and can make the k-th call of an
 * armed thread fail (fault injection for C18). */
#ifndef ALLOCWRAP_H
#define ALLOCWRAP_H
#include <stdint.h>
#include <stddef.h>

#define ALLOCWRAP_LDFLAGS                                                      \
    "-Wl,--wrap=malloc,--wrap=calloc,--wrap=realloc,--wrap=posix_memalign,"    \
    "--wrap=free,--wrap=mmap,--wrap=munmap,--wrap=pthread_create,"             \
    "--wrap=pthread_mutex_init,--wrap=pthread_cond_init,"                      \
    "--wrap=pthread_barrier_init"

typedef struct {
    int64_t live_heap;   /* successful malloc-class calls minus frees */
    int64_t live_mmap;   /* successful mmaps minus munmaps */
    uint64_t heap_calls; /* total allocation-class calls seen */
    uint64_t mmap_calls;
    uint64_t bytes_mmap_live;
} aw_ledger_t;
void aw_ledger(aw_ledger_t *out);

/* Fault injection, per calling thread.  aw_arm(k): the k-th (1-based)
 * allocation-class call made by THIS thread from now on fails once; k=0 only
 * counts.  aw_disarm() returns the number of allocation-class calls the thread
 * made while armed; *fired tells whether the fault was delivered and
 * *which names the failed call. */
void aw_arm(int k);
int aw_disarm(int *fired, const char **which);
/* allocation-class calls made by other threads while some thread was armed */
uint64_t aw_foreign_calls_while_armed(void);
#endif
