/* h_units: work-unit ledger harness.
 *
 * mode=forest (C01, also the execution part of C06): seeded random *programs*:
 * a forest of work units (named/unnamed ULTs and tasklets) created from the
 * primary ULT, ULTs, tasklets and external threads over a random configuration
 * (1-6 streams, every built-in pool kind, predefined and user-defined
 * schedulers with random pop order, stacked schedulers, private/shared pools).
 * Every unit gets one of 8 distinct function bodies and a unique tagged
 * argument.  Ledger oracle: each created unit starts exactly once with its own
 * function and argument, completes exactly once, completes before its joiner
 * returns, before ABT_xstream_join of the only stream serving its pool returns
 * and before ABT_finalize returns; units first started by a scheduler pop start
 * on a stream that serves their pool; pools are empty at quiescence.
 *
 * Generator rules that keep programs schedulable (DESIGN.md section 6 H-c):
 * unnamed units create only unnamed children into their own pool; a stacked
 * scheduler's pool is fed before ABT_pool_add_sched or by units it runs;
 * tasklets never block; a unit joins only its own children. */
#define _GNU_SOURCE
#include "abti.h" /* white-box read of the per-pool blocked counter (C06) */
#include "actors.h"
#include <sched.h>

#define MAXU 6000
#define MAXEV 512
#define MAXPOOLS 24

enum { K_ULT_NAMED = 0, K_ULT_UNNAMED = 1, K_TASK_NAMED = 2, K_TASK_UNNAMED = 3 };
enum { VIA_CREATE = 0, VIA_CREATE_TO, VIA_ON_XSTREAM, VIA_MANY, VIA_EXT };

typedef struct unit {
    int id;
    int kind;
    int fn;
    uint64_t argtag;
    int pool;   /* index into g_pools */
    int parent; /* -1: primary, -2: external thread */
    int depth;
    int via;
    int exit_kind; /* 0 return, 1 ABT_self_exit, 2 ABT_thread_exit */
    int ev_wait, ev_set; /* -1 none */
    ABT_thread th;
    int starts, completions; /* atomic */
    int start_rank;
    uint64_t seed;
    int may_block;
} unit_t;

static unit_t g_u[MAXU];
static int g_u_ready[MAXU]; /* atomic: the slot is completely initialised (set by launch) */
static int g_nu; /* atomic */
static int g_cap;
static ABT_eventual g_ev[MAXEV];
static int g_nev; /* atomic */
static int g_ev_users; /* atomic: units that still have to touch an eventual */
static ABT_pool g_pools[MAXPOOLS];
static uint32_t g_serve[MAXPOOLS]; /* bitmask of stream ranks that schedule the pool */
static int g_npools;               /* ES pools first, then stacked-scheduler pools */
static int g_nespools;
static int g_max_depth = 4;
static world_t g_w;
static ABT_xstream g_xs_by_rank[W_MAXES];

static int c_cases, c_units, c_by_kind[4], c_via[5], c_exit[3], c_ev_waits, c_joins,
    c_stacked, c_user_sched, c_user_pops, c_ext_creators, c_after_xjoin, c_distinct,
    c_sched_replaced;

static void unit_body(unit_t *u, int fn);
#define DEF_FN(n)                                                              \
    static void unit_fn##n(void *arg)                                          \
    {                                                                          \
        unit_body((unit_t *)arg, n);                                           \
    }
DEF_FN(0)
DEF_FN(1)
DEF_FN(2)
DEF_FN(3)
DEF_FN(4)
DEF_FN(5)
DEF_FN(6)
DEF_FN(7)
static void (*const g_fns[8])(void *) = { unit_fn0, unit_fn1, unit_fn2, unit_fn3,
                                          unit_fn4, unit_fn5, unit_fn6, unit_fn7 };

static unit_t *new_unit(vrt_rng *r, int parent, int depth)
{
    int id = __atomic_fetch_add(&g_nu, 1, __ATOMIC_SEQ_CST);
    if (id >= g_cap) {
        __atomic_fetch_sub(&g_nu, 1, __ATOMIC_SEQ_CST);
        return NULL;
    }
    unit_t *u = &g_u[id];
    memset(u, 0, sizeof(*u));
    u->id = id;
    u->fn = (int)vrt_range(r, 8);
    u->argtag = vrt_next(r) | 1;
    u->parent = parent;
    u->depth = depth;
    u->ev_wait = u->ev_set = -1;
    u->seed = vrt_next(r);
    u->start_rank = -1;
    u->th = ABT_THREAD_NULL;
    return u;
}

/* create unit u (fields kind/pool/via set by the caller) */
static int launch(unit_t *u)
{
    int rc;
    __atomic_store_n(&g_u_ready[u->id], 1, __ATOMIC_RELEASE);
    ABT_pool pool = g_pools[u->pool];
    ABT_thread *ph = (u->kind == K_ULT_NAMED || u->kind == K_TASK_NAMED) ? &u->th : NULL;
    vrt_count(c_by_kind[u->kind], 1);
    vrt_count(c_via[u->via], 1);
    if (u->kind >= K_TASK_NAMED) {
        if (u->via == VIA_ON_XSTREAM)
            rc = ABT_task_create_on_xstream(g_xs_by_rank[u->pool], g_fns[u->fn], u, ph);
        else
            rc = ABT_task_create(pool, g_fns[u->fn], u, ph);
    } else if (u->via == VIA_CREATE_TO) {
        rc = ABT_thread_create_to(pool, g_fns[u->fn], u, ABT_THREAD_ATTR_NULL, ph);
    } else if (u->via == VIA_ON_XSTREAM) {
        rc = ABT_thread_create_on_xstream(g_xs_by_rank[u->pool], g_fns[u->fn], u, ABT_THREAD_ATTR_NULL, ph);
    } else {
        rc = ABT_thread_create(pool, g_fns[u->fn], u, ABT_THREAD_ATTR_NULL, ph);
    }
    if (rc != ABT_SUCCESS)
        vrt_violation("units:create-failed", "creating unit %d (kind %d via %d) returned %d", u->id, u->kind, u->via, rc);
    return rc;
}

static void join_unit(unit_t *c, const char *who)
{
    if (c->kind == K_ULT_NAMED) {
        if (vrt_hash64(c->seed) & 1) {
            VRT_ABT(ABT_thread_join(c->th));
            ABT_thread_state st;
            VRT_ABT(ABT_thread_get_state(c->th, &st));
            VRT_CHECK(st == ABT_THREAD_STATE_TERMINATED, "units:state-after-join", "state %d after join", (int)st);
        }
        VRT_ABT(ABT_thread_free(&c->th));
    } else {
        if (vrt_hash64(c->seed) & 1)
            VRT_ABT(ABT_task_join(c->th));
        VRT_ABT(ABT_task_free(&c->th));
    }
    vrt_count(c_joins, 1);
    int done = __atomic_load_n(&c->completions, __ATOMIC_SEQ_CST);
    if (done != 1)
        vrt_violation("units:join-returned-before-completion",
                      "%s: join/free of unit %d (kind %d, pool %d) returned but it has completed %d times "
                      "(started %d times)", who, c->id, c->kind, c->pool, done,
                      __atomic_load_n(&c->starts, __ATOMIC_SEQ_CST));
}

/* the script of a unit: create children, yield, wait/set eventuals, join */
static void run_script(unit_t *u, vrt_rng *r, int is_task, int unnamed)
{
    int children[8];
    int nch = 0;
    int steps = 1 + (int)vrt_range(r, 6);
    for (int s = 0; s < steps && vrt_num_violations() == 0; s++) {
        unsigned k = (unsigned)vrt_range(r, 100);
        if (k < 45 && u->depth < g_max_depth && nch < 8) {
            /* create a child (or a setter/waiter pair) */
            unit_t *c = new_unit(r, u->id, u->depth + 1);
            if (!c)
                continue;
            if (unnamed || is_task) {
                /* unnamed creators: unnamed children into their own pool */
                c->kind = vrt_range(r, 2) ? K_ULT_UNNAMED : K_TASK_UNNAMED;
                c->pool = u->pool;
                c->via = VIA_CREATE;
                launch(c);
                continue;
            }
            c->kind = (int)vrt_range(r, 4);
            c->pool = (int)vrt_range(r, (uint64_t)g_nespools);
            unsigned v = (unsigned)vrt_range(r, 10);
            c->via = v < 6 ? VIA_CREATE : v < 8 ? VIA_ON_XSTREAM : VIA_CREATE_TO;
            if (c->kind >= K_TASK_NAMED && c->via == VIA_CREATE_TO)
                c->via = VIA_CREATE;
            if (c->via == VIA_ON_XSTREAM) {
                /* pool index = rank of the target stream: its first main pool */
                c->pool = (int)vrt_range(r, (uint64_t)g_w.nes);
            }
            c->exit_kind = c->kind <= K_ULT_UNNAMED ? (int)vrt_range(r, 4) % 3 : 0;
            /* eventual pair: a non-blocking setter sibling and a ULT waiter */
            if (c->kind <= K_ULT_UNNAMED && vrt_range(r, 4) == 0 && u->depth + 1 < g_max_depth) {
                int e = __atomic_fetch_add(&g_nev, 1, __ATOMIC_SEQ_CST);
                unit_t *setter = e < MAXEV ? new_unit(r, u->id, g_max_depth) : NULL;
                if (setter) {
                    setter->kind = vrt_range(r, 2) ? K_ULT_UNNAMED : K_TASK_UNNAMED;
                    setter->pool = (int)vrt_range(r, (uint64_t)g_nespools);
                    setter->via = VIA_CREATE;
                    setter->ev_set = e;
                    c->ev_wait = e;
                    __atomic_fetch_add(&g_ev_users, 2, __ATOMIC_SEQ_CST);
                    /* the waiter first so that it often blocks before the set */
                    if (c->kind == K_ULT_NAMED && nch < 8)
                        children[nch++] = c->id;
                    launch(c);
                    launch(setter);
                    continue;
                }
            }
            if ((c->kind == K_ULT_NAMED || c->kind == K_TASK_NAMED))
                children[nch++] = c->id;
            launch(c);
        } else if (k < 55 && !is_task && !unnamed && u->depth < g_max_depth) {
            /* ABT_thread_create_many: a batch of named or unnamed ULTs */
            int n = 1 + (int)vrt_range(r, 4);
            ABT_pool pl[4];
            void (*fl[4])(void *);
            void *al[4];
            unit_t *cs[4];
            int named = (int)vrt_range(r, 2);
            int m = 0;
            for (int i = 0; i < n; i++) {
                unit_t *c = new_unit(r, u->id, u->depth + 1);
                if (!c)
                    break;
                c->kind = named ? K_ULT_NAMED : K_ULT_UNNAMED;
                c->pool = (int)vrt_range(r, (uint64_t)g_nespools);
                c->via = VIA_MANY;
                pl[m] = g_pools[c->pool];
                fl[m] = g_fns[c->fn];
                al[m] = c;
                cs[m++] = c;
                vrt_count(c_by_kind[c->kind], 1);
                vrt_count(c_via[VIA_MANY], 1);
            }
            if (m > 0) {
                ABT_thread ths[4];
                int rc = ABT_thread_create_many(m, pl, fl, al, ABT_THREAD_ATTR_NULL, named ? ths : NULL);
                if (rc != ABT_SUCCESS)
                    vrt_violation("units:create-failed", "create_many returned %d", rc);
                for (int i = 0; i < m && named; i++) {
                    cs[i]->th = ths[i];
                    if (nch < 8)
                        children[nch++] = cs[i]->id;
                    else
                        join_unit(cs[i], "creator");
                }
            }
        } else if (k < 80 && !is_task) {
            ABT_thread_yield();
        } else if (k < 88 && nch > 0 && !is_task) {
            /* join one child early */
            int i = (int)vrt_range(r, (uint64_t)nch);
            join_unit(&g_u[children[i]], "creator (early)");
            children[i] = children[--nch];
        } else {
            unsigned n = (unsigned)vrt_range(r, 400);
            for (volatile unsigned i = 0; i < n; i++)
                ;
        }
    }
    for (int i = 0; i < nch && vrt_num_violations() == 0; i++)
        join_unit(&g_u[children[i]], "creator");
}

static void unit_body(unit_t *u, int fn)
{
    /* identity checks */
    if (u < g_u || u >= g_u + MAXU || u->id != (int)(u - g_u)) {
        vrt_violation("units:wrong-argument", "a unit function received an argument that is not a unit record");
        return;
    }
    if (fn != u->fn)
        vrt_violation("units:wrong-function", "unit %d was created with function %d but function %d is running with its "
                      "argument", u->id, u->fn, fn);
    int s = __atomic_add_fetch(&u->starts, 1, __ATOMIC_SEQ_CST);
    if (s != 1) {
        vrt_violation("units:started-twice", "unit %d (kind %d, pool %d, via %d) started %d times", u->id, u->kind,
                      u->pool, u->via, s);
        return;
    }
    void *arg = NULL;
    if (ABT_self_get_arg(&arg) == ABT_SUCCESS && arg != (void *)u)
        vrt_violation("units:wrong-argument", "unit %d: ABT_self_get_arg returns %p, created with %p", u->id, arg, (void *)u);
    int rank = -1;
    ABT_self_get_xstream_rank(&rank);
    u->start_rank = rank;
    if (u->via != VIA_CREATE_TO && rank >= 0 && rank < 32) {
        uint32_t mask = g_serve[u->pool];
        if (!(mask & (1u << rank)))
            vrt_violation("units:started-on-foreign-stream",
                          "unit %d (pool %d, via %d) was started by a scheduler of stream %d, which does not schedule "
                          "that pool (mask 0x%x)", u->id, u->pool, u->via, rank, mask);
    }
    int is_task = u->kind >= K_TASK_NAMED;
    int unnamed = u->kind == K_ULT_UNNAMED || u->kind == K_TASK_UNNAMED;
    vrt_rng r = { u->seed };
    if (u->ev_wait >= 0) {
        vrt_count(c_ev_waits, 1);
        VRT_ABT(ABT_eventual_wait(g_ev[u->ev_wait], NULL));
        __atomic_fetch_sub(&g_ev_users, 1, __ATOMIC_SEQ_CST);
    }
    if (u->ev_set >= 0) {
        VRT_ABT(ABT_eventual_set(g_ev[u->ev_set], NULL, 0));
        __atomic_fetch_sub(&g_ev_users, 1, __ATOMIC_SEQ_CST);
    } else {
        /* VIA_ON_XSTREAM children use the rank as pool index: map to the real pool for their own children */
        run_script(u, &r, is_task, unnamed);
    }
    int cdone = __atomic_add_fetch(&u->completions, 1, __ATOMIC_SEQ_CST);
    if (cdone != 1)
        vrt_violation("units:completed-twice", "unit %d completed %d times", u->id, cdone);
    vrt_progress();
    if (!is_task && u->exit_kind) {
        vrt_count(c_exit[u->exit_kind], 1);
        if (u->exit_kind == 1)
            ABT_self_exit();
        else
            ABT_thread_exit();
        vrt_violation("units:ran-after-exit", "unit %d continued after ABT_%s_exit", u->id,
                      u->exit_kind == 1 ? "self" : "thread");
    } else {
        vrt_count(c_exit[0], 1);
    }
}

/* ---------------- user-defined scheduler ---------------- */
typedef struct {
    int npools;
    ABT_pool pools[MAXPOOLS];
    vrt_rng rng;
    int policy; /* 0 fifo scan, 1 random pool, 2 batch+reverse, 3 starve first pool for a while */
} usched_t;

static int usched_init(ABT_sched sched, ABT_sched_config config)
{
    (void)config;
    usched_t *d = (usched_t *)calloc(1, sizeof(usched_t));
    ABT_sched_get_num_pools(sched, &d->npools);
    if (d->npools > MAXPOOLS)
        d->npools = MAXPOOLS;
    ABT_sched_get_pools(sched, d->npools, 0, d->pools);
    static int counter;
    int n = __atomic_fetch_add(&counter, 1, __ATOMIC_RELAXED);
    vrt_rng_init(&d->rng, vrt_seed * 97, 7000 + (uint64_t)n);
    d->policy = (int)vrt_range(&d->rng, 4);
    ABT_sched_set_data(sched, d);
    return ABT_SUCCESS;
}
static void usched_run(ABT_sched sched)
{
    usched_t *d;
    ABT_sched_get_data(sched, (void **)&d);
    uint32_t iter = 0;
    for (;;) {
        iter++;
        int start = d->policy == 1 ? (int)vrt_range(&d->rng, (uint64_t)d->npools) : 0;
        int ran = 0;
        for (int i = 0; i < d->npools && !ran; i++) {
            int p = (start + i) % d->npools;
            if (d->policy == 3 && p == 0 && (iter & 63) != 0 && d->npools > 1)
                continue; /* starve pool 0 most of the time */
            if (d->policy == 2) {
                ABT_thread ths[4];
                size_t n = 0;
                ABT_pool_pop_threads(d->pools[p], ths, 4, &n);
                /* run the batch in reverse order */
                for (size_t j = n; j > 0; j--) {
                    ABT_self_schedule(ths[j - 1], ABT_POOL_NULL);
                    vrt_count(c_user_pops, 1);
                    ran = 1;
                }
            } else {
                ABT_thread th = ABT_THREAD_NULL;
                ABT_pool_pop_thread(d->pools[p], &th);
                if (th != ABT_THREAD_NULL) {
                    ABT_self_schedule(th, ABT_POOL_NULL);
                    vrt_count(c_user_pops, 1);
                    ran = 1;
                }
            }
        }
        if ((iter & 15) == 0 || !ran) {
            ABT_bool stop = ABT_FALSE;
            ABT_xstream_check_events(sched);
            ABT_sched_has_to_stop(sched, &stop);
            if (stop == ABT_TRUE)
                break;
            if (!ran)
                sched_yield();
        }
    }
}
static int usched_free(ABT_sched sched)
{
    usched_t *d;
    ABT_sched_get_data(sched, (void **)&d);
    free(d);
    return ABT_SUCCESS;
}
static ABT_sched_def g_usched_def = { .type = ABT_SCHED_TYPE_ULT,
                                      .init = usched_init,
                                      .run = usched_run,
                                      .free = usched_free,
                                      .get_migr_pool = NULL };

/* world with optional user-defined schedulers: like world_create but stream i>0
 * may run the user scheduler over its pool(s) */
static void forest_world(vrt_rng *r, int max_es, char *desc, size_t dl)
{
    int nes, shared, pk, sp;
    world_random_config(r, max_es, &nes, &shared, &pk, &sp);
    int user = (int)vrt_range(r, 3) == 0;
    memset(g_serve, 0, sizeof(g_serve));
    if (!user) {
        world_create(&g_w, nes, shared, pk, sp);
    } else {
        memset(&g_w, 0, sizeof(g_w));
        g_w.nes = nes;
        g_w.shared = shared;
        g_w.pool_kind = pk;
        g_w.sched_predef = -1;
        VRT_ABT(ABT_xstream_self(&g_w.xs[0]));
        ABT_sched_config cfg;
        if (shared) {
            ABT_pool p;
            VRT_ABT(ABT_pool_create_basic((ABT_pool_kind)pk, ABT_POOL_ACCESS_MPMC, ABT_TRUE, &p));
            for (int i = 0; i < nes; i++)
                g_w.pools[i] = p;
            g_w.npools = 1;
            VRT_ABT(ABT_sched_config_create(&cfg, ABT_sched_config_automatic, 1, ABT_sched_config_var_end));
            ABT_sched s0;
            VRT_ABT(ABT_sched_create(&g_usched_def, 1, &p, cfg, &s0));
            VRT_ABT(ABT_xstream_set_main_sched(g_w.xs[0], s0));
            g_w.primary_replaced = 1;
            vrt_count(c_sched_replaced, 1);
            for (int i = 1; i < nes; i++) {
                ABT_sched s;
                VRT_ABT(ABT_sched_create(&g_usched_def, 1, &p, cfg, &s));
                VRT_ABT(ABT_xstream_create(s, &g_w.xs[i]));
            }
            VRT_ABT(ABT_sched_config_free(&cfg));
        } else {
            g_w.npools = nes;
            VRT_ABT(ABT_xstream_get_main_pools(g_w.xs[0], 1, &g_w.pools[0]));
            for (int i = 1; i < nes; i++)
                VRT_ABT(ABT_pool_create_basic((ABT_pool_kind)pk, ABT_POOL_ACCESS_MPMC, ABT_TRUE, &g_w.pools[i]));
            VRT_ABT(ABT_sched_config_create(&cfg, ABT_sched_config_automatic, 1, ABT_sched_config_var_end));
            int steal = (int)vrt_range(r, 2);
            g_w.sched_predef = steal ? -2 : -1;
            for (int i = 1; i < nes; i++) {
                ABT_pool mine[W_MAXES];
                int n = 0;
                mine[n++] = g_w.pools[i];
                if (steal)
                    for (int j = 1; j < nes; j++)
                        if (j != i)
                            mine[n++] = g_w.pools[j];
                ABT_sched s;
                VRT_ABT(ABT_sched_create(&g_usched_def, n, mine, cfg, &s));
                VRT_ABT(ABT_xstream_create(s, &g_w.xs[i]));
            }
            VRT_ABT(ABT_sched_config_free(&cfg));
        }
        vrt_watch_pools(g_w.pools, shared ? 1 : nes);
        vrt_count(c_user_sched, 1);
    }
    /* pool table and who serves what */
    g_nespools = g_w.nes;
    g_npools = g_w.nes;
    for (int i = 0; i < g_w.nes; i++) {
        g_pools[i] = g_w.pools[i];
        int rank = -1;
        VRT_ABT(ABT_xstream_get_rank(g_w.xs[i], &rank));
        if (rank != i)
            vrt_fatal("unexpected rank %d for stream %d", rank, i);
        g_xs_by_rank[i] = g_w.xs[i];
    }
    int stealing = g_w.sched_predef == ABT_SCHED_RANDWS || g_w.sched_predef == -2;
    for (int i = 0; i < g_w.nes; i++) {
        if (g_w.shared)
            g_serve[i] = (1u << g_w.nes) - 1;
        else if (stealing && i > 0)
            g_serve[i] = ((1u << g_w.nes) - 1) & ~1u; /* all secondary streams */
        else
            g_serve[i] = 1u << i;
    }
    if (user)
        snprintf(desc, dl, "es=%d,%s,pool=%s,sched=user%s", g_w.nes, g_w.shared ? "shared" : "private",
                 w_pool_kind_name(pk), g_w.sched_predef == -2 ? "+steal" : "");
    else
        world_describe(&g_w, desc, dl);
}

/* external creator thread: creates named units and frees them */
typedef struct {
    int n;
    uint64_t seed;
    pthread_t pt;
    int done; /* atomic */
} extc_t;
static void *ext_creator(void *arg)
{
    extc_t *e = (extc_t *)arg;
    vrt_rng r;
    vrt_rng_init(&r, e->seed, 5);
    unit_t *mine[16];
    int m = 0;
    for (int i = 0; i < e->n && i < 16; i++) {
        unit_t *u = new_unit(&r, -2, 1);
        if (!u)
            break;
        u->kind = vrt_range(&r, 2) ? K_ULT_NAMED : K_TASK_NAMED;
        u->pool = (int)vrt_range(&r, (uint64_t)g_nespools);
        u->via = VIA_EXT;
        launch(u);
        mine[m++] = u;
    }
    for (int i = 0; i < m; i++)
        join_unit(mine[i], "external thread");
    __atomic_store_n(&e->done, 1, __ATOMIC_SEQ_CST);
    return NULL;
}

static void run_forest(vrt_rng *r, int idx, int max_es, int cap)
{
    char desc[160];
    VRT_ABT(ABT_init(0, NULL));
    forest_world(r, max_es, desc, sizeof(desc));
    g_nu = 0;
    memset(g_u_ready, 0, sizeof(g_u_ready));
    g_nev = 0;
    g_ev_users = 0;
    g_cap = 50 + (int)vrt_range(r, (uint64_t)cap);
    if (g_cap > MAXU)
        g_cap = MAXU;
    for (int i = 0; i < MAXEV; i++)
        VRT_ABT(ABT_eventual_create(0, &g_ev[i]));
    /* stacked schedulers: pool fed first, then added */
    int nstack = (int)vrt_range(r, 3);
    for (int s = 0; s < nstack && g_npools < MAXPOOLS; s++) {
        int pi = g_npools++;
        VRT_ABT(ABT_pool_create_basic(ABT_POOL_FIFO, ABT_POOL_ACCESS_MPMC, ABT_TRUE, &g_pools[pi]));
        int host = (int)vrt_range(r, (uint64_t)g_nespools);
        g_serve[pi] = g_serve[host];
        int n = 1 + (int)vrt_range(r, 6);
        for (int i = 0; i < n; i++) {
            unit_t *u = new_unit(r, -1, g_max_depth - 1);
            if (!u)
                break;
            u->kind = vrt_range(r, 2) ? K_ULT_UNNAMED : K_TASK_UNNAMED; /* children stay in this pool */
            u->pool = pi;
            u->via = VIA_CREATE;
            launch(u);
        }
        ABT_sched st;
        static const ABT_sched_predef pd[] = { ABT_SCHED_BASIC, ABT_SCHED_PRIO, ABT_SCHED_RANDWS, ABT_SCHED_DEFAULT };
        VRT_ABT(ABT_sched_create_basic(pd[vrt_range(r, 4)], 1, &g_pools[pi], ABT_SCHED_CONFIG_NULL, &st));
        VRT_ABT(ABT_pool_add_sched(g_pools[host], st));
        vrt_count(c_stacked, 1);
    }
    /* external creators */
    int next = (int)vrt_range(r, 3);
    extc_t ex[2];
    for (int i = 0; i < next; i++) {
        ex[i].n = 1 + (int)vrt_range(r, 12);
        ex[i].seed = vrt_next(r);
        ex[i].done = 0;
        pthread_create(&ex[i].pt, NULL, ext_creator, &ex[i]);
        vrt_count(c_ext_creators, 1);
    }
    /* roots from the primary ULT */
    unit_t root;
    memset(&root, 0, sizeof(root));
    root.id = -1;
    root.depth = 0;
    root.pool = 0;
    vrt_rng pr = { vrt_next(r) };
    int rounds = 2 + (int)vrt_range(r, 6);
    for (int i = 0; i < rounds && vrt_num_violations() == 0; i++)
        run_script(&root, &pr, 0, 0);
    /* join the secondary streams: afterwards every unit whose pool only that
     * stream schedules must have completed */
    int created_before_join = __atomic_load_n(&g_nu, __ATOMIC_SEQ_CST);
    (void)created_before_join;
    /* external creators first (they create into any pool) */
    /* pthread_join would block the primary stream, which the external threads'
     * units may need: keep scheduling until they are done */
    for (int i = 0; i < next; i++) {
        while (!__atomic_load_n(&ex[i].done, __ATOMIC_SEQ_CST))
            ABT_thread_yield();
        pthread_join(ex[i].pt, NULL);
    }
    vrt_watch_pools(NULL, 0);
    for (int i = 1; i < g_w.nes && vrt_num_violations() == 0; i++) {
        VRT_ABT(ABT_xstream_join(g_w.xs[i]));
        ABT_xstream_state st;
        VRT_ABT(ABT_xstream_get_state(g_w.xs[i], &st));
        VRT_CHECK(st == ABT_XSTREAM_STATE_TERMINATED, "units:xstream-state-after-join", "state %d", (int)st);
        int nu = __atomic_load_n(&g_nu, __ATOMIC_SEQ_CST);
        for (int k = 0; k < nu; k++) {
            unit_t *u = &g_u[k];
            /* slots that another stream is filling in right now belong to
             * pools of other streams */
            if (!__atomic_load_n(&g_u_ready[k], __ATOMIC_ACQUIRE))
                continue;
            uint32_t mask = g_serve[u->pool];
            if (mask == (1u << i)) {
                vrt_count(c_after_xjoin, 1);
                int st2 = __atomic_load_n(&u->starts, __ATOMIC_SEQ_CST);
                int done = __atomic_load_n(&u->completions, __ATOMIC_SEQ_CST);
                if (done != 1) {
                    vrt_violation("units:xstream-join-returned-before-completion",
                                  "ABT_xstream_join(stream %d) returned but unit %d (kind %d, via %d, parent %d) in its "
                                  "private pool has started %d and completed %d times", i, u->id, u->kind, u->via,
                                  u->parent, st2, done);
                    break;
                }
            }
        }
        if (!g_w.shared && vrt_num_violations() == 0) {
            size_t sz = 1, tot = 1;
            VRT_ABT(ABT_pool_get_size(g_w.pools[i], &sz));
            VRT_ABT(ABT_pool_get_total_size(g_w.pools[i], &tot));
            int stealing = g_w.sched_predef == ABT_SCHED_RANDWS || g_w.sched_predef == -2;
            if (!stealing)
                VRT_CHECK(sz == 0 && tot == 0, "units:pool-not-empty-after-join",
                          "pool of joined stream %d reports size %zu total %zu", i, sz, tot);
        }
    }
    for (int i = 1; i < g_w.nes && vrt_num_violations() == 0; i++)
        VRT_ABT(ABT_xstream_free(&g_w.xs[i]));
    if (vrt_num_violations())
        return;
    /* eventuals may only be freed when nobody will touch them any more; all
     * other pending units are left for ABT_finalize to complete */
    for (long spin = 0; __atomic_load_n(&g_ev_users, __ATOMIC_SEQ_CST) > 0; spin++) {
        ABT_thread_yield();
        if (spin == 3000000 && vrt_arg_has("verbose")) {
            int nu2 = __atomic_load_n(&g_nu, __ATOMIC_SEQ_CST);
            fprintf(stderr, "STUCK [%s] ev_users=%d\n", desc, g_ev_users);
            for (int k = 0; k < nu2; k++)
                if (g_u[k].completions != 1)
                    fprintf(stderr, " unit %d kind %d pool %d via %d parent %d depth %d starts %d evw %d evs %d\n", k,
                            g_u[k].kind, g_u[k].pool, g_u[k].via, g_u[k].parent, g_u[k].depth, g_u[k].starts,
                            g_u[k].ev_wait, g_u[k].ev_set);
        }
    }
    for (int i = 0; i < MAXEV; i++)
        VRT_ABT(ABT_eventual_free(&g_ev[i]));
    VRT_ABT(ABT_finalize());
    int nu = __atomic_load_n(&g_nu, __ATOMIC_SEQ_CST);
    int bykind[4] = { 0, 0, 0, 0 };
    for (int k = 0; k < nu; k++) {
        unit_t *u = &g_u[k];
        bykind[u->kind]++;
        int st = __atomic_load_n(&u->starts, __ATOMIC_SEQ_CST);
        int done = __atomic_load_n(&u->completions, __ATOMIC_SEQ_CST);
        if (st != 1 || done != 1) {
            vrt_violation(st == 0 ? "units:lost-unit" : "units:not-exactly-once",
                          "after ABT_finalize unit %d (kind %d, pool %d, via %d, parent %d, depth %d) has started %d and "
                          "completed %d times [%s]", u->id, u->kind, u->pool, u->via, u->parent, u->depth, st, done, desc);
            break;
        }
    }
    vrt_count(c_units, (uint64_t)nu);
    if (idx < 3)
        vrt_sample("program %d: %s, %d units (named ULT %d, unnamed ULT %d, named tasklet %d, unnamed tasklet %d), %d "
                   "stacked schedulers, %d external creators, %d eventual pairs, delay=%s", idx, desc, nu, bykind[0],
                   bykind[1], bykind[2], bykind[3], nstack, next, g_nev < MAXEV ? g_nev : MAXEV, vrt_delay_profile_name());
    vrt_signature_add("%s,st%d,ex%d", desc, nstack, next);
    vrt_count(c_cases, 1);
}


/* ======================================================================= */
/* mode=join (C03): join/free return after, and only after, termination */
enum { JC_ULT_SAME = 0, JC_ULT_OTHER, JC_TASKLET, JC_PRIMARY, JC_EXT };
enum { JB_RETURN = 0, JB_SELF_EXIT, JB_THREAD_EXIT, JB_EXIT_TO, JB_CANCEL_BEFORE, JB_CANCEL_RUNNING, JB_BLOCK_FIRST };
enum { JT_BEFORE_START = 0, JT_WHILE_RUNNING, JT_AFTER_TERM };
static const char *jc_name[] = { "ult-same-stream", "ult-other-stream", "tasklet", "primary", "external" };
static const char *jb_name[] = { "return", "self_exit", "thread_exit", "exit_to", "cancel-before-start", "cancel-while-running", "block-first" };
static const char *jt_name[] = { "before-start", "while-running", "after-termination" };

typedef struct {
    int caller, tkind, behav, timing, api;
    ABT_thread th[2];
    int ntargets;
    uint64_t pattern[2][64];
    uint64_t salt;
    int started[2];   /* atomic */
    int body_done[2]; /* atomic */
    int slices[2];    /* atomic */
    int joiner_in;    /* atomic */
    int joiner_done;  /* atomic */
    int blocker_running, release; /* atomic */
    ABT_thread helper; /* exit_to target */
    int helper_ran;    /* atomic */
    ABT_eventual ev;
    int tpool;         /* pool index of the targets */
} jtrial_t;

static int c_jmany_null;
static int c_jtrials, c_jcaller[5], c_jbehav[7], c_jtiming[3], c_jmany, c_jdistinct;

static void jhelper_fn(void *arg)
{
    jtrial_t *t = (jtrial_t *)arg;
    __atomic_store_n(&t->helper_ran, 1, __ATOMIC_SEQ_CST);
}

static void jtarget_common(jtrial_t *t, int which, int is_task)
{
    __atomic_store_n(&t->started[which], 1, __ATOMIC_SEQ_CST);
    if (t->timing == JT_WHILE_RUNNING && t->behav != JB_CANCEL_RUNNING) {
        /* keep running until the joiner is (about to be) inside join */
        while (!__atomic_load_n(&t->joiner_in, __ATOMIC_SEQ_CST)) {
            if (is_task)
                sched_yield();
            else
                ABT_thread_yield();
            __atomic_fetch_add(&t->slices[which], 1, __ATOMIC_RELAXED);
        }
    }
    if (t->behav == JB_CANCEL_RUNNING) {
        /* runs until cancelled (the joiner cancels, then joins) */
        for (;;) {
            __atomic_fetch_add(&t->slices[which], 1, __ATOMIC_SEQ_CST);
            ABT_thread_yield();
        }
    }
    if (t->behav == JB_BLOCK_FIRST)
        VRT_ABT(ABT_eventual_wait(t->ev, NULL));
    for (int i = 0; i < 64; i++)
        t->pattern[which][i] = vrt_hash64(t->salt + (uint64_t)which * 1000 + (uint64_t)i);
    __atomic_store_n(&t->body_done[which], 1, __ATOMIC_SEQ_CST);
    if (is_task)
        return;
    if (t->behav == JB_SELF_EXIT) {
        ABT_self_exit();
        vrt_violation("join:ran-after-exit", "target continued after ABT_self_exit");
    } else if (t->behav == JB_THREAD_EXIT) {
        ABT_thread_exit();
        vrt_violation("join:ran-after-exit", "target continued after ABT_thread_exit");
    } else if (t->behav == JB_EXIT_TO && which == 0) {
        ABT_self_exit_to(t->helper);
        vrt_violation("join:ran-after-exit", "target continued after ABT_self_exit_to");
    }
}
static void jtarget0(void *arg)
{
    jtrial_t *t = (jtrial_t *)arg;
    jtarget_common(t, 0, t->tkind == 1);
}
static void jtarget1(void *arg)
{
    jtrial_t *t = (jtrial_t *)arg;
    jtarget_common(t, 1, t->tkind == 1);
}
static void jblocker(void *arg)
{
    jtrial_t *t = (jtrial_t *)arg;
    __atomic_store_n(&t->blocker_running, 1, __ATOMIC_SEQ_CST);
    while (!__atomic_load_n(&t->release, __ATOMIC_SEQ_CST))
        sched_yield(); /* occupies the stream without yielding to the scheduler */
}

static void jcheck_after(jtrial_t *t, const char *what, int joined_only)
{
    for (int k = 0; k < t->ntargets; k++) {
        int cancelled = t->behav == JB_CANCEL_BEFORE || t->behav == JB_CANCEL_RUNNING;
        if (!cancelled) {
            if (!__atomic_load_n(&t->body_done[k], __ATOMIC_SEQ_CST)) {
                vrt_violation("join:returned-before-termination",
                              "%s returned (caller %s, target %s behaviour %s, join issued %s) but the target's "
                              "function has not finished (started=%d)", what, jc_name[t->caller],
                              t->tkind ? "tasklet" : "ULT", jb_name[t->behav], jt_name[t->timing], t->started[k]);
                return;
            }
            for (int i = 0; i < 64; i++)
                if (t->pattern[k][i] != vrt_hash64(t->salt + (uint64_t)k * 1000 + (uint64_t)i)) {
                    vrt_violation("join:target-writes-not-visible",
                                  "%s returned (caller %s) but word %d written by the target is not visible", what,
                                  jc_name[t->caller], i);
                    return;
                }
        }
        if (joined_only && t->th[k] != ABT_THREAD_NULL) {
            ABT_thread_state st;
            if (ABT_thread_get_state(t->th[k], &st) == ABT_SUCCESS && st != ABT_THREAD_STATE_TERMINATED)
                vrt_violation("join:state-not-terminated", "%s returned (caller %s, behaviour %s, %s) but the target's "
                              "state is %d", what, jc_name[t->caller], jb_name[t->behav], jt_name[t->timing], (int)st);
        }
        if (t->behav == JB_CANCEL_RUNNING) {
            int s1 = __atomic_load_n(&t->slices[k], __ATOMIC_SEQ_CST);
            for (volatile int i = 0; i < 20000; i++)
                ;
            int s2 = __atomic_load_n(&t->slices[k], __ATOMIC_SEQ_CST);
            if (s1 != s2)
                vrt_violation("join:target-still-running", "%s returned but the cancelled target keeps running", what);
        }
    }
}

static void jjoiner_do(jtrial_t *t)
{
    if (t->timing == JT_AFTER_TERM) {
        /* wait until the target(s) are terminated */
        for (int k = 0; k < t->ntargets; k++) {
            for (;;) {
                ABT_thread_state st = ABT_THREAD_STATE_READY;
                ABT_thread_get_state(t->th[k], &st);
                if (st == ABT_THREAD_STATE_TERMINATED)
                    break;
                if (t->caller == JC_EXT || t->caller == JC_TASKLET)
                    sched_yield();
                else
                    ABT_thread_yield();
            }
        }
    }
    if (t->behav == JB_CANCEL_BEFORE || t->behav == JB_CANCEL_RUNNING) {
        if (t->behav == JB_CANCEL_RUNNING)
            while (!__atomic_load_n(&t->started[0], __ATOMIC_SEQ_CST)) {
                if (t->caller == JC_EXT || t->caller == JC_TASKLET)
                    sched_yield();
                else
                    ABT_thread_yield();
            }
        for (int k = 0; k < t->ntargets; k++)
            VRT_ABT(ABT_thread_cancel(t->th[k]));
    }
    __atomic_store_n(&t->joiner_in, 1, __ATOMIC_SEQ_CST);
    vrt_call_begin("join/free of the targets of a join trial");
    if (t->api == 0) {
        for (int k = 0; k < t->ntargets; k++) {
            int rc = t->tkind ? ABT_task_join(t->th[k]) : ABT_thread_join(t->th[k]);
            VRT_CHECK(rc == ABT_SUCCESS, "join:rc", "join returned %d", rc);
        }
        jcheck_after(t, "ABT_thread_join", 1);
        for (int k = 0; k < t->ntargets; k++) {
            int rc = t->tkind ? ABT_task_free(&t->th[k]) : ABT_thread_free(&t->th[k]);
            VRT_CHECK(rc == ABT_SUCCESS, "join:free-rc", "free returned %d", rc);
        }
    } else if (t->api == 1) {
        for (int k = 0; k < t->ntargets; k++) {
            int rc = t->tkind ? ABT_task_free(&t->th[k]) : ABT_thread_free(&t->th[k]);
            VRT_CHECK(rc == ABT_SUCCESS, "join:free-rc", "free returned %d", rc);
        }
        jcheck_after(t, "ABT_thread_free", 0);
    } else {
        /* the list may contain ABT_THREAD_NULL entries, which are skipped */
        ABT_thread list[2 * 8 + 2];
        int pos[8], nl = 0;
        for (int k = 0; k < t->ntargets && k < 8; k++) {
            if ((vrt_hash64(t->salt + (uint64_t)k) & 3) == 0) {
                list[nl++] = ABT_THREAD_NULL;
                vrt_count(c_jmany_null, 1);
            }
            pos[k] = nl;
            list[nl++] = t->th[k];
        }
        if (vrt_hash64(t->salt) & 1) {
            VRT_ABT(ABT_thread_join_many(nl, list));
            jcheck_after(t, "ABT_thread_join_many", 1);
        }
        VRT_ABT(ABT_thread_free_many(nl, list));
        for (int k = 0; k < t->ntargets && k < 8; k++)
            t->th[k] = list[pos[k]];
        jcheck_after(t, "ABT_thread_free_many", 0);
        vrt_count(c_jmany, 1);
    }
    vrt_call_end();
    for (int k = 0; k < t->ntargets; k++) {
        VRT_CHECK(t->th[k] == ABT_THREAD_NULL || t->th[k] == ABT_TASK_NULL, "join:handle-not-null",
                  "handle is %p after free", (void *)t->th[k]);
        /* a second free of the NULL handle must be rejected, not crash */
        int rc = ABT_thread_free(&t->th[k]);
        VRT_CHECK(rc != ABT_SUCCESS, "join:double-free-accepted", "ABT_thread_free(NULL handle) returned success");
    }
    __atomic_store_n(&t->joiner_done, 1, __ATOMIC_SEQ_CST);
    vrt_progress();
}
static void jjoiner_fn(void *arg)
{
    jjoiner_do((jtrial_t *)arg);
}
static void *jjoiner_pt(void *arg)
{
    jjoiner_do((jtrial_t *)arg);
    return NULL;
}
static void jsetter_fn(void *arg)
{
    jtrial_t *t = (jtrial_t *)arg;
    while (!__atomic_load_n(&t->joiner_in, __ATOMIC_SEQ_CST) && t->timing != JT_AFTER_TERM)
        ABT_thread_yield();
    VRT_ABT(ABT_eventual_set(t->ev, NULL, 0));
}

static void run_join_trial(vrt_rng *r, world_t *w, ABT_pool staging, int idx)
{
    static jtrial_t T;
    jtrial_t *t = &T;
    memset(t, 0, sizeof(*t));
    t->salt = vrt_next(r);
    /* draw a legal combination */
    for (;;) {
        t->caller = (int)vrt_range(r, 5);
        t->tkind = vrt_range(r, 4) == 0;
        t->behav = (int)vrt_range(r, 7);
        t->timing = (int)vrt_range(r, 3);
        t->api = (int)vrt_range(r, 3);
        if (t->tkind && t->behav != JB_RETURN && t->behav != JB_CANCEL_BEFORE)
            continue; /* tasklets just return */
        if (t->tkind && t->timing == JT_WHILE_RUNNING && t->caller == JC_ULT_SAME)
            continue; /* a spinning tasklet would starve the joiner on the same stream */
        if (t->behav == JB_CANCEL_BEFORE && t->timing != JT_BEFORE_START)
            continue;
        if (t->behav == JB_CANCEL_RUNNING && t->timing == JT_BEFORE_START)
            continue;
        if (t->behav == JB_CANCEL_RUNNING && t->timing == JT_AFTER_TERM)
            continue;
        if (t->behav == JB_BLOCK_FIRST && t->timing == JT_BEFORE_START)
            continue;
        if (t->api == 2 && t->tkind)
            continue;
        break;
    }
    if (vrt_arg_has("verbose"))
        fprintf(stderr, "trial %d caller=%s tkind=%d behav=%s timing=%s api=%d\n", idx, jc_name[t->caller], t->tkind,
                jb_name[t->behav], jt_name[t->timing], t->api);
    t->ntargets = t->api == 2 ? 2 : 1;
    /* the targets live in the pool of stream 1; a "same stream" joiner too */
    t->tpool = 1;
    int jpool = t->caller == JC_ULT_SAME ? 1 : 2;
    if (t->behav == JB_BLOCK_FIRST)
        VRT_ABT(ABT_eventual_create(0, &t->ev));
    ABT_thread blocker = ABT_THREAD_NULL, joiner = ABT_THREAD_NULL, setter = ABT_THREAD_NULL;
    pthread_t jpt;
    int busy = t->timing == JT_BEFORE_START;
    if (busy) {
        VRT_ABT(ABT_thread_create(w->pools[1], jblocker, t, ABT_THREAD_ATTR_NULL, &blocker));
        while (!__atomic_load_n(&t->blocker_running, __ATOMIC_SEQ_CST))
            ABT_thread_yield();
    }
    if (t->behav == JB_EXIT_TO) {
        /* a ready ULT that is not in any pool */
        ABT_thread popped;
        VRT_ABT(ABT_thread_create(staging, jhelper_fn, t, ABT_THREAD_ATTR_NULL, &t->helper));
        VRT_ABT(ABT_pool_pop_thread(staging, &popped));
        if (popped != t->helper)
            vrt_fatal("staging pool returned another unit");
    }
    /* same-stream joiner queued before the targets (see DESIGN C03) when the
     * join must precede the start; it reads the handles when it runs */
    int joiner_first = busy && t->caller == JC_ULT_SAME;
    if (joiner_first)
        VRT_ABT(ABT_thread_create(w->pools[jpool], jjoiner_fn, t, ABT_THREAD_ATTR_NULL, &joiner));
    for (int k = 0; k < t->ntargets; k++) {
        void (*fn)(void *) = k == 0 ? jtarget0 : jtarget1;
        if (t->tkind)
            VRT_ABT(ABT_task_create(w->pools[t->tpool], fn, t, &t->th[k]));
        else
            VRT_ABT(ABT_thread_create(w->pools[t->tpool], fn, t, ABT_THREAD_ATTR_NULL, &t->th[k]));
    }
    if (t->behav == JB_BLOCK_FIRST)
        VRT_ABT(ABT_thread_create(w->pools[0], jsetter_fn, t, ABT_THREAD_ATTR_NULL, &setter)); /* stream 2 may be blocked by a tasklet joiner */
    switch (t->caller) {
        case JC_ULT_SAME:
        case JC_ULT_OTHER:
            if (!joiner_first)
                VRT_ABT(ABT_thread_create(w->pools[jpool], jjoiner_fn, t, ABT_THREAD_ATTR_NULL, &joiner));
            break;
        case JC_TASKLET:
            VRT_ABT(ABT_task_create(w->pools[2], jjoiner_fn, t, &joiner));
            break;
        case JC_EXT:
            pthread_create(&jpt, NULL, jjoiner_pt, t);
            break;
        default:
            break;
    }
    if (busy) {
        /* let the joiner get inside join before the target may start */
        if (t->caller != JC_PRIMARY && t->caller != JC_ULT_SAME) {
            while (!__atomic_load_n(&t->joiner_in, __ATOMIC_SEQ_CST))
                ABT_thread_yield();
            for (volatile int i = 0; i < 2000; i++)
                ;
        }
        if (t->caller == JC_PRIMARY) {
            /* the primary itself joins: a helper releases the blocker a little later */
            __atomic_store_n(&t->release, 0, __ATOMIC_SEQ_CST);
        }
    }
    if (t->caller == JC_PRIMARY) {
        if (busy) {
            /* release from another thread shortly after we entered join */
            pthread_t rel;
            extern void *jrelease_pt(void *);
            pthread_create(&rel, NULL, jrelease_pt, t);
            jjoiner_do(t);
            pthread_join(rel, NULL);
        } else {
            jjoiner_do(t);
        }
    } else {
        if (busy)
            __atomic_store_n(&t->release, 1, __ATOMIC_SEQ_CST);
        while (!__atomic_load_n(&t->joiner_done, __ATOMIC_SEQ_CST) && vrt_num_violations() == 0)
            ABT_thread_yield();
        if (t->caller == JC_EXT)
            pthread_join(jpt, NULL);
        else if (joiner != ABT_THREAD_NULL)
            VRT_ABT(ABT_thread_free(&joiner));
    }
    if (vrt_num_violations())
        return;
    if (blocker != ABT_THREAD_NULL)
        VRT_ABT(ABT_thread_free(&blocker));
    if (setter != ABT_THREAD_NULL)
        VRT_ABT(ABT_thread_free(&setter));
    if (t->behav == JB_EXIT_TO) {
        VRT_ABT(ABT_thread_free(&t->helper));
        VRT_CHECK(t->helper_ran == 1, "join:exit-to-target-not-run", "the ULT named in ABT_self_exit_to did not run");
    }
    if (t->behav == JB_BLOCK_FIRST)
        VRT_ABT(ABT_eventual_free(&t->ev));
    vrt_count(c_jtrials, 1);
    vrt_count(c_jcaller[t->caller], 1);
    vrt_count(c_jbehav[t->behav], 1);
    vrt_count(c_jtiming[t->timing], 1);
    if (idx < 4)
        vrt_sample("join trial %d: caller=%s target=%s behaviour=%s join-issued=%s api=%s", idx, jc_name[t->caller],
                   t->tkind ? "tasklet" : "ULT", jb_name[t->behav], jt_name[t->timing],
                   t->api == 0 ? "join+free" : t->api == 1 ? "free" : "join_many/free_many");
    /* distinct combination bookkeeping */
    static unsigned char seen[5][2][7][3][3];
    if (!seen[t->caller][t->tkind][t->behav][t->timing][t->api]) {
        seen[t->caller][t->tkind][t->behav][t->timing][t->api] = 1;
        vrt_count(c_distinct, 1);
    }
}
void *jrelease_pt(void *arg)
{
    jtrial_t *t = (jtrial_t *)arg;
    while (!__atomic_load_n(&t->joiner_in, __ATOMIC_SEQ_CST))
        sched_yield();
    vrt_sleep_us(50);
    __atomic_store_n(&t->release, 1, __ATOMIC_SEQ_CST);
    return NULL;
}

static void run_join(vrt_rng *r, int trials)
{
    int done = 0;
    while (done < trials && vrt_num_violations() == 0) {
        VRT_ABT(ABT_init(0, NULL));
        world_t w;
        static const int pk[] = { ABT_POOL_FIFO, ABT_POOL_FIFO_WAIT, ABT_POOL_RANDWS };
        static const int sp[] = { ABT_SCHED_BASIC, ABT_SCHED_PRIO, ABT_SCHED_DEFAULT, ABT_SCHED_BASIC_WAIT };
        int s = sp[vrt_range(r, 4)];
        world_create(&w, 3, 0, s == ABT_SCHED_BASIC_WAIT ? ABT_POOL_FIFO_WAIT : pk[vrt_range(r, 3)], s);
        ABT_pool staging;
        VRT_ABT(ABT_pool_create_basic(ABT_POOL_FIFO, ABT_POOL_ACCESS_MPMC, ABT_FALSE, &staging));
        int batch = 40;
        for (int i = 0; i < batch && done < trials && vrt_num_violations() == 0; i++, done++)
            run_join_trial(r, &w, staging, done);
        if (vrt_num_violations())
            return;
        VRT_ABT(ABT_pool_free(&staging));
        char wd[128];
        world_describe(&w, wd, sizeof(wd));
        vrt_signature_add("%s", wd);
        world_destroy(&w);
        VRT_ABT(ABT_finalize());
        vrt_count(c_cases, 1);
    }
}

/* ======================================================================= */
/* mode=block (C06): stream join / finalize wait for blocked units that are
 * resumed later; the per-pool blocked counter is never negative and exact at
 * quiescent points */
enum { BS_EVENTUAL = 1, BS_COND, BS_SUSPEND, BS_MUTEX, BS_YIELD };
#define BMAXU 48
#define BMAXSTEP 4
typedef struct {
    int id;
    int named;
    ABT_thread th;        /* handle published by the unit itself */
    int nsteps;
    int step_kind[BMAXSTEP];
    int step_obj[BMAXSTEP];
    int waiting;          /* atomic: 0 none, else step index + 1 the unit is about to block in */
    int woken;            /* atomic: highest step index + 1 already woken by the resumer */
    int done;             /* atomic */
    int started;          /* atomic */
} bunit_t;
typedef struct {
    bunit_t u[BMAXU];
    int n;
    ABT_eventual ev[BMAXU * BMAXSTEP];
    ABT_mutex mx[BMAXU * BMAXSTEP];
    ABT_mutex cmx;
    ABT_cond cnd;
    int cond_flag[BMAXU * BMAXSTEP];
    ABT_pool pool;        /* the pool under observation */
    int resumer_go;       /* atomic */
    int resumer_done;     /* atomic */
    int all_done;         /* atomic */
    uint64_t seed;
    int sampler_stop;     /* atomic */
    ABT_pool watch[4];
    int nwatch;
} bctx2_t;
static bctx2_t g_b;
static int c_bacc[3];
static int c_bscen, c_bsteps[6], c_bjoin_with_blocked, c_bsamples, c_bfinalize, c_bexact, c_bstacked;

static int32_t pool_num_blocked(ABT_pool pool)
{
    ABTI_pool *p = ABTI_pool_get_ptr(pool);
    return ABTD_atomic_acquire_load_int32(&p->num_blocked);
}

static void bunit_fn(void *arg)
{
    bunit_t *u = (bunit_t *)arg;
    VRT_ABT(ABT_self_get_thread(&u->th));
    __atomic_store_n(&u->started, 1, __ATOMIC_SEQ_CST);
    for (int s = 0; s < u->nsteps; s++) {
        int k = u->step_kind[s], o = u->step_obj[s];
        vrt_count(c_bsteps[k], 1);
        __atomic_store_n(&u->waiting, s + 1, __ATOMIC_SEQ_CST);
        if (k == BS_EVENTUAL) {
            VRT_ABT(ABT_eventual_wait(g_b.ev[o], NULL));
        } else if (k == BS_COND) {
            VRT_ABT(ABT_mutex_lock(g_b.cmx));
            while (!g_b.cond_flag[o])
                VRT_ABT(ABT_cond_wait(g_b.cnd, g_b.cmx));
            VRT_ABT(ABT_mutex_unlock(g_b.cmx));
        } else if (k == BS_SUSPEND) {
            VRT_ABT(ABT_self_suspend());
        } else if (k == BS_MUTEX) {
            VRT_ABT(ABT_mutex_lock(g_b.mx[o]));
            VRT_ABT(ABT_mutex_unlock(g_b.mx[o]));
        } else {
            ABT_thread_yield();
        }
    }
    __atomic_store_n(&u->waiting, 0, __ATOMIC_SEQ_CST);
    __atomic_store_n(&u->done, 1, __ATOMIC_SEQ_CST);
    vrt_progress();
}

/* wakes whatever each unit is currently waiting for, until all are done */
static void resumer_body(void)
{
    bctx2_t *b = &g_b;
    while (!__atomic_load_n(&b->resumer_go, __ATOMIC_SEQ_CST))
        sched_yield();
    vrt_rng r = { b->seed };
    vrt_sleep_us(200 + (unsigned)vrt_range(&r, 3000));
    for (;;) {
        int remaining = 0;
        for (int i = 0; i < b->n; i++) {
            bunit_t *u = &b->u[i];
            if (__atomic_load_n(&u->done, __ATOMIC_SEQ_CST))
                continue;
            remaining++;
            int w = __atomic_load_n(&u->waiting, __ATOMIC_SEQ_CST);
            if (w == 0 || w <= __atomic_load_n(&u->woken, __ATOMIC_SEQ_CST))
                continue;
            int s = w - 1, k = u->step_kind[s], o = u->step_obj[s];
            if (k == BS_EVENTUAL) {
                VRT_ABT(ABT_eventual_set(b->ev[o], NULL, 0));
            } else if (k == BS_COND) {
                VRT_ABT(ABT_mutex_lock(b->cmx));
                b->cond_flag[o] = 1;
                VRT_ABT(ABT_cond_broadcast(b->cnd));
                VRT_ABT(ABT_mutex_unlock(b->cmx));
            } else if (k == BS_SUSPEND) {
                /* resume the moment BLOCKED becomes observable */
                ABT_thread_state st = ABT_THREAD_STATE_READY;
                ABT_thread_get_state(u->th, &st);
                if (st != ABT_THREAD_STATE_BLOCKED)
                    continue; /* not yet suspended: try again in the next sweep */
                VRT_ABT(ABT_thread_resume(u->th));
            } else if (k == BS_MUTEX) {
                VRT_ABT(ABT_mutex_unlock(b->mx[o]));
            }
            __atomic_store_n(&u->woken, w, __ATOMIC_SEQ_CST);
            if (vrt_range(&r, 4) == 0)
                vrt_sleep_us((unsigned)vrt_range(&r, 300));
        }
        if (!remaining)
            break;
        sched_yield();
    }
    __atomic_store_n(&b->resumer_done, 1, __ATOMIC_SEQ_CST);
}
static void *resumer_pt(void *arg)
{
    (void)arg;
    resumer_body();
    return NULL;
}
static void *bsampler_pt(void *arg)
{
    (void)arg;
    while (!__atomic_load_n(&g_b.sampler_stop, __ATOMIC_SEQ_CST)) {
        for (int i = 0; i < g_b.nwatch; i++) {
            int32_t nb = pool_num_blocked(g_b.watch[i]);
            if (nb < 0) {
                vrt_violation("block:num-blocked-negative", "pool %d reports %d blocked units", i, nb);
                return NULL;
            }
            vrt_count(c_bsamples, 1);
        }
        for (volatile int i = 0; i < 300; i++)
            ;
    }
    return NULL;
}

static void run_block_scenario(vrt_rng *r, int idx, int max_es)
{
    bctx2_t *b = &g_b;
    memset(b, 0, sizeof(*b));
    b->seed = vrt_next(r);
    int nes, shared, pk, sp;
    world_random_config(r, max_es, &nes, &shared, &pk, &sp);
    if (nes < 2)
        nes = 2;
    /* variant: 0 = join a secondary stream with a private pool, 1 = ABT_finalize
     * with blocked units in the primary's pool, 2 = stacked scheduler whose
     * pool holds the blocked units */
    int variant = (int)vrt_range(r, 4);
    if (variant == 3)
        variant = 0;
    shared = 0; /* "pools that only that stream schedules" */
    if (sp == ABT_SCHED_RANDWS)
        sp = ABT_SCHED_BASIC; /* no stealing from the observed pool */
    VRT_ABT(ABT_init(0, NULL));
    world_t w;
    /* the victim's pool has one consumer; units are pushed by the creator, by
     * the resumer and by the stream itself */
    static const ABT_pool_access accs[] = { ABT_POOL_ACCESS_MPMC, ABT_POOL_ACCESS_MPSC, ABT_POOL_ACCESS_MPSC,
                                            ABT_POOL_ACCESS_SPSC };
    int acc_i = (int)vrt_range(r, 4);
    w_private_access = accs[acc_i];
    vrt_count(c_bacc[acc_i == 0 ? 0 : acc_i == 3 ? 2 : 1], 1);
    world_create(&w, nes, shared, pk, sp);
    w_private_access = ABT_POOL_ACCESS_MPMC;
    int victim = 1 + (int)vrt_range(r, (uint64_t)nes - 1);
    ABT_pool target_pool = variant == 1 ? w.pools[0] : w.pools[victim];
    ABT_pool stacked_pool = ABT_POOL_NULL;
    if (variant == 2) {
        VRT_ABT(ABT_pool_create_basic(ABT_POOL_FIFO, ABT_POOL_ACCESS_MPMC, ABT_TRUE, &stacked_pool));
        target_pool = stacked_pool;
        vrt_count(c_bstacked, 1);
    }
    b->pool = target_pool;
    /* only pools that stay allocated while the sampler runs: a stacked
     * scheduler's (automatic) pool is freed when that scheduler finishes */
    if (variant == 1)
        b->watch[b->nwatch++] = w.pools[0];
    else
        b->watch[b->nwatch++] = w.pools[victim];
    b->n = 1 + (int)vrt_range(r, BMAXU - 1);
    /* In the finalize variant the units use the objects until ABT_finalize
     * returns, after which nothing can be freed through the API: use statically
     * initialised mutexes/conds there (and no eventuals). */
    static ABT_mutex_memory mxmem[BMAXU * BMAXSTEP + 1];
    static ABT_cond_memory cmem;
    static const ABT_mutex_memory mxinit = ABT_MUTEX_INITIALIZER;
    static const ABT_cond_memory cinit = ABT_COND_INITIALIZER;
    if (variant == 1) {
        mxmem[BMAXU * BMAXSTEP] = mxinit;
        cmem = cinit;
        b->cmx = ABT_MUTEX_MEMORY_GET_HANDLE(&mxmem[BMAXU * BMAXSTEP]);
        b->cnd = ABT_COND_MEMORY_GET_HANDLE(&cmem);
    } else {
        VRT_ABT(ABT_mutex_create(&b->cmx));
        VRT_ABT(ABT_cond_create(&b->cnd));
    }
    int nobj = 0;
    for (int i = 0; i < b->n; i++) {
        bunit_t *u = &b->u[i];
        u->id = i;
        u->named = variant == 1 ? 0 : (int)vrt_range(r, 2);
        u->nsteps = 1 + (int)vrt_range(r, BMAXSTEP);
        for (int s = 0; s < u->nsteps; s++) {
            /* the first step always really blocks */
            int k = 1 + (int)vrt_range(r, s == 0 ? 4 : 5);
            if (variant == 1 && k == BS_EVENTUAL)
                k = BS_COND;
            u->step_kind[s] = k;
            u->step_obj[s] = nobj;
            if (k == BS_EVENTUAL)
                VRT_ABT(ABT_eventual_create(0, &b->ev[nobj]));
            if (k == BS_MUTEX) {
                if (variant == 1) {
                    mxmem[nobj] = mxinit;
                    b->mx[nobj] = ABT_MUTEX_MEMORY_GET_HANDLE(&mxmem[nobj]);
                } else {
                    VRT_ABT(ABT_mutex_create(&b->mx[nobj]));
                }
                /* held by the resumer side from the start (locked here by the
                 * primary ULT; ABT_mutex may be unlocked by another caller) */
                VRT_ABT(ABT_mutex_lock(b->mx[nobj]));
            }
            nobj++;
        }
    }
    /* sampler of the blocked counter */
    pthread_t samp, rpt;
    pthread_create(&samp, NULL, bsampler_pt, NULL);
    pthread_create(&rpt, NULL, resumer_pt, NULL);
    ABT_thread ths[BMAXU];
    for (int i = 0; i < b->n; i++) {
        bunit_t *u = &b->u[i];
        VRT_ABT(ABT_thread_create(target_pool, bunit_fn, u, ABT_THREAD_ATTR_NULL, u->named ? &ths[i] : NULL));
    }
    if (variant == 2) {
        ABT_sched st;
        VRT_ABT(ABT_sched_create_basic(ABT_SCHED_BASIC, 1, &stacked_pool, ABT_SCHED_CONFIG_NULL, &st));
        VRT_ABT(ABT_pool_add_sched(w.pools[victim], st));
    }
    /* wait until every unit sits in its first blocking call: quiescent point */
    for (int i = 0; i < b->n && vrt_num_violations() == 0; i++) {
        bunit_t *u = &b->u[i];
        for (;;) {
            ABT_thread_state st = ABT_THREAD_STATE_READY;
            if (__atomic_load_n(&u->started, __ATOMIC_SEQ_CST))
                ABT_thread_get_state(u->th, &st);
            if (st == ABT_THREAD_STATE_BLOCKED)
                break;
            ABT_thread_yield();
        }
    }
    /* mutex waiters are BLOCKED too (waitlist suspend).  Exactness of the
     * counter: every unit is blocked exactly once */
    {
        int32_t nb = pool_num_blocked(target_pool);
        size_t sz = 0, tot = 0;
        VRT_ABT(ABT_pool_get_size(target_pool, &sz));
        VRT_ABT(ABT_pool_get_total_size(target_pool, &tot));
        vrt_count(c_bexact, 1);
        if (nb != b->n || tot - sz != (size_t)b->n)
            vrt_violation("block:num-blocked-inexact",
                          "%d units of the pool are blocked, nothing else is in flight, but the blocked counter is %d "
                          "(total_size %zu - size %zu)", b->n, nb, tot, sz);
    }
    char wd[128];
    world_describe(&w, wd, sizeof(wd));
    /* issue the join / finalize while they are blocked; the resumer fires later */
    __atomic_store_n(&b->resumer_go, 1, __ATOMIC_SEQ_CST);
    if (variant == 1) {
        /* secondary streams first */
        world_destroy(&w);
        vrt_count(c_bfinalize, 1);
        /* the primary's pool is freed inside ABT_finalize */
        __atomic_store_n(&b->sampler_stop, 1, __ATOMIC_SEQ_CST);
        pthread_join(samp, NULL);
        VRT_ABT(ABT_finalize());
        for (int i = 0; i < b->n; i++)
            if (!__atomic_load_n(&b->u[i].done, __ATOMIC_SEQ_CST)) {
                vrt_violation("block:finalize-returned-before-completion",
                              "ABT_finalize returned but unit %d, blocked when it was called and resumed later, has not "
                              "completed [%s]", i, wd);
                break;
            }
        pthread_join(rpt, NULL);
        /* the sync objects of this scenario die with the runtime */
    } else {
        vrt_count(c_bjoin_with_blocked, 1);
        vrt_watch_pools(NULL, 0);
        VRT_ABT(ABT_xstream_join(w.xs[victim]));
        ABT_xstream_state st;
        VRT_ABT(ABT_xstream_get_state(w.xs[victim], &st));
        VRT_CHECK(st == ABT_XSTREAM_STATE_TERMINATED, "block:xstream-state", "state %d after join", (int)st);
        for (int i = 0; i < b->n; i++)
            if (!__atomic_load_n(&b->u[i].done, __ATOMIC_SEQ_CST)) {
                vrt_violation("block:xstream-join-returned-before-completion",
                              "ABT_xstream_join returned but unit %d (of %d) of its private pool, blocked when the join was "
                              "issued and resumed later, has not completed (variant %d) [%s]", i, b->n, variant, wd);
                break;
            }
        if (vrt_num_violations() == 0) {
            int32_t nb = pool_num_blocked(w.pools[victim]);
            VRT_CHECK(nb == 0, "block:num-blocked-nonzero-at-quiescence", "blocked counter %d after the join", nb);
        }
        __atomic_store_n(&b->sampler_stop, 1, __ATOMIC_SEQ_CST);
        pthread_join(samp, NULL);
        pthread_join(rpt, NULL);
        if (vrt_num_violations())
            return;
        for (int i = 0; i < b->n; i++)
            if (b->u[i].named)
                VRT_ABT(ABT_thread_free(&ths[i]));
        for (int i = 0; i < b->n; i++)
            for (int s = 0; s < b->u[i].nsteps; s++) {
                int o = b->u[i].step_obj[s];
                if (b->u[i].step_kind[s] == BS_EVENTUAL)
                    VRT_ABT(ABT_eventual_free(&b->ev[o]));
                if (b->u[i].step_kind[s] == BS_MUTEX)
                    VRT_ABT(ABT_mutex_free(&b->mx[o]));
            }
        VRT_ABT(ABT_cond_free(&b->cnd));
        VRT_ABT(ABT_mutex_free(&b->cmx));
        VRT_ABT(ABT_xstream_free(&w.xs[victim]));
        for (int i = 1; i < w.nes; i++)
            if (i != victim) {
                VRT_ABT(ABT_xstream_join(w.xs[i]));
                VRT_ABT(ABT_xstream_free(&w.xs[i]));
            }
        VRT_ABT(ABT_finalize());
    }
    if (idx < 3)
        vrt_sample("block scenario %d: %s, %s with %d units (1-4 blocking steps each: eventual/cond/self_suspend/mutex/"
                   "yield) all blocked when the call is issued, resumed 0.2-3 ms later by an external thread", idx, wd,
                   variant == 1 ? "ABT_finalize" : variant == 2 ? "ABT_xstream_join (units in a stacked scheduler's pool)"
                                                                : "ABT_xstream_join", b->n);
    vrt_signature_add("%s,v%d,n%d", wd, variant, b->n > 8 ? 9 : b->n);
    vrt_count(c_bscen, 1);
    vrt_count(c_cases, 1);
}

/* ======================================================================= */
/* mode=blockmig (C06): the blocked counters stay exact when units that carry a
 * migration request block (the request is handled inside the suspend callback)
 * or are asked to migrate while they are blocked */
enum { MB_EVENTUAL = 0, MB_COND, MB_SUSPEND, MB_MUTEX, MB_JOIN, MB_YIELD, MB_NKINDS };
static const char *mb_name[] = { "eventual", "cond", "self_suspend", "mutex", "join", "yield" };
#define MBMAXU 24
#define MBMAXSTEP 5
#define MBMAXP 4
typedef struct {
    int id;
    ABT_thread th;
    int nsteps;
    int kind[MBMAXSTEP], obj[MBMAXSTEP], mig_before[MBMAXSTEP]; /* mig_before: target pool index + 1, 0 = none */
    int waiting, woken, done, started; /* atomic */
    int slices_in_pool[MBMAXP];
} mbunit_t;
static struct {
    mbunit_t u[MBMAXU];
    int n, npools;
    ABT_pool pools[MBMAXP];
    ABT_eventual ev[MBMAXU * MBMAXSTEP];
    ABT_mutex mx[MBMAXU * MBMAXSTEP];
    ABT_thread child[MBMAXU * MBMAXSTEP];
    int child_go[MBMAXU * MBMAXSTEP];
    ABT_mutex cmx;
    ABT_cond cnd;
    int cond_flag[MBMAXU * MBMAXSTEP];
    int sampler_stop, resumer_stop;
    uint64_t seed;
} g_mb;
static int c_mbscen, c_mbsteps[MB_NKINDS], c_mbreq_self, c_mbreq_other, c_mbexact, c_mbsamples, c_mbmoved_while_blocking;

static void mbchild_fn(void *arg)
{
    int *go = (int *)arg;
    while (!__atomic_load_n(go, __ATOMIC_SEQ_CST))
        ABT_thread_yield();
}
static int mb_pool_index(ABT_pool p)
{
    for (int i = 0; i < g_mb.npools; i++)
        if (g_mb.pools[i] == p)
            return i;
    return -1;
}
static void mbunit_fn(void *arg)
{
    mbunit_t *u = (mbunit_t *)arg;
    VRT_ABT(ABT_self_get_thread(&u->th));
    __atomic_store_n(&u->started, 1, __ATOMIC_SEQ_CST);
    for (int s = 0; s < u->nsteps && vrt_num_violations() == 0; s++) {
        int k = u->kind[s], o = u->obj[s];
        ABT_pool before, after;
        VRT_ABT(ABT_self_get_last_pool(&before));
        if (u->mig_before[s]) {
            /* the request is pending when the unit blocks */
            int rc = ABT_thread_migrate_to_pool(u->th, g_mb.pools[u->mig_before[s] - 1]);
            if (rc == ABT_SUCCESS)
                vrt_count(c_mbreq_self, 1);
        }
        vrt_count(c_mbsteps[k], 1);
        __atomic_store_n(&u->waiting, s + 1, __ATOMIC_SEQ_CST);
        if (k == MB_EVENTUAL) {
            VRT_ABT(ABT_eventual_wait(g_mb.ev[o], NULL));
        } else if (k == MB_COND) {
            VRT_ABT(ABT_mutex_lock(g_mb.cmx));
            while (!g_mb.cond_flag[o])
                VRT_ABT(ABT_cond_wait(g_mb.cnd, g_mb.cmx));
            VRT_ABT(ABT_mutex_unlock(g_mb.cmx));
        } else if (k == MB_SUSPEND) {
            VRT_ABT(ABT_self_suspend());
        } else if (k == MB_MUTEX) {
            VRT_ABT(ABT_mutex_lock(g_mb.mx[o]));
            VRT_ABT(ABT_mutex_unlock(g_mb.mx[o]));
        } else if (k == MB_JOIN) {
            VRT_ABT(ABT_thread_join(g_mb.child[o]));
        } else {
            ABT_thread_yield();
        }
        VRT_ABT(ABT_self_get_last_pool(&after));
        if (after != before)
            vrt_count(c_mbmoved_while_blocking, 1);
        int pi = mb_pool_index(after);
        if (pi >= 0)
            u->slices_in_pool[pi]++;
    }
    __atomic_store_n(&u->waiting, 0, __ATOMIC_SEQ_CST);
    __atomic_store_n(&u->done, 1, __ATOMIC_SEQ_CST);
    vrt_progress();
}
static void *mbsampler_pt(void *arg)
{
    (void)arg;
    while (!__atomic_load_n(&g_mb.sampler_stop, __ATOMIC_SEQ_CST)) {
        for (int i = 0; i < g_mb.npools; i++) {
            int32_t nb = pool_num_blocked(g_mb.pools[i]);
            if (nb < 0) {
                vrt_violation("block:num-blocked-negative", "pool %d reports %d blocked units (units with migration "
                              "requests block and get resumed)", i, nb);
                return NULL;
            }
            vrt_count(c_mbsamples, 1);
        }
        for (volatile int i = 0; i < 300; i++)
            ;
    }
    return NULL;
}
/* wake one blocking step of a unit; returns 1 if it did */
static int mb_wake(mbunit_t *u, vrt_rng *r)
{
    int w = __atomic_load_n(&u->waiting, __ATOMIC_SEQ_CST);
    if (w == 0 || w <= __atomic_load_n(&u->woken, __ATOMIC_SEQ_CST))
        return 0;
    int s = w - 1, k = u->kind[s], o = u->obj[s];
    if (k == MB_SUSPEND) {
        ABT_thread_state st = ABT_THREAD_STATE_READY;
        ABT_thread_get_state(u->th, &st);
        if (st != ABT_THREAD_STATE_BLOCKED)
            return 0;
    }
    if (k != MB_YIELD && vrt_range(r, 3) == 0) {
        /* a request issued by somebody else while the unit is (about to be)
         * blocked; it is handled at the unit's next scheduling point */
        ABT_thread_state st = ABT_THREAD_STATE_READY;
        ABT_thread_get_state(u->th, &st);
        if (st == ABT_THREAD_STATE_BLOCKED &&
            ABT_thread_migrate_to_pool(u->th, g_mb.pools[vrt_range(r, (uint64_t)g_mb.npools)]) == ABT_SUCCESS)
            vrt_count(c_mbreq_other, 1);
    }
    if (k == MB_EVENTUAL) {
        VRT_ABT(ABT_eventual_set(g_mb.ev[o], NULL, 0));
    } else if (k == MB_COND) {
        VRT_ABT(ABT_mutex_lock(g_mb.cmx));
        g_mb.cond_flag[o] = 1;
        VRT_ABT(ABT_cond_broadcast(g_mb.cnd));
        VRT_ABT(ABT_mutex_unlock(g_mb.cmx));
    } else if (k == MB_SUSPEND) {
        VRT_ABT(ABT_thread_resume(u->th));
    } else if (k == MB_MUTEX) {
        VRT_ABT(ABT_mutex_unlock(g_mb.mx[o]));
    } else if (k == MB_JOIN) {
        __atomic_store_n(&g_mb.child_go[o], 1, __ATOMIC_SEQ_CST);
    }
    __atomic_store_n(&u->woken, w, __ATOMIC_SEQ_CST);
    return 1;
}
static void run_blockmig(vrt_rng *r, int idx)
{
    memset(&g_mb, 0, sizeof(g_mb));
    VRT_ABT(ABT_init(0, NULL));
    g_mb.npools = 2 + (int)vrt_range(r, MBMAXP - 1);
    static const int pk[] = { ABT_POOL_FIFO, ABT_POOL_FIFO_WAIT, ABT_POOL_RANDWS };
    static const int sp[] = { ABT_SCHED_BASIC, ABT_SCHED_PRIO, ABT_SCHED_DEFAULT, ABT_SCHED_BASIC_WAIT };
    int kind = pk[vrt_range(r, 3)], sched = sp[vrt_range(r, 4)];
    if (sched == ABT_SCHED_BASIC_WAIT)
        kind = ABT_POOL_FIFO_WAIT;
    ABT_xstream xs[MBMAXP];
    for (int i = 0; i < g_mb.npools; i++) {
        VRT_ABT(ABT_pool_create_basic((ABT_pool_kind)kind, ABT_POOL_ACCESS_MPMC, ABT_FALSE, &g_mb.pools[i]));
        VRT_ABT(ABT_xstream_create_basic((ABT_sched_predef)sched, 1, &g_mb.pools[i], ABT_SCHED_CONFIG_NULL, &xs[i]));
    }
    VRT_ABT(ABT_mutex_create(&g_mb.cmx));
    VRT_ABT(ABT_cond_create(&g_mb.cnd));
    g_mb.n = 1 + (int)vrt_range(r, MBMAXU);
    int nobj = 0;
    for (int i = 0; i < g_mb.n; i++) {
        mbunit_t *u = &g_mb.u[i];
        u->id = i;
        u->nsteps = 1 + (int)vrt_range(r, MBMAXSTEP);
        for (int s = 0; s < u->nsteps; s++) {
            int k = (int)vrt_range(r, s == 0 ? MB_YIELD : MB_NKINDS);
            u->kind[s] = k;
            u->obj[s] = nobj;
            u->mig_before[s] = vrt_range(r, 3) != 0 ? 1 + (int)vrt_range(r, (uint64_t)g_mb.npools) : 0;
            if (k == MB_EVENTUAL)
                VRT_ABT(ABT_eventual_create(0, &g_mb.ev[nobj]));
            if (k == MB_MUTEX) {
                VRT_ABT(ABT_mutex_create(&g_mb.mx[nobj]));
                VRT_ABT(ABT_mutex_lock(g_mb.mx[nobj]));
            }
            if (k == MB_JOIN)
                VRT_ABT(ABT_thread_create(g_mb.pools[vrt_range(r, (uint64_t)g_mb.npools)], mbchild_fn, &g_mb.child_go[nobj],
                                          ABT_THREAD_ATTR_NULL, &g_mb.child[nobj]));
            nobj++;
        }
    }
    pthread_t samp;
    pthread_create(&samp, NULL, mbsampler_pt, NULL);
    ABT_thread ths[MBMAXU];
    for (int i = 0; i < g_mb.n; i++)
        VRT_ABT(ABT_thread_create(g_mb.pools[vrt_range(r, (uint64_t)g_mb.npools)], mbunit_fn, &g_mb.u[i], ABT_THREAD_ATTR_NULL,
                                  &ths[i]));
    vrt_rng rr = { vrt_next(r) };
    /* rounds: wait until every unfinished unit is BLOCKED (quiescent point),
     * check the counters exactly, wake everybody once */
    for (int round = 0; vrt_num_violations() == 0; round++) {
        int remaining = 0;
        for (int i = 0; i < g_mb.n; i++)
            if (!__atomic_load_n(&g_mb.u[i].done, __ATOMIC_SEQ_CST))
                remaining++;
        if (!remaining)
            break;
        /* quiescence: every unfinished unit is blocked in a step that has not
         * been woken, or finished */
        int quiet = 0;
        for (int spin = 0; spin < 200000 && !quiet; spin++) {
            quiet = 1;
            for (int i = 0; i < g_mb.n && quiet; i++) {
                mbunit_t *u = &g_mb.u[i];
                if (__atomic_load_n(&u->done, __ATOMIC_SEQ_CST))
                    continue;
                ABT_thread_state st = ABT_THREAD_STATE_READY;
                if (__atomic_load_n(&u->started, __ATOMIC_SEQ_CST))
                    ABT_thread_get_state(u->th, &st);
                int w = __atomic_load_n(&u->waiting, __ATOMIC_SEQ_CST);
                if (st != ABT_THREAD_STATE_BLOCKED || w == 0 || w <= __atomic_load_n(&u->woken, __ATOMIC_SEQ_CST))
                    quiet = 0;
            }
            if (!quiet)
                sched_yield();
        }
        if (quiet) {
            /* everybody who is not done is blocked exactly once; children of
             * join steps spin in some pool (READY/RUNNING, not blocked) */
            int expect[MBMAXP] = { 0 }, blocked_units = 0;
            for (int i = 0; i < g_mb.n; i++) {
                mbunit_t *u = &g_mb.u[i];
                if (__atomic_load_n(&u->done, __ATOMIC_SEQ_CST))
                    continue;
                ABT_pool p;
                VRT_ABT(ABT_thread_get_last_pool(u->th, &p));
                int pi = mb_pool_index(p);
                if (pi >= 0)
                    expect[pi]++;
                blocked_units++;
            }
            for (int i = 0; i < g_mb.npools; i++) {
                int32_t nb = pool_num_blocked(g_mb.pools[i]);
                if (nb != expect[i]) {
                    vrt_violation("block:num-blocked-inexact",
                                  "round %d: %d units are blocked and associated with pool %d, but its blocked counter is "
                                  "%d (%d blocked units in all, %d pools, units carry migration requests when they block)",
                                  round, expect[i], i, nb, blocked_units, g_mb.npools);
                    break;
                }
            }
            vrt_count(c_mbexact, 1);
        }
        if (vrt_num_violations())
            break;
        for (int i = 0; i < g_mb.n; i++)
            if (!__atomic_load_n(&g_mb.u[i].done, __ATOMIC_SEQ_CST))
                mb_wake(&g_mb.u[i], &rr);
        /* yield steps need nobody; give the woken units time to reach their
         * next blocking step */
        for (int i = 0; i < g_mb.n; i++) {
            mbunit_t *u = &g_mb.u[i];
            int w = __atomic_load_n(&u->waiting, __ATOMIC_SEQ_CST);
            if (w && u->kind[w - 1] == MB_YIELD)
                __atomic_store_n(&u->woken, w, __ATOMIC_SEQ_CST);
        }
        vrt_progress();
    }
    if (vrt_num_violations()) {
        __atomic_store_n(&g_mb.sampler_stop, 1, __ATOMIC_SEQ_CST);
        pthread_join(samp, NULL);
        return;
    }
    for (int i = 0; i < g_mb.n; i++) {
        VRT_ABT(ABT_thread_join(ths[i]));
        VRT_ABT(ABT_thread_free(&ths[i]));
    }
    for (int o = 0; o < nobj; o++)
        if (g_mb.child[o]) {
            __atomic_store_n(&g_mb.child_go[o], 1, __ATOMIC_SEQ_CST);
            VRT_ABT(ABT_thread_join(g_mb.child[o]));
            VRT_ABT(ABT_thread_free(&g_mb.child[o]));
        }
    /* nothing is blocked any more */
    for (int i = 0; i < g_mb.npools; i++) {
        int32_t nb = pool_num_blocked(g_mb.pools[i]);
        VRT_CHECK(nb == 0, "block:num-blocked-nonzero-at-quiescence",
                  "all units finished, but the blocked counter of pool %d is %d (its stream could never be joined / "
                  "would terminate too early)", i, nb);
    }
    __atomic_store_n(&g_mb.sampler_stop, 1, __ATOMIC_SEQ_CST);
    pthread_join(samp, NULL);
    if (vrt_num_violations())
        return;
    for (int i = 0; i < g_mb.npools; i++) {
        vrt_call_begin("ABT_xstream_join with nothing left to run");
        VRT_ABT(ABT_xstream_join(xs[i]));
        vrt_call_end();
        VRT_ABT(ABT_xstream_free(&xs[i]));
    }
    for (int i = 0; i < g_mb.n; i++)
        for (int s = 0; s < g_mb.u[i].nsteps; s++) {
            int o = g_mb.u[i].obj[s];
            if (g_mb.u[i].kind[s] == MB_EVENTUAL)
                VRT_ABT(ABT_eventual_free(&g_mb.ev[o]));
            if (g_mb.u[i].kind[s] == MB_MUTEX)
                VRT_ABT(ABT_mutex_free(&g_mb.mx[o]));
        }
    VRT_ABT(ABT_cond_free(&g_mb.cnd));
    VRT_ABT(ABT_mutex_free(&g_mb.cmx));
    for (int i = 0; i < g_mb.npools; i++)
        VRT_ABT(ABT_pool_free(&g_mb.pools[i]));
    VRT_ABT(ABT_finalize());
    if (idx < 2)
        vrt_sample("blockmig scenario %d: %d streams with private %s pools (%s), %d units with 1-%d blocking steps (%s...), "
                   "2/3 of the steps carry a migration request to a random pool when they block, 1/3 get one while blocked; "
                   "counters compared exactly with the units' pools at every all-blocked point", idx, g_mb.npools,
                   w_pool_kind_name(kind), w_sched_name(sched), g_mb.n, MBMAXSTEP, mb_name[0]);
    vrt_signature_add("mb:p%d,%s,%s,n%d", g_mb.npools, w_pool_kind_name(kind), w_sched_name(sched), g_mb.n > 6 ? 7 : g_mb.n);
    vrt_count(c_mbscen, 1);
    vrt_count(c_cases, 1);
}

/* ======================================================================= */
/* mode=joinmix (C06/C01): ABT_xstream_join with schedulers over several pools
 * (an empty pool shared with other streams listed before the pools that hold
 * the work), join overlapping a replacement of the main scheduler by a unit of
 * that stream, and join / revive / idle / new work / join again */
#define JMAXU 40
static struct {
    int ran[JMAXU];
    int go;          /* atomic: the join has been issued */
    ABT_pool pools[3];
    int npools;
    int replace_kind;
    int replaced;    /* atomic: number of completed replacements */
    int expect_replaced;
} g_jm;
static int c_jm_replace2, c_jm_replace_own;
static int c_jmscen, c_jm_multi, c_jm_replace, c_jm_revive, c_jm_units;
static void jm_unit(void *arg)
{
    int *p = (int *)arg;
    if (vrt_hash64((uint64_t)(uintptr_t)arg) & 1)
        ABT_thread_yield();
    __atomic_fetch_add(p, 1, __ATOMIC_SEQ_CST);
}
static void jm_replacer(void *arg)
{
    /* replace the main scheduler of the stream this unit runs on, after a few
     * scheduling points; the join of the stream follows right after */
    for (int i = 0; i < 5; i++)
        ABT_thread_yield();
    ABT_xstream xs;
    VRT_ABT(ABT_self_get_xstream(&xs));
    VRT_ABT(ABT_xstream_set_main_sched_basic(xs, (ABT_sched_predef)g_jm.replace_kind, g_jm.npools, g_jm.pools));
    __atomic_fetch_add(&g_jm.replaced, 1, __ATOMIC_SEQ_CST);
    __atomic_fetch_add((int *)arg, 1, __ATOMIC_SEQ_CST);
}
/* variant 3: two units of the stream replace its main scheduler one right after
 * the other, each with a scheduler whose first pool is a pool of its own */
typedef struct {
    int *ran;
    ABT_pool first;
    int kind;
} jm_rep2_t;
static void jm_replacer2(void *arg)
{
    jm_rep2_t *a = (jm_rep2_t *)arg;
    ABT_xstream xs;
    ABT_pool pools[4];
    int n = 0;
    pools[n++] = a->first;
    for (int i = 0; i < g_jm.npools; i++)
        pools[n++] = g_jm.pools[i];
    VRT_ABT(ABT_self_get_xstream(&xs));
    VRT_ABT(ABT_xstream_set_main_sched_basic(xs, (ABT_sched_predef)a->kind, n, pools));
    __atomic_fetch_add(&g_jm.replaced, 1, __ATOMIC_SEQ_CST);
    __atomic_fetch_add(a->ran, 1, __ATOMIC_SEQ_CST);
}
static void jm_replacer_own(void *arg)
{
    jm_rep2_t *a = (jm_rep2_t *)arg;
    ABT_xstream xs;
    VRT_ABT(ABT_self_get_xstream(&xs));
    VRT_ABT(ABT_xstream_set_main_sched_basic(xs, (ABT_sched_predef)a->kind, 1, &a->first));
    __atomic_fetch_add(&g_jm.replaced, 1, __ATOMIC_SEQ_CST);
    __atomic_fetch_add(a->ran, 1, __ATOMIC_SEQ_CST);
}
static void *jm_joiner(void *arg)
{
    ABT_xstream xs = (ABT_xstream)arg;
    __atomic_store_n(&g_jm.go, 1, __ATOMIC_SEQ_CST);
    /* ABT_xstream_set_main_sched and ABT_xstream_join are documented as not
     * thread safe with respect to the stream: the join starts only after the
     * units of this scenario have finished replacing the main scheduler */
    while (__atomic_load_n(&g_jm.replaced, __ATOMIC_SEQ_CST) < g_jm.expect_replaced && vrt_num_violations() == 0)
        sched_yield();
    vrt_call_begin("ABT_xstream_join (joinmix)");
    VRT_ABT(ABT_xstream_join(xs));
    vrt_call_end();
    return NULL;
}
static void run_joinmix(vrt_rng *r, int idx)
{
    memset(&g_jm, 0, sizeof(g_jm));
    VRT_ABT(ABT_init(0, NULL));
    static const int pk[] = { ABT_POOL_FIFO, ABT_POOL_FIFO_WAIT, ABT_POOL_RANDWS };
    static const int sp[] = { ABT_SCHED_BASIC, ABT_SCHED_PRIO, ABT_SCHED_DEFAULT, ABT_SCHED_BASIC_WAIT };
    static const int rp[] = { ABT_SCHED_BASIC, ABT_SCHED_PRIO };
    int kind = pk[vrt_range(r, 3)], sched = sp[vrt_range(r, 4)];
    if (sched == ABT_SCHED_BASIC_WAIT)
        kind = ABT_POOL_FIFO_WAIT;
    /* 0 multi-pool join, 1 join overlapping replacement, 2 join-revive-join, 3 two replacements back to back,
     * 4 a unit living in a non-first pool replaces the scheduler by one over a pool of its own */
    int variant = (int)vrt_range(r, 5);
    /* a pool shared by the victim and a helper stream, listed first, normally
     * empty; then 1-2 private pools */
    ABT_pool shared, priv[2];
    VRT_ABT(ABT_pool_create_basic((ABT_pool_kind)kind, ABT_POOL_ACCESS_MPMC, ABT_FALSE, &shared));
    int npriv = 1 + (int)vrt_range(r, 2);
    /* the private pools have one consumer (the victim) and several producers */
    ABT_pool_access pacc = vrt_range(r, 2) ? ABT_POOL_ACCESS_MPSC : ABT_POOL_ACCESS_MPMC;
    for (int i = 0; i < npriv; i++)
        VRT_ABT(ABT_pool_create_basic((ABT_pool_kind)kind, pacc, ABT_FALSE, &priv[i]));
    int shared_first = (variant == 0 || variant == 4) ? 1 : (int)vrt_range(r, 2);
    g_jm.npools = 0;
    if (shared_first)
        g_jm.pools[g_jm.npools++] = shared;
    for (int i = 0; i < npriv; i++)
        g_jm.pools[g_jm.npools++] = priv[i];
    if (!shared_first)
        g_jm.pools[g_jm.npools++] = shared;
    g_jm.replace_kind = rp[vrt_range(r, 2)];
    ABT_xstream victim, helper;
    ABT_pool hp[1] = { shared };
    VRT_ABT(ABT_xstream_create_basic((ABT_sched_predef)sched, 1, hp, ABT_SCHED_CONFIG_NULL, &helper));
    /* the work is queued before the victim exists so that the join finds it
     * in the private pools */
    int n = variant == 4 ? 0 : 1 + (int)vrt_range(r, JMAXU - 2), nrep = 0;
    for (int i = 0; i < n; i++) {
        ABT_pool p = priv[vrt_range(r, (uint64_t)npriv)];
        if (vrt_range(r, 3) == 0)
            VRT_ABT(ABT_task_create(p, jm_unit, &g_jm.ran[i], NULL));
        else
            VRT_ABT(ABT_thread_create(p, jm_unit, &g_jm.ran[i], ABT_THREAD_ATTR_NULL, NULL));
    }
    if (variant == 1) {
        VRT_ABT(ABT_thread_create(priv[0], jm_replacer, &g_jm.ran[n], ABT_THREAD_ATTR_NULL, NULL));
        nrep = 1;
        vrt_count(c_jm_replace, 1);
    } else if (variant == 0) {
        vrt_count(c_jm_multi, 1);
    }
    ABT_pool own[2] = { ABT_POOL_NULL, ABT_POOL_NULL };
    static jm_rep2_t rep2[2];
    if (variant == 4) {
        /* the only unit; it is in pools[1] (or later) of the victim's scheduler */
        VRT_ABT(ABT_pool_create_basic((ABT_pool_kind)kind, ABT_POOL_ACCESS_MPMC, ABT_FALSE, &own[0]));
        rep2[0].ran = &g_jm.ran[0];
        rep2[0].first = own[0];
        rep2[0].kind = rp[vrt_range(r, 2)];
        VRT_ABT(ABT_thread_create(priv[npriv - 1], jm_replacer_own, &rep2[0], ABT_THREAD_ATTR_NULL, NULL));
        nrep = 1;
        vrt_count(c_jm_replace_own, 1);
    }
    if (variant == 3) {
        for (int k = 0; k < 2; k++) {
            VRT_ABT(ABT_pool_create_basic((ABT_pool_kind)kind, ABT_POOL_ACCESS_MPMC, ABT_FALSE, &own[k]));
            rep2[k].ran = &g_jm.ran[n + k];
            rep2[k].first = own[k];
            rep2[k].kind = rp[vrt_range(r, 2)];
            VRT_ABT(ABT_thread_create(priv[0], jm_replacer2, &rep2[k], ABT_THREAD_ATTR_NULL, NULL));
        }
        nrep = 2;
        vrt_count(c_jm_replace2, 1);
    }
    g_jm.expect_replaced = variant == 1 ? 1 : variant == 3 ? 2 : variant == 4 ? 1 : 0;
    VRT_ABT(ABT_xstream_create_basic((ABT_sched_predef)sched, g_jm.npools, g_jm.pools, ABT_SCHED_CONFIG_NULL, &victim));
    if (vrt_range(r, 2))
        vrt_sleep_us((unsigned)vrt_range(r, 200));
    /* the join is issued by an external thread (the replacer waits for it) */
    pthread_t jt;
    pthread_create(&jt, NULL, jm_joiner, victim);
    pthread_join(jt, NULL);
    for (int i = 0; i < n + nrep; i++)
        if (__atomic_load_n(&g_jm.ran[i], __ATOMIC_SEQ_CST) != 1) {
            vrt_violation("joinmix:join-returned-before-completion",
                          "ABT_xstream_join returned, but unit %d of %d in a pool only this stream schedules ran %d times "
                          "(variant %d: %s; scheduler %s over %d pools, shared pool listed %s)", i, n + nrep, g_jm.ran[i],
                          variant, variant == 0 ? "multi-pool" : variant == 1 ? "replacement after the join was issued"
                                      : variant == 2 ? "join-revive-join" : variant == 3 ? "two replacements back to back"
                                                     : "replacement by a unit in a non-first pool",
                          w_sched_name(sched), g_jm.npools, shared_first ? "first" : "last");
            break;
        }
    if (vrt_num_violations())
        return;
    if (variant == 2) {
        /* revive; stay idle for a while; new work; join again */
        int rounds = 1 + (int)vrt_range(r, 3);
        for (int k = 0; k < rounds && vrt_num_violations() == 0; k++) {
            VRT_ABT(ABT_xstream_revive(victim));
            vrt_sleep_us(500 + (unsigned)vrt_range(r, 3000));
            ABT_xstream_state st;
            VRT_ABT(ABT_xstream_get_state(victim, &st));
            VRT_CHECK(st == ABT_XSTREAM_STATE_RUNNING, "joinmix:revived-stream-state",
                      "a revived stream that found no work is in state %d (it must keep running until it is joined)", (int)st);
            int m = 1 + (int)vrt_range(r, 8), base = n;
            if (base + m > JMAXU)
                m = JMAXU - base;
            for (int i = 0; i < m; i++)
                VRT_ABT(ABT_thread_create(priv[vrt_range(r, (uint64_t)npriv)], jm_unit, &g_jm.ran[base + i], ABT_THREAD_ATTR_NULL,
                                          NULL));
            n += m;
            vrt_call_begin("ABT_xstream_join of a revived stream");
            VRT_ABT(ABT_xstream_join(victim));
            vrt_call_end();
            for (int i = base; i < base + m; i++)
                if (__atomic_load_n(&g_jm.ran[i], __ATOMIC_SEQ_CST) != 1) {
                    vrt_violation("joinmix:revived-stream-lost-work",
                                  "after join, revive, %d idle rounds: unit %d pushed to the revived stream's private pool ran "
                                  "%d times when the next join returned", k, i, g_jm.ran[i]);
                    break;
                }
            vrt_count(c_jm_revive, 1);
        }
    }
    if (vrt_num_violations())
        return;
    VRT_ABT(ABT_xstream_free(&victim));
    for (int k = 0; k < 2; k++)
        if (own[k] != ABT_POOL_NULL)
            VRT_ABT(ABT_pool_free(&own[k]));
    VRT_ABT(ABT_xstream_join(helper));
    VRT_ABT(ABT_xstream_free(&helper));
    VRT_ABT(ABT_pool_free(&shared));
    for (int i = 0; i < npriv; i++)
        VRT_ABT(ABT_pool_free(&priv[i]));
    VRT_ABT(ABT_finalize());
    if (idx < 3)
        vrt_sample("joinmix scenario %d: victim stream with scheduler %s over %d %s pools (pool shared with a helper stream "
                   "listed %s), %d units queued in its private pools, variant %s", idx, w_sched_name(sched), g_jm.npools,
                   w_pool_kind_name(kind), shared_first ? "first" : "last", n,
                   variant == 0 ? "join at once" : variant == 1 ? "main scheduler replaced by a unit after the join was issued"
                   : variant == 2 ? "join, revive, idle, new work, join"
                   : variant == 3 ? "two units replace the main scheduler back to back"
                                  : "the only unit, in a non-first pool, replaces the scheduler by one over its own pool");
    vrt_signature_add("jm:%s,%s,p%d,s%d,v%d,a%d", w_sched_name(sched), w_pool_kind_name(kind), g_jm.npools, shared_first, variant,
                      pacc == ABT_POOL_ACCESS_MPSC);
    vrt_count(c_jm_units, (uint64_t)n);
    vrt_count(c_jmscen, 1);
    vrt_count(c_cases, 1);
}

/* ======================================================================= */
/* mode=susp (C11 part A): a suspended ULT runs again only after a resume, and
 * exactly once per resume, even if the resume comes the moment BLOCKED is
 * observable */
#define SMAXS 24
typedef struct {
    int id;
    ABT_thread th;
    int rounds;
    int credits;      /* atomic: resumes issued and not yet consumed */
    int running;      /* atomic: 1 while the ULT's own code runs */
    int resumes, returns; /* atomic */
    int done;         /* atomic */
    int started;      /* atomic */
    int resumer;      /* which resumer is responsible */
} sus_t;
static sus_t g_sus[SMAXS];
static int g_nsus, g_nres;
static int c_suspends, c_susp_scen, c_resumed_by_ext, c_resumed_by_ult;

static void sus_fn(void *arg)
{
    sus_t *u = (sus_t *)arg;
    VRT_ABT(ABT_self_get_thread(&u->th));
    if (__atomic_add_fetch(&u->running, 1, __ATOMIC_SEQ_CST) != 1)
        vrt_violation("susp:runs-on-two-streams", "ULT %d entered while it is already running", u->id);
    __atomic_store_n(&u->started, 1, __ATOMIC_SEQ_CST);
    for (int n = 0; n < u->rounds && vrt_num_violations() == 0; n++) {
        __atomic_sub_fetch(&u->running, 1, __ATOMIC_SEQ_CST);
        VRT_ABT(ABT_self_suspend());
        int r = __atomic_add_fetch(&u->running, 1, __ATOMIC_SEQ_CST);
        if (r != 1)
            vrt_violation("susp:runs-on-two-streams", "ULT %d resumed while another instance of it is running (%d)",
                          u->id, r);
        int c = __atomic_fetch_sub(&u->credits, 1, __ATOMIC_SEQ_CST);
        if (c <= 0)
            vrt_violation("susp:ran-without-resume",
                          "ULT %d returned from ABT_self_suspend (round %d) although no resume was issued for it", u->id, n);
        __atomic_fetch_add(&u->returns, 1, __ATOMIC_SEQ_CST);
        vrt_count(c_suspends, 1);
        if ((n & 7) == 0)
            ABT_thread_yield();
    }
    __atomic_sub_fetch(&u->running, 1, __ATOMIC_SEQ_CST);
    __atomic_store_n(&u->done, 1, __ATOMIC_SEQ_CST);
}

typedef struct {
    int idx;
    int is_ext;
} resarg_t;
static void resumer2_body(resarg_t *ra)
{
    for (;;) {
        int remaining = 0;
        for (int i = 0; i < g_nsus; i++) {
            sus_t *u = &g_sus[i];
            if (u->resumer != ra->idx || __atomic_load_n(&u->done, __ATOMIC_SEQ_CST))
                continue;
            remaining++;
            if (!__atomic_load_n(&u->started, __ATOMIC_SEQ_CST))
                continue;
            ABT_thread_state st = ABT_THREAD_STATE_READY;
            ABT_thread_get_state(u->th, &st);
            if (st != ABT_THREAD_STATE_BLOCKED)
                continue;
            /* BLOCKED is observable: resume at once */
            __atomic_fetch_add(&u->credits, 1, __ATOMIC_SEQ_CST);
            __atomic_fetch_add(&u->resumes, 1, __ATOMIC_SEQ_CST);
            int rc = ABT_thread_resume(u->th);
            if (rc != ABT_SUCCESS)
                vrt_violation("susp:resume-rc", "ABT_thread_resume of a BLOCKED ULT returned %d", rc);
            vrt_count(ra->is_ext ? c_resumed_by_ext : c_resumed_by_ult, 1);
        }
        if (!remaining || vrt_num_violations())
            break;
        if (!ra->is_ext)
            ABT_thread_yield();
    }
}
static void resumer2_fn(void *arg)
{
    resumer2_body((resarg_t *)arg);
}
static void *resumer2_pt(void *arg)
{
    resumer2_body((resarg_t *)arg);
    return NULL;
}

static void run_susp(vrt_rng *r, int idx, int max_es, int rounds)
{
    int nes, shared, pk, sp;
    world_random_config(r, max_es, &nes, &shared, &pk, &sp);
    if (nes < 2)
        nes = 2;
    VRT_ABT(ABT_init(0, NULL));
    world_t w;
    world_create(&w, nes, shared, pk, sp);
    g_nsus = 1 + (int)vrt_range(r, SMAXS - 1);
    g_nres = 1 + (int)vrt_range(r, 3);
    memset(g_sus, 0, sizeof(g_sus));
    ABT_thread sth[SMAXS], rth[4];
    pthread_t rpt[4];
    static resarg_t ra[4];
    for (int i = 0; i < g_nsus; i++) {
        g_sus[i].id = i;
        g_sus[i].rounds = 1 + (int)vrt_range(r, (uint64_t)rounds);
        g_sus[i].resumer = (int)vrt_range(r, (uint64_t)g_nres);
    }
    for (int i = 0; i < g_nres; i++) {
        ra[i].idx = i;
        ra[i].is_ext = (int)vrt_range(r, 2);
    }
    for (int i = 0; i < g_nsus; i++)
        VRT_ABT(ABT_thread_create(w.pools[(i % (nes - 1)) + 1], sus_fn, &g_sus[i], ABT_THREAD_ATTR_NULL, &sth[i]));
    for (int i = 0; i < g_nres; i++) {
        if (ra[i].is_ext)
            pthread_create(&rpt[i], NULL, resumer2_pt, &ra[i]);
        else
            VRT_ABT(ABT_thread_create(w.pools[0], resumer2_fn, &ra[i], ABT_THREAD_ATTR_NULL, &rth[i]));
    }
    for (int i = 0; i < g_nsus; i++)
        VRT_ABT(ABT_thread_free(&sth[i]));
    for (int i = 0; i < g_nres; i++) {
        if (ra[i].is_ext)
            pthread_join(rpt[i], NULL);
        else
            VRT_ABT(ABT_thread_free(&rth[i]));
    }
    for (int i = 0; i < g_nsus && vrt_num_violations() == 0; i++) {
        sus_t *u = &g_sus[i];
        VRT_CHECK(u->resumes == u->returns && u->returns == u->rounds && u->credits == 0, "susp:resume-count",
                  "ULT %d: %d rounds, %d resumes issued, %d returns from suspend, %d credits left", i, u->rounds,
                  u->resumes, u->returns, u->credits);
    }
    char wd[128];
    world_describe(&w, wd, sizeof(wd));
    if (idx < 2)
        vrt_sample("susp scenario %d: %s, %d suspenders (<=%d rounds each) on secondary streams, %d resumers polling for "
                   "BLOCKED (external or ULT on the primary)", idx, wd, g_nsus, rounds, g_nres);
    vrt_signature_add("%s,s%d,r%d", wd, g_nsus > 8 ? 9 : g_nsus, g_nres);
    world_destroy(&w);
    VRT_ABT(ABT_finalize());
    vrt_count(c_susp_scen, 1);
    vrt_count(c_cases, 1);
}

/* ======================================================================= */
/* mode=direct (C11 part B): chains of directed switches on one stream */
enum { DS_FRESH = 0, DS_INPOOL, DS_POPPED, DS_BLOCKED, DS_RUNNING, DS_TERMINATED };
enum { DO_YIELD_TO = 0, DO_THREAD_YIELD_TO, DO_CREATE_TO, DO_REVIVE_TO, DO_SUSPEND_TO, DO_RESUME_YIELD_TO,
       DO_RESUME_SUSPEND_TO, DO_EXIT_TO, DO_RESUME_EXIT_TO, DO_YIELD, DO_SUSPEND, DO_RESUME, DO_CANCEL_RESUME_YIELD_TO,
       DO_NOPS };
static const char *do_name[] = { "yield_to", "thread_yield_to", "create_to", "revive_to", "suspend_to", "resume_yield_to",
                                 "resume_suspend_to", "exit_to", "resume_exit_to", "yield", "self_suspend", "resume",
                                 "cancel_self_then_resume_yield_to" };
#define DMAXW 48
typedef struct {
    int id;
    ABT_thread th;
    int st;
    int pool;  /* 0 or 1: which of the stream's two pools */
    int used;
    int lives; /* how many times it was (re)started */
} dw_t;
static struct {
    dw_t w[DMAXW];
    int nw;
    ABT_pool pools[2];
    int npools;
    ABT_pool staging;
    long budget; /* remaining directed ops */
    int active;  /* workers not terminated (atomic not needed: single stream) */
    /* expectation posted by the last directed switch */
    int exp_valid, exp_next, exp_caller, exp_state, exp_op;
    vrt_rng rng;
    int finished; /* atomic: all workers terminated */
} g_d;
static int c_dops[DO_NOPS], c_dchains, c_dexpect, c_dscen, c_dfresh_target, c_dstarted_target;

static void dworker(void *arg);

static void d_check_expect(dw_t *me)
{
    /* whoever runs is RUNNING, however it was switched to */
    ABT_thread self;
    ABT_thread_state own;
    if (ABT_self_get_thread(&self) == ABT_SUCCESS && ABT_thread_get_state(self, &own) == ABT_SUCCESS &&
        own != ABT_THREAD_STATE_RUNNING)
        vrt_violation("direct:running-unit-state", "worker %d runs, but ABT_thread_get_state reports %d for it (last switch: %s)",
                      me->id, (int)own, g_d.exp_valid ? do_name[g_d.exp_op] : "scheduler");
    if (!g_d.exp_valid)
        return;
    g_d.exp_valid = 0;
    vrt_count(c_dexpect, 1);
    if (g_d.exp_next != me->id) {
        vrt_violation("direct:wrong-unit-ran-next",
                      "after %s by worker %d the named ULT %d had to run next on the stream, but worker %d runs",
                      do_name[g_d.exp_op], g_d.exp_caller, g_d.exp_next, me->id);
        return;
    }
    dw_t *c = &g_d.w[g_d.exp_caller];
    ABT_thread_state st;
    if (ABT_thread_get_state(c->th, &st) == ABT_SUCCESS && (int)st != g_d.exp_state)
        vrt_violation("direct:caller-state",
                      "after %s by worker %d, the target sees the caller in state %d, expected %d", do_name[g_d.exp_op],
                      g_d.exp_caller, (int)st, g_d.exp_state);
}
static void d_post(dw_t *me, int next, int op, int caller_state)
{
    g_d.exp_valid = 1;
    g_d.exp_next = next;
    g_d.exp_caller = me->id;
    g_d.exp_state = caller_state;
    g_d.exp_op = op;
    vrt_count(c_dops[op], 1);
    vrt_count(c_dchains, 1);
}
static int d_pick(int st, int not_id)
{
    int cand[DMAXW], n = 0;
    for (int i = 0; i < g_d.nw; i++)
        if (g_d.w[i].used && g_d.w[i].st == st && i != not_id)
            cand[n++] = i;
    return n ? cand[vrt_range(&g_d.rng, (uint64_t)n)] : -1;
}
/* pop a READY ULT out of one of the stream's pools */
static int d_pop_ready(dw_t *me)
{
    for (int k = 0; k < g_d.npools; k++) {
        int p = (int)((vrt_range(&g_d.rng, 2) + (uint64_t)k) % (uint64_t)g_d.npools);
        ABT_thread th = ABT_THREAD_NULL;
        ABT_pool_pop_thread(g_d.pools[p], &th);
        if (th == ABT_THREAD_NULL)
            continue;
        for (int i = 0; i < g_d.nw; i++)
            if (g_d.w[i].used && g_d.w[i].th == th) {
                if (g_d.w[i].st != DS_INPOOL && g_d.w[i].st != DS_FRESH)
                    vrt_violation("direct:popped-unit-state", "popped worker %d which the model has in state %d", i,
                                  g_d.w[i].st);
                return i;
            }
        vrt_violation("direct:popped-unknown", "popped a unit that is not a worker");
        return -1;
    }
    (void)me;
    return -1;
}
static int d_new_slot(void)
{
    for (int i = 0; i < DMAXW; i++)
        if (!g_d.w[i].used) {
            if (i >= g_d.nw)
                g_d.nw = i + 1;
            return i;
        }
    return -1;
}

static void d_resume_all_blocked(void)
{
    for (int i = 0; i < g_d.nw; i++)
        if (g_d.w[i].used && g_d.w[i].st == DS_BLOCKED) {
            g_d.w[i].st = DS_INPOOL;
            VRT_ABT(ABT_thread_resume(g_d.w[i].th));
            vrt_count(c_dops[DO_RESUME], 1);
        }
}

static void dworker(void *arg)
{
    dw_t *me = (dw_t *)arg;
    me->st = DS_RUNNING;
    me->lives++;
    d_check_expect(me);
    while (vrt_num_violations() == 0) {
        if (g_d.budget <= 0) {
            /* wind down: nobody may stay blocked */
            d_resume_all_blocked();
            break;
        }
        g_d.budget--;
        int op = (int)vrt_range(&g_d.rng, DO_NOPS);
        int t;
        switch (op) {
            case DO_YIELD_TO:
            case DO_SUSPEND_TO:
            case DO_EXIT_TO: {
                /* needs a READY ULT that is not in a pool: pop one, or make a
                 * fresh one through the staging pool */
                t = d_pop_ready(me);
                if (t < 0 && vrt_range(&g_d.rng, 2) && g_d.active < DMAXW - 2) {
                    t = d_new_slot();
                    if (t >= 0) {
                        dw_t *n = &g_d.w[t];
                        memset(n, 0, sizeof(*n));
                        n->id = t;
                        n->used = 1;
                        n->pool = (int)vrt_range(&g_d.rng, (uint64_t)g_d.npools);
                        n->st = DS_FRESH;
                        g_d.active++;
                        ABT_thread popped;
                        VRT_ABT(ABT_thread_create(g_d.staging, dworker, n, ABT_THREAD_ATTR_NULL, &n->th));
                        VRT_ABT(ABT_pool_pop_thread(g_d.staging, &popped));
                        /* from now on it belongs to one of the stream's pools */
                        VRT_ABT(ABT_thread_set_associated_pool(n->th, g_d.pools[n->pool]));
                    }
                }
                if (t < 0)
                    break;
                vrt_count(g_d.w[t].st == DS_FRESH ? c_dfresh_target : c_dstarted_target, 1);
                g_d.w[t].st = DS_POPPED;
                if (op == DO_YIELD_TO) {
                    d_post(me, t, op, ABT_THREAD_STATE_READY);
                    me->st = DS_INPOOL;
                    VRT_ABT(ABT_self_yield_to(g_d.w[t].th));
                } else if (op == DO_SUSPEND_TO) {
                    d_post(me, t, op, ABT_THREAD_STATE_BLOCKED);
                    me->st = DS_BLOCKED;
                    VRT_ABT(ABT_self_suspend_to(g_d.w[t].th));
                } else {
                    /* leave only when nobody would be left blocked for ever */
                    if (g_d.active <= 2 || d_pick(DS_BLOCKED, me->id) >= 0) {
                        /* not now: use it as a yield_to instead */
                        d_post(me, t, DO_YIELD_TO, ABT_THREAD_STATE_READY);
                        me->st = DS_INPOOL;
                        VRT_ABT(ABT_self_yield_to(g_d.w[t].th));
                    } else {
                        d_post(me, t, op, ABT_THREAD_STATE_TERMINATED);
                        me->st = DS_TERMINATED;
                        g_d.active--;
                        ABT_self_exit_to(g_d.w[t].th);
                        vrt_violation("direct:ran-after-exit-to", "worker %d continued after exit_to", me->id);
                    }
                }
                me->st = DS_RUNNING;
                d_check_expect(me);
                break;
            }
            case DO_THREAD_YIELD_TO:
                t = d_pick(DS_INPOOL, me->id);
                if (t < 0)
                    break;
                vrt_count(c_dstarted_target, 1);
                d_post(me, t, op, ABT_THREAD_STATE_READY);
                g_d.w[t].st = DS_POPPED;
                me->st = DS_INPOOL;
                VRT_ABT(ABT_thread_yield_to(g_d.w[t].th));
                me->st = DS_RUNNING;
                d_check_expect(me);
                break;
            case DO_CREATE_TO:
                if (g_d.active >= DMAXW - 2)
                    break;
                t = d_new_slot();
                if (t < 0)
                    break;
                {
                    dw_t *n = &g_d.w[t];
                    memset(n, 0, sizeof(*n));
                    n->id = t;
                    n->used = 1;
                    n->pool = (int)vrt_range(&g_d.rng, (uint64_t)g_d.npools);
                    n->st = DS_POPPED;
                    g_d.active++;
                    vrt_count(c_dfresh_target, 1);
                    d_post(me, t, op, ABT_THREAD_STATE_READY);
                    me->st = DS_INPOOL;
                    VRT_ABT(ABT_thread_create_to(g_d.pools[n->pool], dworker, n, ABT_THREAD_ATTR_NULL, &n->th));
                    me->st = DS_RUNNING;
                    d_check_expect(me);
                }
                break;
            case DO_REVIVE_TO:
                t = d_pick(DS_TERMINATED, me->id);
                if (t < 0)
                    break;
                {
                    /* the terminated unit must really be terminated (it may
                     * still be finishing its exit path) */
                    ABT_thread_state st;
                    VRT_ABT(ABT_thread_get_state(g_d.w[t].th, &st));
                    if (st != ABT_THREAD_STATE_TERMINATED)
                        break;
                    g_d.w[t].st = DS_POPPED;
                    g_d.active++;
                    vrt_count(c_dfresh_target, 1);
                    d_post(me, t, op, ABT_THREAD_STATE_READY);
                    me->st = DS_INPOOL;
                    VRT_ABT(ABT_thread_revive_to(g_d.pools[g_d.w[t].pool], dworker, &g_d.w[t], &g_d.w[t].th));
                    me->st = DS_RUNNING;
                    d_check_expect(me);
                }
                break;
            case DO_RESUME_YIELD_TO:
            case DO_RESUME_SUSPEND_TO:
            case DO_RESUME_EXIT_TO:
            case DO_CANCEL_RESUME_YIELD_TO:
                t = d_pick(DS_BLOCKED, me->id);
                if (t < 0)
                    break;
                vrt_count(c_dstarted_target, 1);
                g_d.w[t].st = DS_POPPED;
                if (op == DO_CANCEL_RESUME_YIELD_TO) {
                    if (g_d.active > 2 && d_pick(DS_BLOCKED, me->id) < 0) {
                        /* a cancellation request is pending on the caller when
                         * it hands over: it is terminated in the hand-over
                         * (its next scheduling point), the target runs next */
                        d_post(me, t, op, ABT_THREAD_STATE_TERMINATED);
                        me->st = DS_TERMINATED;
                        g_d.active--;
                        VRT_ABT(ABT_thread_cancel(me->th));
                        ABT_self_resume_yield_to(g_d.w[t].th);
                        vrt_violation("direct:ran-after-cancel", "worker %d continued after a scheduling point although it "
                                      "had been cancelled before", me->id);
                    } else {
                        d_post(me, t, DO_RESUME_YIELD_TO, ABT_THREAD_STATE_READY);
                        me->st = DS_INPOOL;
                        VRT_ABT(ABT_self_resume_yield_to(g_d.w[t].th));
                    }
                } else if (op == DO_RESUME_YIELD_TO) {
                    d_post(me, t, op, ABT_THREAD_STATE_READY);
                    me->st = DS_INPOOL;
                    VRT_ABT(ABT_self_resume_yield_to(g_d.w[t].th));
                } else if (op == DO_RESUME_SUSPEND_TO) {
                    d_post(me, t, op, ABT_THREAD_STATE_BLOCKED);
                    me->st = DS_BLOCKED;
                    VRT_ABT(ABT_self_resume_suspend_to(g_d.w[t].th));
                } else if (g_d.active > 2 && d_pick(DS_BLOCKED, me->id) < 0) {
                    d_post(me, t, op, ABT_THREAD_STATE_TERMINATED);
                    me->st = DS_TERMINATED;
                    g_d.active--;
                    ABT_self_resume_exit_to(g_d.w[t].th);
                    vrt_violation("direct:ran-after-exit-to", "worker %d continued after resume_exit_to", me->id);
                } else {
                    d_post(me, t, DO_RESUME_YIELD_TO, ABT_THREAD_STATE_READY);
                    me->st = DS_INPOOL;
                    VRT_ABT(ABT_self_resume_yield_to(g_d.w[t].th));
                }
                me->st = DS_RUNNING;
                d_check_expect(me);
                break;
            case DO_YIELD:
                vrt_count(c_dops[op], 1);
                me->st = DS_INPOOL;
                ABT_thread_yield();
                me->st = DS_RUNNING;
                d_check_expect(me);
                break;
            case DO_SUSPEND:
                /* only if somebody else can run and will resume us */
                if (d_pick(DS_INPOOL, me->id) < 0)
                    break;
                vrt_count(c_dops[op], 1);
                me->st = DS_BLOCKED;
                VRT_ABT(ABT_self_suspend());
                me->st = DS_RUNNING;
                d_check_expect(me);
                break;
            case DO_RESUME:
                t = d_pick(DS_BLOCKED, me->id);
                if (t < 0)
                    break;
                vrt_count(c_dops[op], 1);
                g_d.w[t].st = DS_INPOOL;
                VRT_ABT(ABT_thread_resume(g_d.w[t].th));
                break;
            default:
                break;
        }
    }
    me->st = DS_TERMINATED;
    g_d.active--;
    if (g_d.active == 0)
        __atomic_store_n(&g_d.finished, 1, __ATOMIC_SEQ_CST);
}

static void run_direct(vrt_rng *r, int idx, long ops)
{
    VRT_ABT(ABT_init(0, NULL));
    memset(&g_d, 0, sizeof(g_d));
    g_d.rng.s = vrt_next(r);
    g_d.budget = ops;
    static const int pk[] = { ABT_POOL_FIFO, ABT_POOL_FIFO_WAIT, ABT_POOL_RANDWS };
    static const int sp[] = { ABT_SCHED_BASIC, ABT_SCHED_PRIO, ABT_SCHED_DEFAULT, ABT_SCHED_BASIC_WAIT, ABT_SCHED_RANDWS };
    int kind = pk[vrt_range(r, 3)];
    int sched = sp[vrt_range(r, 5)];
    if (sched == ABT_SCHED_BASIC_WAIT)
        kind = ABT_POOL_FIFO_WAIT;
    g_d.npools = 1 + (int)vrt_range(r, 2);
    for (int i = 0; i < g_d.npools; i++)
        VRT_ABT(ABT_pool_create_basic((ABT_pool_kind)kind, ABT_POOL_ACCESS_MPMC, ABT_TRUE, &g_d.pools[i]));
    VRT_ABT(ABT_pool_create_basic(ABT_POOL_FIFO, ABT_POOL_ACCESS_MPMC, ABT_FALSE, &g_d.staging));
    int n0 = 2 + (int)vrt_range(r, 10);
    /* all initial workers are queued before the stream exists, so the model
     * (which is only touched by code running on that one stream) is complete
     * when the first worker starts */
    for (int i = 0; i < n0; i++) {
        dw_t *n = &g_d.w[i];
        n->id = i;
        n->used = 1;
        n->pool = (int)vrt_range(r, (uint64_t)g_d.npools);
        n->st = DS_INPOOL;
    }
    g_d.nw = n0;
    g_d.active = n0;
    for (int i = 0; i < n0; i++)
        VRT_ABT(ABT_thread_create(g_d.pools[g_d.w[i].pool], dworker, &g_d.w[i], ABT_THREAD_ATTR_NULL, &g_d.w[i].th));
    ABT_xstream xs;
    VRT_ABT(ABT_xstream_create_basic((ABT_sched_predef)sched, g_d.npools, g_d.pools, ABT_SCHED_CONFIG_NULL, &xs));
    while (!__atomic_load_n(&g_d.finished, __ATOMIC_SEQ_CST) && vrt_num_violations() == 0)
        vrt_sleep_us(50);
    if (vrt_num_violations())
        return;
    VRT_ABT(ABT_xstream_join(xs));
    for (int i = 0; i < g_d.nw; i++)
        if (g_d.w[i].used) {
            ABT_thread_state st;
            VRT_ABT(ABT_thread_get_state(g_d.w[i].th, &st));
            VRT_CHECK(st == ABT_THREAD_STATE_TERMINATED, "direct:not-terminated", "worker %d state %d at the end", i, (int)st);
            VRT_ABT(ABT_thread_free(&g_d.w[i].th));
        }
    for (int i = 0; i < g_d.npools; i++) {
        size_t tot = 1;
        VRT_ABT(ABT_pool_get_total_size(g_d.pools[i], &tot));
        VRT_CHECK(tot == 0, "direct:pool-total-size", "pool %d total size %zu at quiescence", i, tot);
    }
    VRT_ABT(ABT_xstream_free(&xs));
    VRT_ABT(ABT_pool_free(&g_d.staging));
    VRT_ABT(ABT_finalize());
    if (idx < 2)
        vrt_sample("direct scenario %d: one stream, %d pool(s) of kind %s, scheduler %s, %d initial workers, %ld random "
                   "directed-switch operations (targets fresh or already started, same or other pool)", idx, g_d.npools,
                   w_pool_kind_name(kind), w_sched_name(sched), n0, ops);
    vrt_signature_add("p%d,%s,%s,n%d", g_d.npools, w_pool_kind_name(kind), w_sched_name(sched), n0);
    vrt_count(c_dscen, 1);
    vrt_count(c_cases, 1);
}

/* ======================================================================= */
/* mode=stackrace (C01): stacked schedulers that start, run and finish on
 * another stream while ABT_pool_add_sched is still returning */
static int c_sr_scen, c_sr_scheds, c_sr_units, c_sr_nonauto, c_sr_auto;
static int g_sr_runs[64];
static void sr_unit(void *arg)
{
    __atomic_fetch_add((int *)arg, 1, __ATOMIC_SEQ_CST);
}
/* a unit that blocks, is resumed later and still has scheduling points ahead */
static ABT_eventual g_sr_ev;
static unsigned char g_sr_what[64], g_sr_sk[64], g_sr_auto[64];
static int g_sr_started[64];
static ABT_thread g_sr_th[64];
static ABT_pool g_sr_pool[64];
static int c_sr_blockers, c_sr_kind[5];
static void sr_blocker(void *arg)
{
    ABT_self_get_thread(&g_sr_th[(int *)arg - g_sr_runs]);
    __atomic_store_n(&g_sr_started[(int *)arg - g_sr_runs], 1, __ATOMIC_SEQ_CST);
    VRT_ABT(ABT_eventual_wait(g_sr_ev, NULL));
    __atomic_store_n(&g_sr_started[(int *)arg - g_sr_runs], 2, __ATOMIC_SEQ_CST);
    int n = 1 + (int)(vrt_hash64((uint64_t)(uintptr_t)arg) % 3);
    for (int i = 0; i < n; i++)
        ABT_thread_yield();
    __atomic_fetch_add((int *)arg, 1, __ATOMIC_SEQ_CST);
}
static void run_stackrace(vrt_rng *r, int idx)
{
    VRT_ABT(ABT_init(0, NULL));
    ABT_pool host;
    VRT_ABT(ABT_pool_create_basic(ABT_POOL_FIFO, ABT_POOL_ACCESS_MPMC, ABT_FALSE, &host));
    int nes = 1 + (int)vrt_range(r, 3);
    ABT_xstream xs[3];
    for (int i = 0; i < nes; i++)
        VRT_ABT(ABT_xstream_create_basic(ABT_SCHED_BASIC, 1, &host, ABT_SCHED_CONFIG_NULL, &xs[i]));
    int ns = 4 + (int)vrt_range(r, 20), nu = 0;
    ABT_sched keep[24];
    ABT_pool keep_pool[24];
    int nkeep = 0, nauto = 0;
    memset(g_sr_runs, 0, sizeof(g_sr_runs));
    static const ABT_sched_predef pd[] = { ABT_SCHED_BASIC, ABT_SCHED_PRIO, ABT_SCHED_RANDWS, ABT_SCHED_DEFAULT,
                                           ABT_SCHED_BASIC_WAIT };
    VRT_ABT(ABT_eventual_create(0, &g_sr_ev));
    int nblockers = 0;
    for (int i = 0; i < ns; i++) {
        ABT_pool p;
        ABT_sched st;
        ABT_sched_config cfg;
        int automatic = (int)vrt_range(r, 2);
        int sk = (int)vrt_range(r, 5);
        vrt_count(c_sr_kind[sk], 1);
        VRT_ABT(ABT_pool_create_basic(pd[sk] == ABT_SCHED_BASIC_WAIT ? ABT_POOL_FIFO_WAIT : ABT_POOL_FIFO, ABT_POOL_ACCESS_MPMC,
                                      ABT_FALSE, &p));
        int k = (int)vrt_range(r, 3);
        for (int j = 0; j < k && nu < 64; j++, nu++) {
            unsigned what = (unsigned)vrt_range(r, 3);
            g_sr_what[nu] = (unsigned char)what;
            g_sr_sk[nu] = (unsigned char)sk;
            g_sr_auto[nu] = (unsigned char)automatic;
            g_sr_started[nu] = 0;
            g_sr_pool[nu] = p;
            if (what == 0) {
                VRT_ABT(ABT_thread_create(p, sr_blocker, &g_sr_runs[nu], ABT_THREAD_ATTR_NULL, NULL));
                nblockers++;
            } else if (what == 1)
                VRT_ABT(ABT_thread_create(p, sr_unit, &g_sr_runs[nu], ABT_THREAD_ATTR_NULL, NULL));
            else
                VRT_ABT(ABT_task_create(p, sr_unit, &g_sr_runs[nu], NULL));
        }
        VRT_ABT(ABT_sched_config_create(&cfg, ABT_sched_config_automatic, automatic, ABT_sched_config_var_end));
        VRT_ABT(ABT_sched_create_basic(pd[sk], 1, &p, cfg, &st));
        VRT_ABT(ABT_sched_config_free(&cfg));
        VRT_ABT(ABT_pool_add_sched(host, st));
        keep_pool[i] = p;
        if (!automatic)
            keep[nkeep++] = st;
        else
            nauto++;
        if (vrt_range(r, 3) == 0)
            vrt_sleep_us(20);
    }
    /* the blocked units are resumed a little later; their stacked schedulers
     * must still be there (a blocked unit belongs to the pool) and must go on
     * until these units have finished */
    vrt_sleep_us(200 + (unsigned)vrt_range(r, 2000));
    VRT_ABT(ABT_eventual_set(g_sr_ev, NULL, 0));
    vrt_count(c_sr_blockers, (uint64_t)nblockers);
    for (int i = 0; i < nes; i++) {
        vrt_call_begin("ABT_xstream_join of a stream that hosts stacked schedulers");
        VRT_ABT(ABT_xstream_join(xs[i]));
        vrt_call_end();
        VRT_ABT(ABT_xstream_free(&xs[i]));
    }
    for (int i = 0; i < nu; i++)
        if (g_sr_runs[i] != 1 && g_sr_what[i] == 0 && g_sr_started[i] == 1) {
            ABT_thread_state st = (ABT_thread_state)-1;
            ABT_bool ready = ABT_FALSE;
            size_t sz = 99, tot = 99;
            ABT_thread_get_state(g_sr_th[i], &st);
            ABT_eventual_test(g_sr_ev, NULL, &ready);
            ABT_pool_get_size(g_sr_pool[i], &sz);
            ABT_pool_get_total_size(g_sr_pool[i], &tot);
            fprintf(stderr, "DIAG unit %d: thread state %d (0 READY 1 RUNNING 2 BLOCKED 3 TERMINATED), eventual ready %d, its pool size "
                    "%zu total %zu\n", i, (int)st, (int)ready, sz, tot);
        }
    for (int i = 0; i < nu; i++)
        VRT_CHECK(g_sr_runs[i] == 1, "stacked:not-exactly-once", "unit %d of a stacked scheduler ran %d times (kind %s, progress "
                  "%d [0 not started, 1 waiting, 2 resumed], stacked scheduler kind %d [0 basic 1 prio 2 randws 3 default 4 "
                  "basic_wait], automatic %d, %d host streams)", i, g_sr_runs[i],
                  g_sr_what[i] == 0 ? "blocker" : g_sr_what[i] == 1 ? "ULT" : "tasklet", g_sr_started[i], g_sr_sk[i],
                  g_sr_auto[i], nes);
    VRT_ABT(ABT_eventual_free(&g_sr_ev));
    /* every stacked scheduler has finished; the ones that are not automatic
     * are released by the user */
    for (int i = 0; i < nkeep; i++)
        VRT_ABT(ABT_sched_free(&keep[i]));
    for (int i = 0; i < ns; i++)
        VRT_ABT(ABT_pool_free(&keep_pool[i]));
    VRT_ABT(ABT_pool_free(&host));
    VRT_ABT(ABT_finalize());
    if (idx < 2)
        vrt_sample("stackrace scenario %d: %d streams serve a host pool, %d stacked schedulers (%d automatic, %d freed by the "
                   "user after the streams were joined) with %d units in their own pools", idx, nes, ns, nauto, nkeep, nu);
    vrt_signature_add("es%d,ns%d,auto%d", nes, ns, nauto);
    vrt_count(c_sr_scen, 1);
    vrt_count(c_sr_scheds, (uint64_t)ns);
    vrt_count(c_sr_units, (uint64_t)nu);
    vrt_count(c_sr_nonauto, (uint64_t)nkeep);
    vrt_count(c_sr_auto, (uint64_t)nauto);
    vrt_count(c_cases, 1);
}

/* ======================================================================= */
/* mode=life (C12): exit, cancel, revive, state machine */
enum { LB_RETURN = 0, LB_YIELDS, LB_SELF_EXIT, LB_THREAD_EXIT, LB_UNTIL_CANCELLED, LB_BLOCK_THEN_RETURN, LB_SPIN_THEN_BLOCK,
       LB_NBEHAV };
enum { LC_NONE = 0, LC_BEFORE_START, LC_WHILE_RUNNING, LC_WHILE_BLOCKED };
static const char *lb_name[] = { "return", "yields", "self_exit", "thread_exit", "until-cancelled", "block-then-return",
                                 "spin-until-cancelled-then-block" };
static const char *lc_name[] = { "no-cancel", "cancel-before-start", "cancel-while-running", "cancel-while-blocked" };
#define LMAXU 16
typedef struct {
    int id;
    int is_task;
    ABT_thread th;
    pthread_mutex_t lock; /* protects th/sampling against the sampler */
    int sampling;
    /* current epoch */
    uint64_t tag;
    int behav, cancel_mode, pool;
    int starts;        /* atomic */
    int ends;          /* atomic */
    int after_exit;    /* atomic */
    int cancel_issued; /* atomic */
    int slices_seeing_cancel; /* atomic */
    int wrong_arg, wrong_pool; /* atomic */
    int may_block;
    ABT_eventual ev;
    int blocker_running, release; /* atomic */
    /* sampler state */
    int term_seen;
    int sampled_blocked;
    long samples;
} lu_t;
static lu_t g_lu[LMAXU];
static int g_nlu;
static ABT_pool g_lpools[4];
static int g_lsampler_stop;
static int c_lcancel_pending_when_blocking;
static int c_lepochs, c_lbehav[LB_NBEHAV], c_lcancel[4], c_lrevives, c_lsamples, c_lscen, c_ltask_epochs,
    c_lcancel_never_started, c_lcancel_one_grace;

typedef struct {
    lu_t *u;
    uint64_t tag;
} larg_t;
static larg_t g_larg[LMAXU];

static void life_slice(lu_t *u)
{
    if (__atomic_load_n(&u->cancel_issued, __ATOMIC_SEQ_CST)) {
        int n = __atomic_add_fetch(&u->slices_seeing_cancel, 1, __ATOMIC_SEQ_CST);
        if (n >= 2)
            vrt_violation("life:cancel-not-honoured",
                          "unit %d started %d scheduling slices that already observed the cancellation request "
                          "(behaviour %s)", u->id, n, lb_name[u->behav]);
    }
}

static void life_fn(void *arg)
{
    larg_t *a = (larg_t *)arg;
    lu_t *u = a->u;
    if (a->tag != u->tag)
        __atomic_store_n(&u->wrong_arg, 1, __ATOMIC_SEQ_CST);
    int s = __atomic_add_fetch(&u->starts, 1, __ATOMIC_SEQ_CST);
    if (s != 1)
        vrt_violation("life:started-twice", "unit %d started %d times in one epoch", u->id, s);
    ABT_pool lp = ABT_POOL_NULL;
    if (ABT_self_get_last_pool(&lp) == ABT_SUCCESS && lp != g_lpools[u->pool])
        __atomic_store_n(&u->wrong_pool, 1, __ATOMIC_SEQ_CST);
    life_slice(u);
    switch (u->behav) {
        case LB_RETURN:
            break;
        case LB_YIELDS:
            for (int i = 0; i < 6; i++) {
                ABT_thread_yield();
                life_slice(u);
            }
            break;
        case LB_SELF_EXIT:
        case LB_THREAD_EXIT:
            ABT_thread_yield();
            life_slice(u);
            __atomic_add_fetch(&u->ends, 1, __ATOMIC_SEQ_CST);
            if (u->behav == LB_SELF_EXIT)
                ABT_self_exit();
            else
                ABT_thread_exit();
            __atomic_store_n(&u->after_exit, 1, __ATOMIC_SEQ_CST);
            return;
        case LB_UNTIL_CANCELLED:
            for (;;) {
                ABT_thread_yield();
                life_slice(u);
                if (vrt_num_violations())
                    break;
            }
            break;
        case LB_BLOCK_THEN_RETURN:
            ABT_eventual_wait(u->ev, NULL);
            life_slice(u);
            ABT_thread_yield();
            life_slice(u);
            break;
        case LB_SPIN_THEN_BLOCK:
            /* no scheduling point until the cancellation request has been
             * issued: the unit then blocks with the request pending */
            while (!__atomic_load_n(&u->cancel_issued, __ATOMIC_SEQ_CST) && vrt_num_violations() == 0)
                sched_yield();
            ABT_eventual_wait(u->ev, NULL);
            life_slice(u);
            break;
    }
    __atomic_add_fetch(&u->ends, 1, __ATOMIC_SEQ_CST);
}

static void lblocker(void *arg)
{
    lu_t *u = (lu_t *)arg;
    __atomic_store_n(&u->blocker_running, 1, __ATOMIC_SEQ_CST);
    while (!__atomic_load_n(&u->release, __ATOMIC_SEQ_CST))
        sched_yield();
}

static void *lsampler(void *arg)
{
    (void)arg;
    while (!__atomic_load_n(&g_lsampler_stop, __ATOMIC_SEQ_CST)) {
        for (int i = 0; i < g_nlu; i++) {
            lu_t *u = &g_lu[i];
            pthread_mutex_lock(&u->lock);
            if (u->sampling) {
                ABT_thread_state st;
                if (ABT_thread_get_state(u->th, &st) == ABT_SUCCESS) {
                    u->samples++;
                    if (u->term_seen && st != ABT_THREAD_STATE_TERMINATED)
                        vrt_violation("life:state-after-terminated",
                                      "unit %d was observed TERMINATED and later in state %d within the same epoch "
                                      "(behaviour %s, %s)", u->id, (int)st, lb_name[u->behav], lc_name[u->cancel_mode]);
                    if (st == ABT_THREAD_STATE_TERMINATED)
                        u->term_seen = 1;
                    if (st == ABT_THREAD_STATE_BLOCKED && !u->may_block)
                        vrt_violation("life:blocked-state-for-nonblocking-unit",
                                      "unit %d (behaviour %s) never blocks but was observed BLOCKED", u->id,
                                      lb_name[u->behav]);
                    if ((int)st < 0 || (int)st > (int)ABT_THREAD_STATE_TERMINATED)
                        vrt_violation("life:invalid-state", "unit %d state value %d", u->id, (int)st);
                }
            }
            pthread_mutex_unlock(&u->lock);
        }
        for (volatile int k = 0; k < 200; k++)
            ;
    }
    return NULL;
}

static void life_epoch(vrt_rng *r, lu_t *u, int first)
{
    /* the sampler reads the epoch parameters only while sampling is on */
    pthread_mutex_lock(&u->lock);
    u->sampling = 0;
    pthread_mutex_unlock(&u->lock);
    /* draw behaviour and cancellation */
    for (;;) {
        u->behav = (int)vrt_range(r, LB_NBEHAV);
        u->cancel_mode = (int)vrt_range(r, 4);
        if (u->is_task && u->behav != LB_RETURN)
            continue;
        if (u->is_task && u->cancel_mode >= LC_WHILE_RUNNING)
            continue;
        if (u->behav == LB_UNTIL_CANCELLED && u->cancel_mode != LC_WHILE_RUNNING)
            continue;
        if (u->behav == LB_SPIN_THEN_BLOCK && u->cancel_mode != LC_WHILE_RUNNING)
            continue;
        if (u->cancel_mode == LC_WHILE_RUNNING && u->behav != LB_UNTIL_CANCELLED && u->behav != LB_YIELDS &&
            u->behav != LB_SPIN_THEN_BLOCK)
            continue;
        if (u->cancel_mode == LC_WHILE_BLOCKED && u->behav != LB_BLOCK_THEN_RETURN)
            continue;
        break;
    }
    u->pool = 1 + (int)vrt_range(r, 2);
    u->tag = vrt_next(r);
    u->starts = u->ends = u->after_exit = u->cancel_issued = u->slices_seeing_cancel = 0;
    u->wrong_arg = u->wrong_pool = 0;
    u->blocker_running = u->release = 0;
    u->may_block = u->behav == LB_BLOCK_THEN_RETURN || u->behav == LB_SPIN_THEN_BLOCK;
    g_larg[u->id].u = u;
    g_larg[u->id].tag = u->tag;
    if (u->may_block)
        VRT_ABT(ABT_eventual_create(0, &u->ev));
    ABT_thread blocker = ABT_THREAD_NULL;
    if (u->cancel_mode == LC_BEFORE_START) {
        VRT_ABT(ABT_thread_create(g_lpools[u->pool], lblocker, u, ABT_THREAD_ATTR_NULL, &blocker));
        while (!__atomic_load_n(&u->blocker_running, __ATOMIC_SEQ_CST))
            ABT_thread_yield();
    }
    pthread_mutex_lock(&u->lock);
    u->term_seen = 0;
    if (first) {
        if (u->is_task)
            VRT_ABT(ABT_task_create(g_lpools[u->pool], life_fn, &g_larg[u->id], &u->th));
        else
            VRT_ABT(ABT_thread_create(g_lpools[u->pool], life_fn, &g_larg[u->id], ABT_THREAD_ATTR_NULL, &u->th));
    } else {
        int rc = u->is_task ? ABT_task_revive(g_lpools[u->pool], life_fn, &g_larg[u->id], &u->th)
                            : ABT_thread_revive(g_lpools[u->pool], life_fn, &g_larg[u->id], &u->th);
        if (rc != ABT_SUCCESS)
            vrt_violation("life:revive-rc", "revive of a terminated unit returned %d", rc);
        vrt_count(c_lrevives, 1);
    }
    u->sampling = 1;
    pthread_mutex_unlock(&u->lock);
    /* cancellation */
    if (u->cancel_mode == LC_BEFORE_START) {
        VRT_ABT(ABT_thread_cancel(u->th));
        __atomic_store_n(&u->cancel_issued, 1, __ATOMIC_SEQ_CST);
        __atomic_store_n(&u->release, 1, __ATOMIC_SEQ_CST);
    } else if (u->cancel_mode == LC_WHILE_RUNNING) {
        while (!__atomic_load_n(&u->starts, __ATOMIC_SEQ_CST))
            ABT_thread_yield();
        VRT_ABT(ABT_thread_cancel(u->th));
        __atomic_store_n(&u->cancel_issued, 1, __ATOMIC_SEQ_CST);
    } else if (u->cancel_mode == LC_WHILE_BLOCKED) {
        for (;;) {
            ABT_thread_state st;
            VRT_ABT(ABT_thread_get_state(u->th, &st));
            if (st == ABT_THREAD_STATE_BLOCKED)
                break;
            ABT_thread_yield();
        }
        VRT_ABT(ABT_thread_cancel(u->th));
        __atomic_store_n(&u->cancel_issued, 1, __ATOMIC_SEQ_CST);
    }
    if (u->behav == LB_SPIN_THEN_BLOCK) {
        /* it blocks with the cancellation pending; wake it once it is blocked */
        vrt_call_begin("wait for a unit with a pending cancellation to block");
        for (;;) {
            ABT_thread_state st;
            VRT_ABT(ABT_thread_get_state(u->th, &st));
            if (st == ABT_THREAD_STATE_BLOCKED || st == ABT_THREAD_STATE_TERMINATED)
                break;
            ABT_thread_yield();
        }
        vrt_call_end();
        vrt_count(c_lcancel_pending_when_blocking, 1);
    }
    if (u->may_block) {
        if (vrt_range(r, 2))
            ABT_thread_yield();
        VRT_ABT(ABT_eventual_set(u->ev, NULL, 0));
    }
    /* the joiner is released in every case */
    vrt_call_begin("join of a unit in the lifecycle epoch");
    VRT_ABT(u->is_task ? ABT_task_join(u->th) : ABT_thread_join(u->th));
    vrt_call_end();
    ABT_thread_state st;
    VRT_ABT(ABT_thread_get_state(u->th, &st));
    VRT_CHECK(st == ABT_THREAD_STATE_TERMINATED, "life:state-after-join", "state %d after join", (int)st);
    if (blocker != ABT_THREAD_NULL)
        VRT_ABT(ABT_thread_free(&blocker));
    int starts = __atomic_load_n(&u->starts, __ATOMIC_SEQ_CST);
    int ends = __atomic_load_n(&u->ends, __ATOMIC_SEQ_CST);
    if (u->cancel_mode == LC_BEFORE_START) {
        VRT_CHECK(starts == 0, "life:cancelled-before-start-but-ran",
                  "unit %d was cancelled before its first scheduling point but its function was started %d times", u->id, starts);
        vrt_count(c_lcancel_never_started, 1);
    } else {
        VRT_CHECK(starts == 1, "life:not-started-exactly-once", "unit %d (%s, %s): function started %d times in this epoch",
                  u->id, lb_name[u->behav], lc_name[u->cancel_mode], starts);
        if (u->cancel_mode == LC_NONE)
            VRT_CHECK(ends == 1, "life:not-completed", "unit %d (%s): completed %d times", u->id, lb_name[u->behav], ends);
        if (u->cancel_mode != LC_NONE && __atomic_load_n(&u->slices_seeing_cancel, __ATOMIC_SEQ_CST) == 1)
            vrt_count(c_lcancel_one_grace, 1);
    }
    VRT_CHECK(!u->after_exit, "life:ran-after-exit", "unit %d continued after ABT_%s_exit", u->id,
              u->behav == LB_SELF_EXIT ? "self" : "thread");
    VRT_CHECK(!u->wrong_arg, "life:wrong-argument", "unit %d ran with another epoch's argument (revive)", u->id);
    VRT_CHECK(!u->wrong_pool, "life:wrong-pool", "unit %d did not start from the requested pool %d", u->id, u->pool);
    if (u->may_block)
        VRT_ABT(ABT_eventual_free(&u->ev));
    vrt_count(c_lepochs, 1);
    vrt_count(c_lbehav[u->behav], 1);
    vrt_count(c_lcancel[u->cancel_mode], 1);
    if (u->is_task)
        vrt_count(c_ltask_epochs, 1);
}

static void run_life(vrt_rng *r, int idx, int max_cycles)
{
    VRT_ABT(ABT_init(0, NULL));
    world_t w;
    static const int pk[] = { ABT_POOL_FIFO, ABT_POOL_FIFO_WAIT, ABT_POOL_RANDWS };
    static const int sp[] = { ABT_SCHED_BASIC, ABT_SCHED_PRIO, ABT_SCHED_DEFAULT, ABT_SCHED_BASIC_WAIT };
    int s = sp[vrt_range(r, 4)];
    world_create(&w, 3, 0, s == ABT_SCHED_BASIC_WAIT ? ABT_POOL_FIFO_WAIT : pk[vrt_range(r, 3)], s);
    for (int i = 0; i < 3; i++)
        g_lpools[i] = w.pools[i];
    g_nlu = 1 + (int)vrt_range(r, LMAXU);
    memset(g_lu, 0, sizeof(g_lu));
    for (int i = 0; i < g_nlu; i++) {
        g_lu[i].id = i;
        g_lu[i].is_task = vrt_range(r, 4) == 0;
        pthread_mutex_init(&g_lu[i].lock, NULL);
    }
    g_lsampler_stop = 0;
    pthread_t samp;
    pthread_create(&samp, NULL, lsampler, NULL);
    long total_cycles = 0;
    for (int i = 0; i < g_nlu && vrt_num_violations() == 0; i++) {
        lu_t *u = &g_lu[i];
        int cycles = 1 + (int)vrt_range(r, vrt_range(r, 6) == 0 ? (uint64_t)max_cycles : 8);
        for (int c = 0; c < cycles && vrt_num_violations() == 0; c++)
            life_epoch(r, u, c == 0);
        total_cycles += cycles;
        pthread_mutex_lock(&u->lock);
        u->sampling = 0;
        pthread_mutex_unlock(&u->lock);
        if (vrt_num_violations() == 0) {
            VRT_ABT(u->is_task ? ABT_task_free(&u->th) : ABT_thread_free(&u->th));
            VRT_CHECK(u->th == ABT_THREAD_NULL || u->th == ABT_TASK_NULL, "life:handle-after-free", "handle not NULL");
        }
    }
    __atomic_store_n(&g_lsampler_stop, 1, __ATOMIC_SEQ_CST);
    pthread_join(samp, NULL);
    long ns = 0;
    for (int i = 0; i < g_nlu; i++) {
        ns += g_lu[i].samples;
        pthread_mutex_destroy(&g_lu[i].lock);
    }
    vrt_count(c_lsamples, (uint64_t)ns);
    if (vrt_num_violations())
        return;
    char wd[128];
    world_describe(&w, wd, sizeof(wd));
    if (idx < 2)
        vrt_sample("life scenario %d: %s, %d named units (ULTs and tasklets), %ld create/revive epochs in total, each with a "
                   "behaviour (return, yields, self_exit, thread_exit, until-cancelled, block-then-return) and a cancellation "
                   "mode (none, before start, while running, while blocked); state sampler thread", idx, wd, g_nlu,
                   total_cycles);
    vrt_signature_add("%s,u%d", wd, g_nlu);
    world_destroy(&w);
    VRT_ABT(ABT_finalize());
    vrt_count(c_lscen, 1);
    vrt_count(c_cases, 1);
}

/* ======================================================================= */
/* mode=migrate (C13) */
#define MMAXP 6
typedef struct {
    ABT_thread th;
    int starts, done;     /* atomic */
    int cur_pool;         /* atomic: pool index observed at the last slice start */
    uint64_t req;         /* atomic: (seq << 8) | target pool index of the latest successful request */
    int cb_count;         /* atomic */
    int cb_bad;           /* atomic */
    int changes;          /* pool changes observed by the unit (only touched by the unit) */
    int stop;             /* atomic */
    int park;             /* atomic: unit suspends itself and waits to be resumed */
    int parked;           /* atomic */
    uint64_t hist_seq[3];
    int cur_rank;         /* atomic */
    long slices;          /* atomic */
    int self_requests;
    vrt_rng rng;
} mig_t;
static mig_t g_m;
static ABT_pool g_mpools[MMAXP];
static int g_nmpools;
static int c_mscen, c_mreq_ok, c_mreq_rejected, c_mseq_exact, c_mconc_req, c_mself_req, c_mcb, c_mrej_same_pool,
    c_mrej_nonmigratable, c_mrej_mainsched, c_mmigrate_any_ok, c_mmigrate_any_na, c_mto_xstream, c_mto_sched, c_mslices;

/* small event ring for diagnostics */
static struct {
    char what;
    int a, b;
    uint64_t t;
} g_mring[64];
static uint64_t g_mring_n;
static int g_mring_on;
static void mring(char what, int a, int b)
{
    if (!g_mring_on)
        return;
    uint64_t i = __atomic_fetch_add(&g_mring_n, 1, __ATOMIC_SEQ_CST);
    g_mring[i & 63].what = what;
    g_mring[i & 63].a = a;
    g_mring[i & 63].b = b;
    g_mring[i & 63].t = i;
}
static void mring_dump(char *buf, size_t n)
{
    uint64_t e = __atomic_load_n(&g_mring_n, __ATOMIC_SEQ_CST);
    size_t off = 0;
    for (uint64_t i = e > 24 ? e - 24 : 0; i < e && off + 24 < n; i++)
        off += (size_t)snprintf(buf + off, n - off, "%c(%d,%d) ", g_mring[i & 63].what, g_mring[i & 63].a, g_mring[i & 63].b);
}
static int mpool_index(ABT_pool p)
{
    for (int i = 0; i < g_nmpools; i++)
        if (g_mpools[i] == p)
            return i;
    return -1;
}
static void mig_cb(ABT_thread th, void *arg)
{
    if (arg != (void *)&g_m || th != g_m.th)
        __atomic_store_n(&g_m.cb_bad, 1, __ATOMIC_SEQ_CST);
    __atomic_fetch_add(&g_m.cb_count, 1, __ATOMIC_SEQ_CST);
    {
        ABT_pool lp = ABT_POOL_NULL;
        ABT_thread_get_last_pool(th, &lp);
        mring('C', mpool_index(lp), 0);
    }
    vrt_count(c_mcb, 1);
}
/* Requests are issued and recorded under one harness lock so that the order
 * of the records equals the order in which the runtime saw the requests. */
static int g_mreq_lock;
static void mreq_lock(void)
{
    while (__atomic_exchange_n(&g_mreq_lock, 1, __ATOMIC_ACQUIRE))
        sched_yield();
}
static void mreq_unlock(void)
{
    __atomic_store_n(&g_mreq_lock, 0, __ATOMIC_RELEASE);
}
static void mig_note_request(int pool)
{
    uint64_t old = __atomic_load_n(&g_m.req, __ATOMIC_SEQ_CST), nw;
    do {
        nw = (((old >> 8) + 1) << 8) | (uint64_t)pool;
    } while (!__atomic_compare_exchange_n(&g_m.req, &old, nw, 0, __ATOMIC_SEQ_CST, __ATOMIC_SEQ_CST));
    mring('N', pool, (int)(nw >> 8));
}
/* A request whose call is in progress may already take effect (the runtime
 * may read its target before the call returns), so the expected pool is
 * "unknown" (0xff) from just before the call until its outcome is recorded. */
static int mig_request_begin(void)
{
    int prev = (int)(__atomic_load_n(&g_m.req, __ATOMIC_SEQ_CST) & 0xff);
    mig_note_request(0xff);
    return prev;
}
static void mig_request_end(int rc, int pool, int prev)
{
    mig_note_request(rc == ABT_SUCCESS ? pool : prev);
}

static void mig_fn(void *arg)
{
    mig_t *m = (mig_t *)arg;
    if (__atomic_add_fetch(&m->starts, 1, __ATOMIC_SEQ_CST) != 1)
        vrt_violation("migrate:started-twice", "the migrating unit was started again");
    int prev = -1;
    uint64_t r1 = 0, r2 = 0; /* request words seen at the two previous slice starts */
    int have = 0;
    while (!__atomic_load_n(&m->stop, __ATOMIC_SEQ_CST) && vrt_num_violations() == 0) {
        /* slice start */
        ABT_pool lp = ABT_POOL_NULL;
        VRT_ABT(ABT_self_get_last_pool(&lp));
        int cur = mpool_index(lp);
        int rank = -1;
        ABT_self_get_xstream_rank(&rank);
        uint64_t rq = __atomic_load_n(&m->req, __ATOMIC_SEQ_CST);
        if (cur < 0)
            vrt_violation("migrate:unknown-pool", "the unit runs from a pool that is none of the scenario's pools");
        if (prev >= 0 && cur != prev)
            m->changes++;
        /* a request that was recorded before the slice before the previous one
         * started and was not followed by another one must be in effect now */
        if (have >= 2 && r2 == rq && (rq >> 8) > 0 && (rq & 0xff) != 0xff && (int)(rq & 0xff) != cur) {
            uint32_t reqbits = ABTD_atomic_acquire_load_uint32(&((ABTI_thread *)m->th)->request);
            char ring[700];
            ring[0] = 0;
            mring_dump(ring, sizeof(ring));
            vrt_note("migrate_ring", "%s", ring);
            vrt_violation("migrate:request-not-honoured",
                          "a successful migration request to pool %d was recorded two scheduling points ago and none "
                          "since, but the unit still runs from pool %d (request word seq %llu, pending request bits 0x%x, "
                          "callbacks so far %d, previous slice pool %d)", (int)(rq & 0xff), cur,
                          (unsigned long long)(rq >> 8), reqbits, __atomic_load_n(&m->cb_count, __ATOMIC_SEQ_CST), prev);
        }
        r2 = r1;
        r1 = rq;
        if (have < 2)
            have++;
        prev = cur;
        mring('S', cur, (int)(rq >> 8));
        __atomic_store_n(&m->cur_pool, cur, __ATOMIC_SEQ_CST);
        __atomic_store_n(&m->cur_rank, rank, __ATOMIC_SEQ_CST);
        __atomic_fetch_add(&m->slices, 1, __ATOMIC_SEQ_CST);
        vrt_count(c_mslices, 1);
        /* self-issued request now and then */
        if (vrt_range(&m->rng, 16) == 0 && __atomic_load_n(&m->self_requests, __ATOMIC_SEQ_CST)) {
            int k = (int)vrt_range(&m->rng, (uint64_t)g_nmpools);
            mreq_lock();
            int prevt = mig_request_begin();
            int rc = ABT_thread_migrate_to_pool(m->th, g_mpools[k]);
            mig_request_end(rc, k, prevt);
            if (rc == ABT_SUCCESS)
                vrt_count(c_mself_req, 1);
            mreq_unlock();
            if (rc != ABT_SUCCESS && k != cur)
                vrt_violation("migrate:self-request-rejected", "self-issued migrate_to_pool(%d) from pool %d returned %d",
                              k, cur, rc);
        }
        if (__atomic_load_n(&m->park, __ATOMIC_SEQ_CST)) {
            __atomic_store_n(&m->park, 0, __ATOMIC_SEQ_CST);
            __atomic_store_n(&m->parked, 1, __ATOMIC_SEQ_CST);
            VRT_ABT(ABT_self_suspend());
            __atomic_store_n(&m->parked, 0, __ATOMIC_SEQ_CST);
        } else {
            ABT_thread_yield();
        }
    }
    __atomic_store_n(&m->done, 1, __ATOMIC_SEQ_CST);
}

/* wait until the unit reports a slice start (n more slices) */
static void mig_wait_slices(long n)
{
    long s0 = __atomic_load_n(&g_m.slices, __ATOMIC_SEQ_CST);
    while (__atomic_load_n(&g_m.slices, __ATOMIC_SEQ_CST) < s0 + n && vrt_num_violations() == 0)
        ABT_thread_yield();
}
/* park the unit (BLOCKED, pool known), run f, resume */
static int mig_park(void)
{
    __atomic_store_n(&g_m.park, 1, __ATOMIC_SEQ_CST);
    for (;;) {
        ABT_thread_state st;
        VRT_ABT(ABT_thread_get_state(g_m.th, &st));
        if (__atomic_load_n(&g_m.parked, __ATOMIC_SEQ_CST) && st == ABT_THREAD_STATE_BLOCKED)
            break;
        ABT_thread_yield();
    }
    return __atomic_load_n(&g_m.cur_pool, __ATOMIC_SEQ_CST);
}

typedef struct {
    uint64_t seed;
    int n;
    int is_ext;
    int done;
} mreq_t;
static void mreq_body(mreq_t *q)
{
    vrt_rng r = { q->seed };
    for (int i = 0; i < q->n && vrt_num_violations() == 0; i++) {
        int k = (int)vrt_range(&r, (uint64_t)g_nmpools);
        mreq_lock();
        int prevt = mig_request_begin();
        int rc = ABT_thread_migrate_to_pool(g_m.th, g_mpools[k]);
        mig_request_end(rc, k, prevt);
        mreq_unlock();
        if (rc == ABT_SUCCESS) {
            vrt_count(c_mreq_ok, 1);
        } else if (rc == ABT_ERR_MIGRATION_TARGET) {
            vrt_count(c_mreq_rejected, 1);
        } else {
            vrt_violation("migrate:request-rc", "migrate_to_pool returned %d", rc);
        }
        vrt_count(c_mconc_req, 1);
        if (q->is_ext)
            vrt_sleep_us((unsigned)vrt_range(&r, 60));
        else
            ABT_thread_yield();
    }
    __atomic_store_n(&q->done, 1, __ATOMIC_SEQ_CST);
}
static void mreq_fn(void *arg)
{
    mreq_body((mreq_t *)arg);
}
static void *mreq_pt(void *arg)
{
    mreq_body((mreq_t *)arg);
    return NULL;
}

static ABT_thread g_msched_thread; /* the main scheduler ULT of the user-scheduled stream */
static int g_msched_published;
static void msched_run(ABT_sched sched)
{
    if (!__atomic_load_n(&g_msched_published, __ATOMIC_SEQ_CST)) {
        ABT_self_get_thread(&g_msched_thread);
        __atomic_store_n(&g_msched_published, 1, __ATOMIC_SEQ_CST);
    }
    usched_run(sched);
}
static ABT_sched_def g_msched_def = { .type = ABT_SCHED_TYPE_ULT, .init = usched_init, .run = msched_run,
                                      .free = usched_free, .get_migr_pool = NULL };

static int g_mfirst_go;
static ABT_thread g_mfirst_thread;
static int c_mfirst_race;
void *mfirst_pt(void *arg)
{
    int k = (int)(uintptr_t)arg;
    while (!__atomic_load_n(&g_mfirst_go, __ATOMIC_SEQ_CST))
        ;
    ABT_thread_migrate_to_pool(g_mfirst_thread, g_mpools[k]);
    return NULL;
}
static void mig_dummy(void *arg)
{
    int *flag = (int *)arg;
    while (!__atomic_load_n(flag, __ATOMIC_SEQ_CST))
        ABT_thread_yield();
}

/* phase E unit: parks once, then runs two more slices */
typedef struct {
    ABT_pool home;
    int cbs, slices_elsewhere;
} me_unit_t;
static int c_mrej_own_multi, c_mattr_cb;
static void me_cb(ABT_thread th, void *arg)
{
    (void)th;
    __atomic_fetch_add(&((me_unit_t *)arg)->cbs, 1, __ATOMIC_SEQ_CST);
}
static void me_unit_fn(void *arg)
{
    me_unit_t *u = (me_unit_t *)arg;
    ABT_self_get_last_pool(&u->home);
    ABT_self_suspend();
    for (int i = 0; i < 3; i++) {
        ABT_pool p;
        ABT_self_get_last_pool(&p);
        if (p != u->home)
            u->slices_elsewhere++;
        ABT_thread_yield();
    }
}

/* phase F unit: issues a migration request for itself and then gives up the
 * processor in one of several ways; the next slice must come from the target */
typedef struct {
    ABT_pool dst;
    ABT_thread peer;
    int form;
    int cbs;
    int rc, rc_giveup;
    int rank_before, rank_after;
    ABT_pool last_after;
    int peer_stop, peer_slices;
} mf_unit_t;
static int c_mgiveup[5];
static const char *mf_form_name[] = { "ABT_self_yield", "ABT_thread_yield_to", "ABT_self_yield_to", "ABT_thread_yield",
                                      "ABT_self_resume_yield_to" };
static void mf_cb(ABT_thread th, void *arg)
{
    (void)th;
    __atomic_fetch_add(&((mf_unit_t *)arg)->cbs, 1, __ATOMIC_SEQ_CST);
}
static void mf_peer_fn(void *arg)
{
    mf_unit_t *u = (mf_unit_t *)arg;
    while (!__atomic_load_n(&u->peer_stop, __ATOMIC_SEQ_CST)) {
        __atomic_fetch_add(&u->peer_slices, 1, __ATOMIC_SEQ_CST);
        ABT_thread_yield();
    }
}
static void mf_unit_fn(void *arg)
{
    mf_unit_t *u = (mf_unit_t *)arg;
    ABT_thread self;
    ABT_self_get_thread(&self);
    ABT_self_get_xstream_rank(&u->rank_before);
    u->rc = ABT_thread_migrate_to_pool(self, u->dst);
    switch (u->form) {
        case 0:
            u->rc_giveup = ABT_self_yield();
            break;
        case 1:
            u->rc_giveup = ABT_thread_yield_to(u->peer);
            break;
        case 2: {
            /* ABT_self_yield_to wants its target popped first; the peer is the
             * only other unit of this pool */
            ABT_pool mine;
            ABT_thread got = ABT_THREAD_NULL;
            ABT_self_get_last_pool(&mine);
            ABT_pool_pop_thread(mine, &got);
            if (got == u->peer) {
                u->rc_giveup = ABT_self_yield_to(u->peer);
            } else {
                if (got != ABT_THREAD_NULL)
                    ABT_pool_push_thread(mine, got);
                u->form = 0;
                u->rc_giveup = ABT_self_yield();
            }
            break;
        }
        default:
            u->rc_giveup = ABT_thread_yield();
            break;
    }
    ABT_self_get_xstream_rank(&u->rank_after);
    ABT_self_get_last_pool(&u->last_after);
}


/* ---------------------------------------------------------------------------
 * mode xcancel: unnamed ULTs that live in a pool shared by several streams are
 * cancelled while they sit in the pool, so the cancellation is carried out by
 * whichever stream pops them next - often not the stream they last ran on -
 * while every stream keeps allocating and freeing unnamed ULTs from its local
 * memory pools.  Oracles: TSan/ASan on the memory pools, a registry of live
 * stacks (no two live ULTs on overlapping stacks), a pattern at the far end of
 * every live stack, exactly-once starts, pools empty at the end.
 * ------------------------------------------------------------------------- */
#define XC_MAXV 64
#define XC_SLOTS 512
typedef struct {
    ABT_thread th;    /* published by the victim itself */
    int published, starts, slices, cancel_sent;
    int slot;
    int last_rank, rank_changes;
} xc_victim_t;
static struct {
    ABT_pool shared;
    xc_victim_t v[XC_MAXV];
    int nv;
    int stop;
    uintptr_t lo[XC_SLOTS], hi[XC_SLOTS]; /* live stacks; lo == 0: free slot */
    int churn_done;
} g_xc;
static int c_xc_scen, c_xc_victims, c_xc_cancel_in_pool, c_xc_children, c_xc_stack_checks, c_xc_moved;
static int xc_stack_enter(void)
{
    ABT_thread self;
    ABT_thread_attr attr;
    void *addr = NULL;
    size_t sz = 0;
    ABT_self_get_thread(&self);
    if (ABT_thread_get_attr(self, &attr) != ABT_SUCCESS)
        return -1;
    ABT_thread_attr_get_stack(attr, &addr, &sz);
    ABT_thread_attr_free(&attr);
    if (!addr || !sz)
        return -1;
    uintptr_t lo = (uintptr_t)addr, hi = lo + sz;
    int mine = -1;
    for (int i = 0; i < XC_SLOTS && mine < 0; i++) {
        uintptr_t z = 0;
        if (__atomic_load_n(&g_xc.lo[i], __ATOMIC_SEQ_CST) == 0 &&
            __atomic_compare_exchange_n(&g_xc.lo[i], &z, (uintptr_t)1, 0, __ATOMIC_SEQ_CST, __ATOMIC_SEQ_CST)) {
            __atomic_store_n(&g_xc.hi[i], hi, __ATOMIC_SEQ_CST);
            __atomic_store_n(&g_xc.lo[i], lo, __ATOMIC_SEQ_CST);
            mine = i;
        }
    }
    for (int i = 0; i < XC_SLOTS; i++) {
        if (i == mine)
            continue;
        uintptr_t l = __atomic_load_n(&g_xc.lo[i], __ATOMIC_SEQ_CST), h = __atomic_load_n(&g_xc.hi[i], __ATOMIC_SEQ_CST);
        if (l > 1 && l < hi && lo < h) {
            vrt_violation("mem:stack-shared-by-two-live-ults", "a starting ULT got the stack %p..%p, which overlaps the stack "
                          "%p..%p of a ULT that has not terminated", (void *)lo, (void *)hi, (void *)l, (void *)h);
            break;
        }
    }
    vrt_count(c_xc_stack_checks, 1);
    return mine;
}
static void xc_stack_leave(int slot)
{
    if (slot >= 0) {
        __atomic_store_n(&g_xc.hi[slot], 0, __ATOMIC_SEQ_CST);
        __atomic_store_n(&g_xc.lo[slot], 0, __ATOMIC_SEQ_CST);
    }
}
static void xc_victim_fn(void *arg)
{
    xc_victim_t *v = (xc_victim_t *)arg;
    if (__atomic_add_fetch(&v->starts, 1, __ATOMIC_SEQ_CST) != 1)
        vrt_violation("life:not-started-exactly-once", "an unnamed ULT that is to be cancelled was started twice");
    v->slot = xc_stack_enter();
    ABT_self_get_thread(&v->th);
    ABT_self_get_xstream_rank(&v->last_rank);
    volatile unsigned char pat[256];
    for (int i = 0; i < 256; i++)
        pat[i] = (unsigned char)(i ^ (int)(uintptr_t)v);
    __atomic_store_n(&v->published, 1, __ATOMIC_SEQ_CST);
    for (;;) {
        ABT_thread_yield();
        int rk = -1;
        ABT_self_get_xstream_rank(&rk);
        if (rk != v->last_rank) {
            v->last_rank = rk;
            v->rank_changes++;
        }
        __atomic_fetch_add(&v->slices, 1, __ATOMIC_SEQ_CST);
        for (int i = 0; i < 256; i++)
            if (pat[i] != (unsigned char)(i ^ (int)(uintptr_t)v)) {
                vrt_violation("mem:live-stack-overwritten", "the stack of a live unnamed ULT was overwritten while it sat in "
                              "the pool");
                break;
            }
        if (vrt_num_violations())
            break;
    }
}
static void xc_child_fn(void *arg)
{
    (void)arg;
    int slot = xc_stack_enter();
    volatile unsigned char pat[128];
    for (int i = 0; i < 128; i++)
        pat[i] = (unsigned char)(i * 7);
    ABT_thread_yield();
    for (int i = 0; i < 128; i++)
        if (pat[i] != (unsigned char)(i * 7)) {
            vrt_violation("mem:live-stack-overwritten", "the stack of a live unnamed ULT was overwritten across a yield");
            break;
        }
    xc_stack_leave(slot);
    vrt_count(c_xc_children, 1);
}
/* one per stream, in the stream's private pool: keeps the stream's local
 * memory pools busy (unnamed ULTs: descriptor and stack come from and go back
 * to the local pools of the stream that creates / terminates them) */
static void xc_churn_fn(void *arg)
{
    ABT_pool mine = (ABT_pool)arg;
    while (!__atomic_load_n(&g_xc.stop, __ATOMIC_SEQ_CST) && vrt_num_violations() == 0) {
        for (int i = 0; i < 6; i++)
            VRT_ABT(ABT_thread_create(mine, xc_child_fn, NULL, ABT_THREAD_ATTR_NULL, NULL));
        for (int i = 0; i < 8; i++)
            ABT_thread_yield();
    }
    __atomic_fetch_add(&g_xc.churn_done, 1, __ATOMIC_SEQ_CST);
}
static void run_xcancel(vrt_rng *r, int idx)
{
    (void)idx;
    memset(&g_xc, 0, sizeof(g_xc));
    VRT_ABT(ABT_init(0, NULL));
    int nes = 2 + (int)vrt_range(r, 3);
    static const int pk[] = { ABT_POOL_FIFO, ABT_POOL_RANDWS, ABT_POOL_FIFO };
    VRT_ABT(ABT_pool_create_basic((ABT_pool_kind)pk[vrt_range(r, 3)], ABT_POOL_ACCESS_MPMC, ABT_FALSE, &g_xc.shared));
    ABT_xstream xs[4];
    ABT_pool priv[4];
    ABT_thread churn[4];
    for (int i = 0; i < nes; i++) {
        ABT_pool two[2];
        VRT_ABT(ABT_pool_create_basic(ABT_POOL_FIFO, ABT_POOL_ACCESS_MPMC, ABT_FALSE, &priv[i]));
        /* the shared pool first or second */
        int first = (int)vrt_range(r, 2);
        two[first] = priv[i];
        two[1 - first] = g_xc.shared;
        VRT_ABT(ABT_xstream_create_basic(vrt_range(r, 2) ? ABT_SCHED_BASIC : ABT_SCHED_DEFAULT, 2, two, ABT_SCHED_CONFIG_NULL,
                                         &xs[i]));
        VRT_ABT(ABT_thread_create(priv[i], xc_churn_fn, (void *)priv[i], ABT_THREAD_ATTR_NULL, &churn[i]));
    }
    g_xc.nv = 8 + (int)vrt_range(r, XC_MAXV - 8);
    for (int i = 0; i < g_xc.nv; i++)
        VRT_ABT(ABT_thread_create(g_xc.shared, xc_victim_fn, &g_xc.v[i], ABT_THREAD_ATTR_NULL, NULL));
    /* cancel every victim once it has published itself and run a few slices */
    int left = g_xc.nv;
    while (left > 0 && vrt_num_violations() == 0) {
        for (int i = 0; i < g_xc.nv; i++) {
            xc_victim_t *v = &g_xc.v[i];
            if (v->cancel_sent || !__atomic_load_n(&v->published, __ATOMIC_SEQ_CST) ||
                __atomic_load_n(&v->slices, __ATOMIC_SEQ_CST) < 2 + (int)(vrt_range(r, 6)))
                continue;
            /* the stack stops being "live" no later than the cancellation */
            xc_stack_leave(v->slot);
            ABT_thread_state st = ABT_THREAD_STATE_RUNNING;
            ABT_thread_get_state(v->th, &st);
            VRT_ABT(ABT_thread_cancel(v->th));
            if (st == ABT_THREAD_STATE_READY)
                vrt_count(c_xc_cancel_in_pool, 1);
            v->cancel_sent = 1;
            left--;
            vrt_count(c_xc_victims, 1);
            if (v->rank_changes)
                vrt_count(c_xc_moved, 1);
        }
        ABT_thread_yield();
    }
    /* the shared pool drains: every cancelled victim is terminated by the
     * stream that pops it (bounded by the supervisor's watchdog) */
    vrt_call_begin("draining a shared pool whose units have all been cancelled");
    for (;;) {
        size_t tot = 1;
        VRT_ABT(ABT_pool_get_total_size(g_xc.shared, &tot));
        if (tot == 0 || vrt_num_violations())
            break;
        ABT_thread_yield();
    }
    vrt_call_end();
    __atomic_store_n(&g_xc.stop, 1, __ATOMIC_SEQ_CST);
    for (int i = 0; i < nes; i++)
        VRT_ABT(ABT_thread_free(&churn[i]));
    for (int i = 0; i < nes; i++) {
        VRT_ABT(ABT_xstream_join(xs[i]));
        VRT_ABT(ABT_xstream_free(&xs[i]));
    }
    for (int i = 0; i < g_xc.nv && vrt_num_violations() == 0; i++)
        VRT_CHECK(g_xc.v[i].starts == 1, "life:not-started-exactly-once", "victim %d started %d times", i, g_xc.v[i].starts);
    if (vrt_num_violations() == 0)
        for (int i = 0; i < XC_SLOTS; i++)
            if (g_xc.lo[i]) {
                vrt_violation("mem:stack-registry-leak", "a ULT that registered its stack never unregistered it although all "
                              "streams were joined");
                break;
            }
    if (vrt_num_violations())
        return;
    VRT_ABT(ABT_finalize());
    vrt_count(c_xc_scen, 1);
    vrt_count(c_cases, 1);
    vrt_signature_add("xc:es%d,v%d", nes, g_xc.nv > 32);
}

static void mig_observer(int id)
{
    if (id == ABTI_VERIF_P_MIGRATE_BEFORE_CLEAR)
        mring('h', 0, 0);
    else if (id == ABTI_VERIF_P_MIGRATE_AFTER_TARGET_SET)
        mring('r', 0, 0);
    else if (id == ABTI_VERIF_C_SCHEDULE_MIGRATED)
        mring('m', 0, 0);
}
static void run_migrate(vrt_rng *r, int idx)
{
    if (vrt_arg_has("trace")) {
        vrt_point_observer = mig_observer;
        g_mring_on = 1;
    }
    VRT_ABT(ABT_init(0, NULL));
    memset(&g_m, 0, sizeof(g_m));
    g_m.rng.s = vrt_next(r);
    int nes = 3 + (int)vrt_range(r, 2);
    ABT_xstream xs[5];
    ABT_sched scheds[5];
    VRT_ABT(ABT_xstream_self(&xs[0]));
    g_nmpools = nes; /* pool i belongs to stream i; the primary's pool is index 0 */
    VRT_ABT(ABT_xstream_get_main_pools(xs[0], 1, &g_mpools[0]));
    static const int pk[] = { ABT_POOL_FIFO, ABT_POOL_FIFO_WAIT, ABT_POOL_RANDWS };
    static const ABT_sched_predef sp[] = { ABT_SCHED_BASIC, ABT_SCHED_PRIO, ABT_SCHED_DEFAULT };
    g_msched_published = 0;
    for (int i = 1; i < nes; i++) {
        VRT_ABT(ABT_pool_create_basic((ABT_pool_kind)pk[vrt_range(r, 3)], ABT_POOL_ACCESS_MPMC, ABT_TRUE, &g_mpools[i]));
        if (i == nes - 1) {
            /* a stream with a user-defined scheduler (also gives us the handle of a main-scheduler ULT) */
            ABT_sched_config cfg;
            VRT_ABT(ABT_sched_config_create(&cfg, ABT_sched_config_automatic, 1, ABT_sched_config_var_end));
            VRT_ABT(ABT_sched_create(&g_msched_def, 1, &g_mpools[i], cfg, &scheds[i]));
            VRT_ABT(ABT_sched_config_free(&cfg));
        } else {
            VRT_ABT(ABT_sched_create_basic(sp[vrt_range(r, 3)], 1, &g_mpools[i], ABT_SCHED_CONFIG_NULL, &scheds[i]));
        }
        VRT_ABT(ABT_xstream_create(scheds[i], &xs[i]));
    }
    while (!__atomic_load_n(&g_msched_published, __ATOMIC_SEQ_CST))
        ABT_thread_yield();
    /* the migrating unit starts in pool 1 */
    g_m.cur_pool = -1;
    VRT_ABT(ABT_thread_create(g_mpools[1], mig_fn, &g_m, ABT_THREAD_ATTR_NULL, &g_m.th));
    VRT_ABT(ABT_thread_set_callback(g_m.th, mig_cb, &g_m));
    mig_wait_slices(2);
    /* --- phase A: sequential, exact: every request is performed exactly once with one callback --- */
    int nseq = 20 + (int)vrt_range(r, 60);
    for (int i = 0; i < nseq && vrt_num_violations() == 0; i++) {
        int cur = mig_park(); /* quiescent: BLOCKED in a known pool */
        int k = (int)vrt_range(r, (uint64_t)g_nmpools);
        int cb0 = __atomic_load_n(&g_m.cb_count, __ATOMIC_SEQ_CST);
        unsigned how = (unsigned)vrt_range(r, 3);
        int rc;
        if (how == 0 || k == 0) {
            rc = ABT_thread_migrate_to_pool(g_m.th, g_mpools[k]);
        } else if (how == 1) {
            rc = ABT_thread_migrate_to_xstream(g_m.th, xs[k]);
            vrt_count(c_mto_xstream, 1);
        } else {
            rc = ABT_thread_migrate_to_sched(g_m.th, scheds[k]);
            vrt_count(c_mto_sched, 1);
        }
        if (k == cur) {
            VRT_CHECK(rc != ABT_SUCCESS, "migrate:request-to-current-pool-accepted",
                      "a request naming the unit's current pool %d returned success (variant %u)", k, how);
            vrt_count(c_mrej_same_pool, 1);
            VRT_ABT(ABT_thread_resume(g_m.th));
            mig_wait_slices(2);
            VRT_CHECK(__atomic_load_n(&g_m.cur_pool, __ATOMIC_SEQ_CST) == cur &&
                          __atomic_load_n(&g_m.cb_count, __ATOMIC_SEQ_CST) == cb0,
                      "migrate:rejected-request-had-effect", "a rejected request changed the pool or ran the callback");
        } else {
            VRT_CHECK(rc == ABT_SUCCESS, "migrate:valid-request-rejected",
                      "request from pool %d to pool %d (variant %u) returned %d", cur, k, how, rc);
            if (rc == ABT_SUCCESS)
                mig_note_request(k);
            VRT_ABT(ABT_thread_resume(g_m.th));
            mig_wait_slices(2);
            if (rc == ABT_SUCCESS && vrt_num_violations() == 0) {
                int now = __atomic_load_n(&g_m.cur_pool, __ATOMIC_SEQ_CST);
                int cb1 = __atomic_load_n(&g_m.cb_count, __ATOMIC_SEQ_CST);
                VRT_CHECK(now == k, "migrate:not-moved", "after a successful request to pool %d and two scheduling points the "
                          "unit runs from pool %d", k, now);
                VRT_CHECK(cb1 == cb0 + 1, "migrate:callback-count", "one performed migration, callback ran %d times", cb1 - cb0);
                ABT_pool lp;
                VRT_ABT(ABT_thread_get_last_pool(g_m.th, &lp));
                vrt_count(c_mseq_exact, 1);
            }
        }
    }
    /* --- phase C: rejections --- */
    if (vrt_num_violations() == 0) {
        int cur = mig_park();
        int other = (cur + 1) % g_nmpools;
        VRT_ABT(ABT_thread_set_migratable(g_m.th, ABT_FALSE));
        int cb0 = __atomic_load_n(&g_m.cb_count, __ATOMIC_SEQ_CST);
        int rc = ABT_thread_migrate_to_pool(g_m.th, g_mpools[other]);
        VRT_CHECK(rc != ABT_SUCCESS, "migrate:nonmigratable-accepted", "request for a non-migratable unit returned success");
        rc = ABT_thread_migrate(g_m.th);
        VRT_CHECK(rc != ABT_SUCCESS, "migrate:nonmigratable-accepted", "ABT_thread_migrate for a non-migratable unit returned success");
        vrt_count(c_mrej_nonmigratable, 1);
        VRT_ABT(ABT_thread_resume(g_m.th));
        mig_wait_slices(2);
        VRT_CHECK(__atomic_load_n(&g_m.cur_pool, __ATOMIC_SEQ_CST) == cur && __atomic_load_n(&g_m.cb_count, __ATOMIC_SEQ_CST) == cb0,
                  "migrate:rejected-request-had-effect", "a request for a non-migratable unit had an effect");
        /* ABT_thread_set_migratable is not thread safe with respect to the
         * target: change it only while the unit is parked */
        (void)mig_park();
        VRT_ABT(ABT_thread_set_migratable(g_m.th, ABT_TRUE));
        VRT_ABT(ABT_thread_resume(g_m.th));
        mig_wait_slices(2);
        /* main scheduler ULT */
        rc = ABT_thread_migrate_to_pool(g_msched_thread, g_mpools[1]);
        VRT_CHECK(rc != ABT_SUCCESS, "migrate:main-sched-accepted", "migration request for a main-scheduler ULT returned success");
        vrt_count(c_mrej_mainsched, 1);
    }
    /* --- phase D: ABT_thread_migrate picks some other running stream --- */
    for (int i = 0; i < 8 && vrt_num_violations() == 0; i++) {
        int cur = mig_park();
        int rank0 = __atomic_load_n(&g_m.cur_rank, __ATOMIC_SEQ_CST);
        int cb0 = __atomic_load_n(&g_m.cb_count, __ATOMIC_SEQ_CST);
        int rc = ABT_thread_migrate(g_m.th);
        if (rc != ABT_SUCCESS) {
            vrt_violation("migrate:migrate-no-target", "ABT_thread_migrate returned %d although %d other execution streams "
                          "are running (unit in pool %d, last stream %d)", rc, nes - 1, cur, rank0);
            VRT_ABT(ABT_thread_resume(g_m.th));
            break;
        }
        vrt_count(c_mmigrate_any_ok, 1);
        mig_note_request(0xff); /* target chosen by the runtime: unknown until observed */
        VRT_ABT(ABT_thread_resume(g_m.th));
        mig_wait_slices(2);
        int now = __atomic_load_n(&g_m.cur_pool, __ATOMIC_SEQ_CST);
        int rank1 = __atomic_load_n(&g_m.cur_rank, __ATOMIC_SEQ_CST);
        VRT_CHECK(now != cur && rank1 != rank0, "migrate:migrate-did-not-move",
                  "ABT_thread_migrate returned success but the unit still runs from pool %d on stream %d (was pool %d, stream %d)",
                  now, rank1, cur, rank0);
        VRT_CHECK(__atomic_load_n(&g_m.cb_count, __ATOMIC_SEQ_CST) == cb0 + 1, "migrate:callback-count",
                  "ABT_thread_migrate: callback ran %d times", __atomic_load_n(&g_m.cb_count, __ATOMIC_SEQ_CST) - cb0);
        /* keep the sequence word in step with what happened */
        mig_note_request(now);
    }
    /* --- phase B: concurrent requesters (ULT + external) and self requests, racing with yields --- */
    if (vrt_num_violations() == 0) {
        __atomic_store_n(&g_m.self_requests, 1, __ATOMIC_SEQ_CST);
        mreq_t q[3];
        ABT_thread qth[3];
        pthread_t qpt[3];
        int nq = 1 + (int)vrt_range(r, 3);
        int cb0 = __atomic_load_n(&g_m.cb_count, __ATOMIC_SEQ_CST);
        uint64_t seq0 = __atomic_load_n(&g_m.req, __ATOMIC_SEQ_CST) >> 8;
        for (int i = 0; i < nq; i++) {
            q[i].seed = vrt_next(r);
            q[i].n = 100 + (int)vrt_range(r, 400);
            q[i].is_ext = (int)vrt_range(r, 2);
            q[i].done = 0;
            if (q[i].is_ext)
                pthread_create(&qpt[i], NULL, mreq_pt, &q[i]);
            else
                VRT_ABT(ABT_thread_create(g_mpools[0], mreq_fn, &q[i], ABT_THREAD_ATTR_NULL, &qth[i]));
        }
        for (int i = 0; i < nq; i++) {
            while (!__atomic_load_n(&q[i].done, __ATOMIC_SEQ_CST))
                ABT_thread_yield();
            if (q[i].is_ext)
                pthread_join(qpt[i], NULL);
            else
                VRT_ABT(ABT_thread_free(&qth[i]));
        }
        __atomic_store_n(&g_m.self_requests, 0, __ATOMIC_SEQ_CST);
        mig_wait_slices(4);
        int cbs = __atomic_load_n(&g_m.cb_count, __ATOMIC_SEQ_CST) - cb0;
        uint64_t reqs = (__atomic_load_n(&g_m.req, __ATOMIC_SEQ_CST) >> 8) - seq0;
        VRT_CHECK((uint64_t)cbs <= reqs, "migrate:more-callbacks-than-requests", "%d callbacks for %llu successful requests",
                  cbs, (unsigned long long)reqs);
    }
    /* stop */
    __atomic_store_n(&g_m.stop, 1, __ATOMIC_SEQ_CST);
    VRT_ABT(ABT_thread_free(&g_m.th));
    /* first-request race: two external threads issue the very first requests
     * (no callback set before) for a fresh unit at the same time: the lazily
     * created migration record must not be leaked or torn (LSan/ASan/TSan) */
    for (int k = 0; k < 6 && vrt_num_violations() == 0; k++) {
        int flag = 0;
        ABT_thread t;
        pthread_t pa, pb;
        extern void *mfirst_pt(void *);
        VRT_ABT(ABT_thread_create(g_mpools[1], mig_dummy, &flag, ABT_THREAD_ATTR_NULL, &t));
        void *args[2] = { (void *)t, (void *)&flag };
        g_mfirst_go = 0;
        g_mfirst_thread = t;
        pthread_create(&pa, NULL, mfirst_pt, (void *)(uintptr_t)2);
        pthread_create(&pb, NULL, mfirst_pt, (void *)(uintptr_t)(nes - 1));
        __atomic_store_n(&g_mfirst_go, 1, __ATOMIC_SEQ_CST);
        pthread_join(pa, NULL);
        pthread_join(pb, NULL);
        (void)args;
        __atomic_store_n(&flag, 1, __ATOMIC_SEQ_CST);
        VRT_ABT(ABT_thread_free(&t));
        vrt_count(c_mfirst_race, 1);
    }
    /* --- phase E: a stream whose scheduler has several pools; a unit parked
     * in any of them may not be "migrated" to its own stream or scheduler --- */
    if (vrt_num_violations() == 0) {
        ABT_pool q[3];
        int nq = 2 + (int)vrt_range(r, 2);
        for (int i = 0; i < nq; i++)
            VRT_ABT(ABT_pool_create_basic(ABT_POOL_FIFO, ABT_POOL_ACCESS_MPMC, ABT_TRUE, &q[i]));
        ABT_sched qs;
        ABT_xstream qx;
        VRT_ABT(ABT_sched_create_basic(sp[vrt_range(r, 3)], nq, q, ABT_SCHED_CONFIG_NULL, &qs));
        VRT_ABT(ABT_xstream_create(qs, &qx));
        for (int i = 0; i < nq && vrt_num_violations() == 0; i++) {
            me_unit_t u;
            memset(&u, 0, sizeof(u));
            ABT_thread t;
            VRT_ABT(ABT_thread_create(q[i], me_unit_fn, &u, ABT_THREAD_ATTR_NULL, &t));
            VRT_ABT(ABT_thread_set_callback(t, me_cb, &u));
            for (;;) {
                ABT_thread_state st;
                VRT_ABT(ABT_thread_get_state(t, &st));
                if (st == ABT_THREAD_STATE_BLOCKED)
                    break;
                ABT_thread_yield();
            }
            int rc1 = ABT_thread_migrate_to_xstream(t, qx);
            int rc2 = ABT_thread_migrate_to_sched(t, qs);
            int rc3 = ABT_thread_migrate_to_pool(t, q[i]);
            if (rc1 == ABT_SUCCESS || rc2 == ABT_SUCCESS || rc3 == ABT_SUCCESS)
                vrt_violation("migrate:request-to-current-pool-accepted",
                              "unit parked in pool %d of %d of a stream's scheduler: migrate_to_xstream(own stream) returned %d, "
                              "migrate_to_sched(own scheduler) %d, migrate_to_pool(own pool) %d; all must be rejected", i, nq,
                              rc1, rc2, rc3);
            VRT_ABT(ABT_thread_resume(t));
            VRT_ABT(ABT_thread_join(t));
            ABT_pool lp;
            VRT_ABT(ABT_thread_get_last_pool(t, &lp));
            if (vrt_num_violations() == 0)
                VRT_CHECK(lp == q[i] && u.cbs == 0 && u.slices_elsewhere == 0, "migrate:rejected-request-had-effect",
                          "rejected requests naming the unit's own stream/scheduler/pool: last pool %s, %d callbacks, %d "
                          "slices in another pool", lp == q[i] ? "unchanged" : "changed", u.cbs, u.slices_elsewhere);
            VRT_ABT(ABT_thread_free(&t));
            vrt_count(c_mrej_own_multi, 1);
        }
        /* a unit created non-migratable with a migration callback in its
         * attributes, made migratable later: the callback runs when it moves */
        if (vrt_num_violations() == 0) {
            me_unit_t u;
            memset(&u, 0, sizeof(u));
            ABT_thread t;
            ABT_thread_attr attr;
            VRT_ABT(ABT_thread_attr_create(&attr));
            VRT_ABT(ABT_thread_attr_set_migratable(attr, ABT_FALSE));
            VRT_ABT(ABT_thread_attr_set_callback(attr, me_cb, &u));
            VRT_ABT(ABT_thread_create(q[0], me_unit_fn, &u, attr, &t));
            VRT_ABT(ABT_thread_attr_free(&attr));
            for (;;) {
                ABT_thread_state st;
                VRT_ABT(ABT_thread_get_state(t, &st));
                if (st == ABT_THREAD_STATE_BLOCKED)
                    break;
                ABT_thread_yield();
            }
            int rc0 = ABT_thread_migrate_to_pool(t, q[1]);
            VRT_CHECK(rc0 != ABT_SUCCESS, "migrate:nonmigratable-accepted", "request for a unit created non-migratable "
                      "returned success");
            VRT_ABT(ABT_thread_set_migratable(t, ABT_TRUE));
            int rc1 = ABT_thread_migrate_to_pool(t, q[1]);
            VRT_CHECK(rc1 == ABT_SUCCESS, "migrate:valid-request-rejected", "request after ABT_thread_set_migratable(TRUE) "
                      "returned %d", rc1);
            VRT_ABT(ABT_thread_resume(t));
            VRT_ABT(ABT_thread_join(t));
            ABT_pool lp;
            VRT_ABT(ABT_thread_get_last_pool(t, &lp));
            if (vrt_num_violations() == 0 && rc1 == ABT_SUCCESS) {
                VRT_CHECK(lp == q[1] && u.slices_elsewhere > 0, "migrate:not-moved", "unit made migratable after creation did "
                          "not move to the requested pool");
                VRT_CHECK(u.cbs == 1, "migrate:callback-count", "unit created with a migration callback in its attributes "
                          "(non-migratable at first): one performed migration, callback ran %d times", u.cbs);
            }
            VRT_ABT(ABT_thread_free(&t));
            vrt_count(c_mattr_cb, 1);
        }
        VRT_ABT(ABT_xstream_join(qx));
        VRT_ABT(ABT_xstream_free(&qx));
    }
    /* --- phase F: a unit with a pending (self-issued) request gives up the
     * processor with each of the yielding forms; its next slice must come from
     * the requested pool, i.e. run on the stream serving that pool, with one
     * callback.  The peer of the directed forms lives in the unit's own pool,
     * which only the unit's stream serves, so it is READY and in the pool. --- */
    for (int f = 0; f < 8 && vrt_num_violations() == 0; f++) {
        mf_unit_t u;
        memset(&u, 0, sizeof(u));
        u.form = f % 4;
        int from = 1 + (int)vrt_range(r, (uint64_t)(nes - 2)); /* a stream with a predefined scheduler */
        int to = 1 + (int)vrt_range(r, (uint64_t)(nes - 1));
        if (to == from)
            to = from == nes - 1 ? 1 : from + 1;
        u.dst = g_mpools[to];
        int rank_to = -1, rank_from = -1;
        VRT_ABT(ABT_xstream_get_rank(xs[to], &rank_to));
        VRT_ABT(ABT_xstream_get_rank(xs[from], &rank_from));
        ABT_thread t, peer;
        ABT_thread_attr attr;
        VRT_ABT(ABT_thread_attr_create(&attr));
        VRT_ABT(ABT_thread_attr_set_callback(attr, mf_cb, &u));
        /* the peer is created (and published) first; it cannot be popped by
         * anybody but the stream that will run the unit */
        VRT_ABT(ABT_thread_create(g_mpools[from], mf_peer_fn, &u, ABT_THREAD_ATTR_NULL, &peer));
        u.peer = peer;
        VRT_ABT(ABT_thread_create(g_mpools[from], mf_unit_fn, &u, attr, &t));
        VRT_ABT(ABT_thread_attr_free(&attr));
        VRT_ABT(ABT_thread_join(t));
        __atomic_store_n(&u.peer_stop, 1, __ATOMIC_SEQ_CST);
        VRT_ABT(ABT_thread_free(&peer));
        ABT_pool lp;
        VRT_ABT(ABT_thread_get_last_pool(t, &lp));
        if (vrt_num_violations() == 0) {
            VRT_CHECK(u.rc == ABT_SUCCESS && u.rc_giveup == ABT_SUCCESS, "migrate:valid-request-rejected",
                      "self-issued request to another stream's pool returned %d, %s returned %d", u.rc, mf_form_name[u.form],
                      u.rc_giveup);
            VRT_CHECK(u.rank_before == rank_from, "migrate:unit-ran-on-wrong-stream", "a unit created in the pool of stream %d "
                      "started on stream %d", rank_from, u.rank_before);
            VRT_CHECK(u.last_after == u.dst && lp == u.dst && u.rank_after == rank_to, "migrate:not-moved",
                      "a unit with a pending request to the pool of stream %d gave up the processor with %s: its next slice "
                      "ran on stream %d (before: %d), last pool %s", rank_to, mf_form_name[u.form], u.rank_after, u.rank_before,
                      u.last_after == u.dst ? "= target" : "!= target");
            VRT_CHECK(u.cbs == 1, "migrate:callback-count", "pending request + %s: one performed migration, callback ran %d "
                      "times", mf_form_name[u.form], u.cbs);
        }
        VRT_ABT(ABT_thread_free(&t));
        vrt_count(c_mgiveup[u.form], 1);
    }
    VRT_CHECK(g_m.done == 1 && g_m.starts == 1, "migrate:not-exactly-once", "starts=%d done=%d", g_m.starts, g_m.done);
    VRT_CHECK(!g_m.cb_bad, "migrate:callback-arguments", "the migration callback received a wrong thread handle or argument");
    VRT_CHECK(g_m.cb_count >= g_m.changes, "migrate:fewer-callbacks-than-moves", "%d pool changes observed, %d callbacks",
              g_m.changes, g_m.cb_count);
    if (vrt_num_violations())
        return;
    for (int i = 1; i < nes; i++) {
        VRT_ABT(ABT_xstream_join(xs[i]));
        VRT_ABT(ABT_xstream_free(&xs[i]));
    }
    /* single stream: no other running stream exists */
    {
        int flag = 0;
        ABT_thread t;
        VRT_ABT(ABT_thread_create(g_mpools[0], mig_dummy, &flag, ABT_THREAD_ATTR_NULL, &t));
        int rc = ABT_thread_migrate(t);
        VRT_CHECK(rc != ABT_SUCCESS, "migrate:migrate-without-target-accepted",
                  "ABT_thread_migrate returned success although only one execution stream exists");
        vrt_count(c_mmigrate_any_na, 1);
        __atomic_store_n(&flag, 1, __ATOMIC_SEQ_CST);
        VRT_ABT(ABT_thread_free(&t));
    }
    VRT_ABT(ABT_finalize());
    if (idx < 2)
        vrt_sample("migrate scenario %d: %d streams (one with a user-defined scheduler), %d sequential exact requests via "
                   "migrate_to_pool/xstream/sched on a parked unit, rejections, ABT_thread_migrate x8, then concurrent "
                   "requesters + self requests racing with the unit's yields; %d pool changes, %d callbacks", idx, nes, nseq,
                   g_m.changes, g_m.cb_count);
    vrt_signature_add("es%d,seq%d", nes, nseq / 10);
    vrt_count(c_mscen, 1);
    vrt_count(c_cases, 1);
}

int main(int argc, char **argv)
{
    vrt_init(argc, argv, "h_units");
    const char *mode = vrt_arg("mode", "forest");
    c_cases = vrt_counter("cases");
    c_distinct = vrt_counter("distinct_nontrivial");
    c_units = vrt_counter("units");
    c_by_kind[0] = vrt_counter("named_ults");
    c_by_kind[1] = vrt_counter("unnamed_ults");
    c_by_kind[2] = vrt_counter("named_tasklets");
    c_by_kind[3] = vrt_counter("unnamed_tasklets");
    c_via[0] = vrt_counter("via_create");
    c_via[1] = vrt_counter("via_create_to");
    c_via[2] = vrt_counter("via_create_on_xstream");
    c_via[3] = vrt_counter("via_create_many");
    c_via[4] = vrt_counter("via_external_thread");
    c_exit[0] = vrt_counter("exit_by_return");
    c_exit[1] = vrt_counter("exit_by_self_exit");
    c_exit[2] = vrt_counter("exit_by_thread_exit");
    c_ev_waits = vrt_counter("eventual_waits");
    c_joins = vrt_counter("joins");
    c_stacked = vrt_counter("stacked_schedulers");
    c_user_sched = vrt_counter("programs_with_user_scheduler");
    c_user_pops = vrt_counter("units_run_by_user_scheduler");
    c_ext_creators = vrt_counter("external_creator_threads");
    c_after_xjoin = vrt_counter("units_checked_at_xstream_join");
    c_sched_replaced = vrt_counter("primary_scheduler_replaced");
    vrt_supervisor_start();
    vrt_rng r;
    vrt_rng_init(&r, vrt_seed, 61);
    if (!strcmp(mode, "forest")) {
        int progs = (int)vrt_arg_int("programs", 10);
        int cap = (int)vrt_arg_int("max-units", 400);
        int max_es = (int)vrt_arg_int("max-es", 5);
        for (int i = 0; i < progs && vrt_num_violations() == 0; i++)
            run_forest(&r, i, max_es, cap);
    } else if (!strcmp(mode, "stackrace")) {
        c_sr_scen = vrt_counter("stackrace_scenarios");
        c_sr_scheds = vrt_counter("stacked_schedulers_added");
        c_sr_units = vrt_counter("units_in_stacked_pools");
        c_sr_blockers = vrt_counter("stacked_units_that_block_and_yield_after_resume");
        {
            static const char *kn[] = { "basic", "prio", "randws", "default", "basic_wait" };
            for (int i = 0; i < 5; i++) {
                char nm[64];
                snprintf(nm, sizeof(nm), "stacked_scheduler_kind_%s", kn[i]);
                c_sr_kind[i] = vrt_counter(nm);
            }
        }
        c_sr_nonauto = vrt_counter("stacked_schedulers_freed_by_user");
        c_sr_auto = vrt_counter("stacked_schedulers_automatic");
        int n = (int)vrt_arg_int("scenarios", 20);
        for (int i = 0; i < n && vrt_num_violations() == 0; i++)
            run_stackrace(&r, i);
    } else if (!strcmp(mode, "join")) {
        c_jtrials = vrt_counter("join_trials");
        c_jmany = vrt_counter("join_many_trials");
        c_jmany_null = vrt_counter("join_many_null_entries");
        for (int i = 0; i < 5; i++) {
            char nm[64];
            snprintf(nm, sizeof(nm), "caller_%s", jc_name[i]);
            c_jcaller[i] = vrt_counter(nm);
        }
        for (int i = 0; i < 7; i++) {
            char nm[64];
            snprintf(nm, sizeof(nm), "target_%s", jb_name[i]);
            c_jbehav[i] = vrt_counter(nm);
        }
        for (int i = 0; i < 3; i++) {
            char nm[64];
            snprintf(nm, sizeof(nm), "join_issued_%s", jt_name[i]);
            c_jtiming[i] = vrt_counter(nm);
        }
        run_join(&r, (int)vrt_arg_int("trials", 400));
    } else if (!strcmp(mode, "block")) {
        c_bscen = vrt_counter("block_scenarios");
        c_bacc[0] = vrt_counter("block_victim_pool_mpmc");
        c_bacc[1] = vrt_counter("block_victim_pool_mpsc");
        c_bacc[2] = vrt_counter("block_victim_pool_spsc");
        c_bsteps[BS_EVENTUAL] = vrt_counter("blocked_on_eventual");
        c_bsteps[BS_COND] = vrt_counter("blocked_on_cond");
        c_bsteps[BS_SUSPEND] = vrt_counter("self_suspended");
        c_bsteps[BS_MUTEX] = vrt_counter("blocked_on_mutex");
        c_bsteps[BS_YIELD] = vrt_counter("yield_steps");
        c_bjoin_with_blocked = vrt_counter("xstream_join_issued_with_blocked_units");
        c_bfinalize = vrt_counter("finalize_issued_with_blocked_units");
        c_bsamples = vrt_counter("blocked_counter_samples");
        c_bexact = vrt_counter("blocked_counter_exact_checks");
        c_bstacked = vrt_counter("stacked_scheduler_variants");
        int n = (int)vrt_arg_int("scenarios", 40);
        for (int i = 0; i < n && vrt_num_violations() == 0; i++)
            run_block_scenario(&r, i, (int)vrt_arg_int("max-es", 4));
    } else if (!strcmp(mode, "joinmix")) {
        c_jmscen = vrt_counter("joinmix_scenarios");
        c_jm_multi = vrt_counter("joinmix_multi_pool_joins");
        c_jm_replace = vrt_counter("joinmix_joins_overlapping_sched_replacement");
        c_jm_replace2 = vrt_counter("joinmix_two_replacements_back_to_back");
        c_jm_replace_own = vrt_counter("joinmix_replacement_by_unit_in_non_first_pool");
        c_jm_revive = vrt_counter("joinmix_revive_idle_work_join_rounds");
        c_jm_units = vrt_counter("joinmix_units");
        int n = (int)vrt_arg_int("scenarios", 60);
        for (int i = 0; i < n && vrt_num_violations() == 0; i++)
            run_joinmix(&r, i);
    } else if (!strcmp(mode, "xcancel")) {
        c_xc_scen = vrt_counter("xcancel_scenarios");
        c_xc_victims = vrt_counter("unnamed_ults_cancelled_in_shared_pool");
        c_xc_cancel_in_pool = vrt_counter("cancel_requests_sent_while_unit_was_ready_in_pool");
        c_xc_children = vrt_counter("unnamed_ults_churned_through_local_memory_pools");
        c_xc_stack_checks = vrt_counter("live_stack_overlap_checks");
        c_xc_moved = vrt_counter("cancelled_units_that_had_changed_streams");
        int n = (int)vrt_arg_int("scenarios", 20);
        for (int i = 0; i < n && vrt_num_violations() == 0; i++)
            run_xcancel(&r, i);
    } else if (!strcmp(mode, "blockmig")) {
        c_mbscen = vrt_counter("blockmig_scenarios");
        for (int i = 0; i < MB_NKINDS; i++) {
            char nm[64];
            snprintf(nm, sizeof(nm), "blockmig_step_%s", mb_name[i]);
            c_mbsteps[i] = vrt_counter(nm);
        }
        c_mbreq_self = vrt_counter("migration_requests_pending_when_blocking");
        c_mbreq_other = vrt_counter("migration_requests_issued_while_blocked");
        c_mbmoved_while_blocking = vrt_counter("units_resumed_in_another_pool");
        c_mbexact = vrt_counter("blockmig_exact_counter_checks");
        c_mbsamples = vrt_counter("blockmig_counter_samples");
        int n = (int)vrt_arg_int("scenarios", 40);
        for (int i = 0; i < n && vrt_num_violations() == 0; i++)
            run_blockmig(&r, i);
    } else if (!strcmp(mode, "susp")) {
        c_suspends = vrt_counter("suspend_resume_round_trips");
        c_susp_scen = vrt_counter("susp_scenarios");
        c_resumed_by_ext = vrt_counter("resumed_by_external_thread");
        c_resumed_by_ult = vrt_counter("resumed_by_ult_on_other_stream");
        int n = (int)vrt_arg_int("scenarios", 20);
        for (int i = 0; i < n && vrt_num_violations() == 0; i++)
            run_susp(&r, i, (int)vrt_arg_int("max-es", 4), (int)vrt_arg_int("rounds", 300));
    } else if (!strcmp(mode, "direct")) {
        for (int i = 0; i < DO_NOPS; i++) {
            char nm[64];
            snprintf(nm, sizeof(nm), "op_%s", do_name[i]);
            c_dops[i] = vrt_counter(nm);
        }
        c_dchains = vrt_counter("directed_switches");
        c_dexpect = vrt_counter("expectations_checked");
        c_dscen = vrt_counter("direct_scenarios");
        c_dfresh_target = vrt_counter("targets_never_started");
        c_dstarted_target = vrt_counter("targets_already_started");
        int n = (int)vrt_arg_int("scenarios", 20);
        for (int i = 0; i < n && vrt_num_violations() == 0; i++)
            run_direct(&r, i, vrt_arg_int("ops", 3000));
    } else if (!strcmp(mode, "life")) {
        c_lepochs = vrt_counter("epochs");
        c_lcancel_pending_when_blocking = vrt_counter("cancel_pending_when_unit_blocks");
        for (int i = 0; i < LB_NBEHAV; i++) {
            char nm[64];
            snprintf(nm, sizeof(nm), "behaviour_%s", lb_name[i]);
            c_lbehav[i] = vrt_counter(nm);
        }
        for (int i = 0; i < 4; i++)
            c_lcancel[i] = vrt_counter(lc_name[i]);
        c_lrevives = vrt_counter("revives");
        c_lsamples = vrt_counter("state_samples");
        c_lscen = vrt_counter("life_scenarios");
        c_ltask_epochs = vrt_counter("tasklet_epochs");
        c_lcancel_never_started = vrt_counter("cancelled_units_never_started");
        c_lcancel_one_grace = vrt_counter("cancelled_units_used_one_slice_of_grace");
        int n = (int)vrt_arg_int("scenarios", 10);
        for (int i = 0; i < n && vrt_num_violations() == 0; i++)
            run_life(&r, i, (int)vrt_arg_int("max-cycles", 200));
    } else if (!strcmp(mode, "migrate")) {
        c_mscen = vrt_counter("migrate_scenarios");
        c_mreq_ok = vrt_counter("concurrent_requests_accepted");
        c_mreq_rejected = vrt_counter("concurrent_requests_rejected_same_pool");
        c_mseq_exact = vrt_counter("sequential_migrations_checked_exactly");
        c_mconc_req = vrt_counter("concurrent_requests");
        c_mself_req = vrt_counter("self_issued_requests");
        c_mcb = vrt_counter("callbacks");
        c_mrej_own_multi = vrt_counter("rejected_own_stream_with_multi_pool_scheduler");
        c_mattr_cb = vrt_counter("callback_from_attributes_of_unit_made_migratable_later");
        c_mgiveup[0] = vrt_counter("pending_request_then_self_yield");
        c_mgiveup[1] = vrt_counter("pending_request_then_thread_yield_to");
        c_mgiveup[2] = vrt_counter("pending_request_then_self_yield_to");
        c_mgiveup[3] = vrt_counter("pending_request_then_thread_yield");
        c_mrej_same_pool = vrt_counter("rejected_current_pool");
        c_mrej_nonmigratable = vrt_counter("rejected_non_migratable");
        c_mrej_mainsched = vrt_counter("rejected_main_scheduler_ult");
        c_mmigrate_any_ok = vrt_counter("thread_migrate_moved_to_other_stream");
        c_mmigrate_any_na = vrt_counter("thread_migrate_no_target_rejected");
        c_mto_xstream = vrt_counter("migrate_to_xstream");
        c_mto_sched = vrt_counter("migrate_to_sched");
        c_mslices = vrt_counter("slices_observed");
        c_mfirst_race = vrt_counter("first_request_races");
        int n = (int)vrt_arg_int("scenarios", 10);
        for (int i = 0; i < n && vrt_num_violations() == 0; i++)
            run_migrate(&r, i);
    } else {
        vrt_fatal("unknown mode %s", mode);
    }
    return vrt_finish(mode);
}
