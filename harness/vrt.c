#define _GNU_SOURCE
#include "vrt.h"
#include <sched.h>
#include <signal.h>
#include <time.h>
#include <unistd.h>
#include <errno.h>
#include <execinfo.h>
#include <sys/syscall.h>
#include <sys/prctl.h>

#ifdef PMODELS_ARGOBOTS_VERIF
/* from the library (src/include/abti_verif.h); redeclared to avoid pulling
 * abti.h into every harness */
typedef struct {
    uint64_t n;
    char pad[56];
} vrt_cov_counter;
extern vrt_cov_counter ABTI_verif_cov[128];
extern void (*volatile ABTI_verif_point_f)(int id);
#endif

uint64_t vrt_seed = 1;
int vrt_san_scale = 1;
static const char *g_harness = "?";
static int g_argc;
static char **g_argv;
static double g_t0;
static double g_watchdog_s = 120.0;
static int g_finished = 0;

/* ------------------------------------------------------------------ */
double vrt_wall(void)
{
    struct timespec ts;
    syscall(SYS_clock_gettime, CLOCK_MONOTONIC, &ts);
    return ts.tv_sec + ts.tv_nsec * 1e-9;
}

static uint64_t g_ticket;
uint64_t vrt_ticket(void)
{
    return __atomic_add_fetch(&g_ticket, 1, __ATOMIC_SEQ_CST);
}

void vrt_sleep_us(unsigned us)
{
    struct timespec ts = { us / 1000000, (long)(us % 1000000) * 1000 };
    syscall(SYS_nanosleep, &ts, NULL);
}

int vrt_ncpus(void)
{
    long n = sysconf(_SC_NPROCESSORS_ONLN);
    return n > 0 ? (int)n : 1;
}

void vrt_squeeze(int ncpus)
{
    if (ncpus <= 0)
        return;
    cpu_set_t cur, set;
    CPU_ZERO(&set);
    if (sched_getaffinity(0, sizeof(cur), &cur) != 0)
        return;
    int total = vrt_ncpus();
    int start = (int)(vrt_hash64(vrt_seed ^ 0x51ee2e) % (uint64_t)total);
    int got = 0;
    for (int i = 0; i < total && got < ncpus; i++) {
        int c = (start + i) % total;
        if (CPU_ISSET(c, &cur)) {
            CPU_SET(c, &set);
            got++;
        }
    }
    if (got)
        sched_setaffinity(0, sizeof(set), &set);
}

/* ------------------------------------------------------------------ */
const char *vrt_arg(const char *name, const char *def)
{
    size_t l = strlen(name);
    for (int i = 1; i < g_argc; i++) {
        if (!strncmp(g_argv[i], "--", 2) && !strncmp(g_argv[i] + 2, name, l)) {
            if (g_argv[i][2 + l] == '=')
                return g_argv[i] + 3 + l;
            if (g_argv[i][2 + l] == 0 && i + 1 < g_argc)
                return g_argv[i + 1];
        }
    }
    return def;
}
long vrt_arg_int(const char *name, long def)
{
    const char *v = vrt_arg(name, NULL);
    return v ? strtol(v, NULL, 0) : def;
}
int vrt_arg_has(const char *name)
{
    size_t l = strlen(name);
    for (int i = 1; i < g_argc; i++)
        if (!strncmp(g_argv[i], "--", 2) && !strncmp(g_argv[i] + 2, name, l) &&
            (g_argv[i][2 + l] == 0 || g_argv[i][2 + l] == '='))
            return 1;
    return 0;
}

/* ------------------------------------------------------------------ */
#define MAX_VIOL 16
static pthread_mutex_t g_out_lock = PTHREAD_MUTEX_INITIALIZER;
static struct {
    char key[128];
    char msg[768];
} g_viol[MAX_VIOL];
static int g_nviol_stored;
static int g_nviol;
static char g_inconclusive[256];

static void json_str(FILE *f, const char *s)
{
    fputc('"', f);
    for (; *s; s++) {
        unsigned char c = (unsigned char)*s;
        if (c == '"' || c == '\\') {
            fputc('\\', f);
            fputc(c, f);
        } else if (c == '\n') {
            fputs("\\n", f);
        } else if (c < 0x20) {
            fprintf(f, "\\u%04x", c);
        } else {
            fputc(c, f);
        }
    }
    fputc('"', f);
}

void vrt_violation(const char *key, const char *fmt, ...)
{
    va_list ap;
    pthread_mutex_lock(&g_out_lock);
    __atomic_fetch_add(&g_nviol, 1, __ATOMIC_RELAXED);
    int dup = 0;
    for (int i = 0; i < g_nviol_stored; i++)
        if (!strcmp(g_viol[i].key, key))
            dup++;
    if (g_nviol_stored < MAX_VIOL && dup < 3) {
        snprintf(g_viol[g_nviol_stored].key, sizeof(g_viol[0].key), "%s", key);
        va_start(ap, fmt);
        vsnprintf(g_viol[g_nviol_stored].msg, sizeof(g_viol[0].msg), fmt, ap);
        va_end(ap);
        g_nviol_stored++;
    }
    pthread_mutex_unlock(&g_out_lock);
}
/* A violation that must not stop the workload (candidates for the
 * known-findings list): recorded like any other violation, but not counted by
 * vrt_num_violations(), which the harness loops use as their stop flag. */
static int g_nfindings;
void vrt_finding(const char *key, const char *fmt, ...)
{
    va_list ap;
    pthread_mutex_lock(&g_out_lock);
    __atomic_fetch_add(&g_nfindings, 1, __ATOMIC_RELAXED);
    int dup = 0;
    for (int i = 0; i < g_nviol_stored; i++)
        if (!strcmp(g_viol[i].key, key))
            dup++;
    if (g_nviol_stored < MAX_VIOL && dup < 1) {
        snprintf(g_viol[g_nviol_stored].key, sizeof(g_viol[0].key), "%s", key);
        va_start(ap, fmt);
        vsnprintf(g_viol[g_nviol_stored].msg, sizeof(g_viol[0].msg), fmt, ap);
        va_end(ap);
        g_nviol_stored++;
    }
    pthread_mutex_unlock(&g_out_lock);
}
int vrt_num_violations(void)
{
    return __atomic_load_n(&g_nviol, __ATOMIC_RELAXED);
}

void vrt_fatal(const char *fmt, ...)
{
    va_list ap;
    fprintf(stderr, "VRT-FATAL[%s]: ", g_harness);
    va_start(ap, fmt);
    vfprintf(stderr, fmt, ap);
    va_end(ap);
    fputc('\n', stderr);
    fflush(stderr);
    _exit(2);
}

void vrt_inconclusive(const char *why)
{
    pthread_mutex_lock(&g_out_lock);
    if (!g_inconclusive[0])
        snprintf(g_inconclusive, sizeof(g_inconclusive), "%s", why);
    pthread_mutex_unlock(&g_out_lock);
}

/* ------------------------------------------------------------------ */
static struct {
    const char *name;
    uint64_t v;
    char pad[48];
} g_counters[VRT_MAX_COUNTERS];
static int g_ncounters;

int vrt_counter(const char *name)
{
    pthread_mutex_lock(&g_out_lock);
    for (int i = 0; i < g_ncounters; i++)
        if (!strcmp(g_counters[i].name, name)) {
            pthread_mutex_unlock(&g_out_lock);
            return i;
        }
    if (g_ncounters >= VRT_MAX_COUNTERS) {
        pthread_mutex_unlock(&g_out_lock);
        vrt_fatal("too many counters");
    }
    int id = g_ncounters;
    g_counters[id].name = strdup(name);
    __atomic_store_n(&g_ncounters, id + 1, __ATOMIC_RELEASE);
    pthread_mutex_unlock(&g_out_lock);
    return id;
}
void vrt_count(int id, uint64_t n)
{
    __atomic_fetch_add(&g_counters[id].v, n, __ATOMIC_RELAXED);
}
uint64_t vrt_counter_get(int id)
{
    return __atomic_load_n(&g_counters[id].v, __ATOMIC_RELAXED);
}

static char g_signature[8192];
void vrt_signature_add(const char *fmt, ...)
{
    va_list ap;
    pthread_mutex_lock(&g_out_lock);
    size_t l = strlen(g_signature);
    if (l < sizeof(g_signature) - 2) {
        if (l)
            g_signature[l++] = ';';
        va_start(ap, fmt);
        vsnprintf(g_signature + l, sizeof(g_signature) - l, fmt, ap);
        va_end(ap);
    }
    pthread_mutex_unlock(&g_out_lock);
}

#define MAX_SAMPLES 4
static char g_samples[MAX_SAMPLES][1024];
static int g_nsamples;
void vrt_sample(const char *fmt, ...)
{
    va_list ap;
    pthread_mutex_lock(&g_out_lock);
    if (g_nsamples < MAX_SAMPLES) {
        va_start(ap, fmt);
        vsnprintf(g_samples[g_nsamples], sizeof(g_samples[0]), fmt, ap);
        va_end(ap);
        g_nsamples++;
    }
    pthread_mutex_unlock(&g_out_lock);
}

#define MAX_NOTES 16
static struct {
    char key[64];
    char msg[512];
} g_notes[MAX_NOTES];
static int g_nnotes;
void vrt_note(const char *key, const char *fmt, ...)
{
    va_list ap;
    pthread_mutex_lock(&g_out_lock);
    int found = 0;
    for (int i = 0; i < g_nnotes; i++)
        if (!strcmp(g_notes[i].key, key))
            found = 1;
    if (!found && g_nnotes < MAX_NOTES) {
        snprintf(g_notes[g_nnotes].key, sizeof(g_notes[0].key), "%s", key);
        va_start(ap, fmt);
        vsnprintf(g_notes[g_nnotes].msg, sizeof(g_notes[0].msg), fmt, ap);
        va_end(ap);
        g_nnotes++;
    }
    pthread_mutex_unlock(&g_out_lock);
}

/* ------------------------------------------------------------------ */
/* delay injection */
static uint16_t g_delay_prob[128]; /* out of 65536 */
static char g_delay_name[128] = "off";
static __thread vrt_rng t_delay_rng;
static __thread int t_delay_rng_init;
static uint64_t g_delay_thread_ctr;
static uint64_t g_delays_injected;

void (*vrt_point_observer)(int id);
static void delay_point(int id)
{
    if (vrt_point_observer)
        vrt_point_observer(id);
    unsigned p = g_delay_prob[id & 127];
    if (!p)
        return;
    if (!t_delay_rng_init) {
        vrt_rng_init(&t_delay_rng, vrt_seed,
                     0x1000 + __atomic_fetch_add(&g_delay_thread_ctr, 1,
                                                 __ATOMIC_RELAXED));
        t_delay_rng_init = 1;
    }
    uint64_t r = vrt_next(&t_delay_rng);
    if ((r & 0xffff) >= p)
        return;
    __atomic_fetch_add(&g_delays_injected, 1, __ATOMIC_RELAXED);
    unsigned kind = (r >> 16) & 7;
    if (kind < 3) {
        sched_yield();
    } else if (kind < 6) {
        unsigned n = 50 + ((r >> 20) & 0x7ff);
        for (volatile unsigned i = 0; i < n; i++)
            ;
    } else {
        vrt_sleep_us(20 + ((r >> 32) % 180));
    }
}

const char *vrt_delay_profile_name(void)
{
    return g_delay_name;
}

void vrt_delay_profile(const char *profile)
{
#ifdef PMODELS_ARGOBOTS_VERIF
    memset(g_delay_prob, 0, sizeof(g_delay_prob));
    snprintf(g_delay_name, sizeof(g_delay_name), "%s", profile);
    if (!strcmp(profile, "off")) {
        ABTI_verif_point_f = NULL;
        return;
    }
    if (!strcmp(profile, "uniform")) {
        for (int i = 0; i < 128; i++)
            g_delay_prob[i] = 650; /* ~1% */
    } else if (!strcmp(profile, "heavy")) {
        for (int i = 0; i < 128; i++)
            g_delay_prob[i] = 6500; /* ~10% */
    } else if (!strncmp(profile, "hammer:", 7)) {
        for (int i = 0; i < 128; i++)
            g_delay_prob[i] = 130; /* 0.2% background */
        const char *p = profile + 7;
        while (*p) {
            int id = (int)strtol(p, (char **)&p, 10);
            if (id > 0 && id < 128)
                g_delay_prob[id] = 13000; /* ~20% */
            if (*p == ',')
                p++;
            else
                break;
        }
    } else {
        vrt_fatal("unknown delay profile %s", profile);
    }
    ABTI_verif_point_f = delay_point;
#else
    (void)profile;
#endif
}

/* ------------------------------------------------------------------ */
/* actors / supervisor */
static struct {
    int state;
    const char *kind;
    const char *what;
    char pad[40];
} g_actors[VRT_MAX_ACTORS];
static int g_nactors;
static uint64_t g_progress;
static ABT_pool *g_watch_pools;
static int g_nwatch_pools;
static int (*g_legit_cb)(void);
static pthread_t g_sup_thread;
static int g_sup_run;
static int g_sup_started;

static double g_call_deadline; /* 0 = none; accessed atomically as bits */
static const char *g_call_what = "";
void vrt_call_begin(const char *what)
{
    g_call_what = what;
    double d = vrt_wall() + 30.0 * vrt_san_scale;
    uint64_t bits;
    memcpy(&bits, &d, 8);
    __atomic_store_n((uint64_t *)&g_call_deadline, bits, __ATOMIC_RELEASE);
}
void vrt_call_end(void)
{
    __atomic_store_n((uint64_t *)&g_call_deadline, 0, __ATOMIC_RELEASE);
    vrt_progress();
}

void vrt_progress(void)
{
    __atomic_fetch_add(&g_progress, 1, __ATOMIC_RELAXED);
}
int vrt_actor_new(const char *kind)
{
    int id = __atomic_fetch_add(&g_nactors, 1, __ATOMIC_RELAXED);
    if (id >= VRT_MAX_ACTORS)
        vrt_fatal("too many actors");
    g_actors[id].kind = kind;
    g_actors[id].what = "";
    __atomic_store_n(&g_actors[id].state, VRT_A_RUNNING, __ATOMIC_RELEASE);
    return id;
}
void vrt_actor_set(int id, int state, const char *what)
{
    g_actors[id].what = what;
    __atomic_store_n(&g_actors[id].state, state, __ATOMIC_RELEASE);
    vrt_progress();
}
void vrt_actor_reset_all(void)
{
    for (int i = 0; i < VRT_MAX_ACTORS; i++)
        __atomic_store_n(&g_actors[i].state, VRT_A_UNUSED, __ATOMIC_RELAXED);
    __atomic_store_n(&g_nactors, 0, __ATOMIC_RELEASE);
}
void vrt_watch_pools(ABT_pool *pools, int n)
{
    g_nwatch_pools = 0;
    g_watch_pools = pools;
    __atomic_store_n(&g_nwatch_pools, n, __ATOMIC_RELEASE);
}
void vrt_set_legit_block_cb(int (*cb)(void))
{
    g_legit_cb = cb;
}

void vrt_dump_actors(FILE *f)
{
    int n = __atomic_load_n(&g_nactors, __ATOMIC_ACQUIRE);
    int shown = 0;
    for (int i = 0; i < n && shown < 40; i++) {
        int st = __atomic_load_n(&g_actors[i].state, __ATOMIC_ACQUIRE);
        if (st == VRT_A_DONE || st == VRT_A_UNUSED)
            continue;
        fprintf(f, "[a%d %s %s %s] ", i, g_actors[i].kind,
                st == VRT_A_BLOCKED ? "BLOCKED" : "RUNNING", g_actors[i].what);
        shown++;
    }
}

/* returns 1 if the system looks logically dead: nobody running, someone
 * blocked, all watched pools empty */
static int looks_dead(char *desc, size_t dl)
{
    int n = __atomic_load_n(&g_nactors, __ATOMIC_ACQUIRE);
    int blocked = 0;
    for (int i = 0; i < n; i++) {
        int st = __atomic_load_n(&g_actors[i].state, __ATOMIC_ACQUIRE);
        if (st == VRT_A_RUNNING)
            return 0;
        if (st == VRT_A_BLOCKED)
            blocked++;
    }
    if (!blocked)
        return 0;
    int np = __atomic_load_n(&g_nwatch_pools, __ATOMIC_ACQUIRE);
    for (int i = 0; i < np; i++) {
        size_t sz = 0;
        if (ABT_pool_get_size(g_watch_pools[i], &sz) == ABT_SUCCESS && sz != 0)
            return 0;
    }
    if (g_legit_cb && g_legit_cb())
        return 0;
    snprintf(desc, dl, "%d actors blocked, none running, %d watched pools empty",
             blocked, np);
    return 1;
}

static void emit_result(const char *scenario, const char *verdict);

static void *supervisor(void *arg)
{
    (void)arg;
    prctl(PR_SET_NAME, "vrt-supervisor");
    uint64_t last = ~0ULL;
    int same = 0;
    double gap = 1.0 * vrt_san_scale;
    double last_sample = vrt_wall();
    uint64_t wd_last_progress = 0;
    double wd_last_change = vrt_wall();
    while (__atomic_load_n(&g_sup_run, __ATOMIC_ACQUIRE)) {
        vrt_sleep_us(100000);
        double now = vrt_wall();
        {
            uint64_t pnow = __atomic_load_n(&g_progress, __ATOMIC_RELAXED);
            if (pnow != wd_last_progress) {
                wd_last_progress = pnow;
                wd_last_change = now;
            }
        }
        {
            uint64_t bits = __atomic_load_n((uint64_t *)&g_call_deadline, __ATOMIC_ACQUIRE);
            double dl;
            memcpy(&dl, &bits, 8);
            if (bits && now > dl) {
                /* wall clock: inconclusive, the driver re-runs once and reports a
                 * hang only if it is reproduced */
                pthread_mutex_lock(&g_out_lock);
                snprintf(g_inconclusive, sizeof(g_inconclusive), "stalled: %s did not return within %.0fs although nothing it "
                         "could wait for exists", g_call_what, 30.0 * vrt_san_scale);
                pthread_mutex_unlock(&g_out_lock);
                fprintf(stderr, "VRT-CALL-DEADLINE[%s]: %s\n", g_harness, g_inconclusive);
                vrt_dump_actors(stderr);
                emit_result("call-hang", "inconclusive");
                _exit(3);
            }
        }
        if (now - g_t0 > g_watchdog_s && !__atomic_load_n(&g_finished, __ATOMIC_ACQUIRE)) {
            /* wall-clock watchdog: inconclusive, never a violation.  "slow" =
             * the workload was still making progress (a sizing problem of the
             * harness), "stalled" = no actor changed state for a while. */
            char buf[256];
            double idle = now - wd_last_change;
            snprintf(buf, sizeof(buf), "watchdog %.0fs expired: %s (no progress for %.1fs)",
                     g_watchdog_s, idle > 10.0 * vrt_san_scale ? "stalled" : "slow",
                     idle);
            vrt_inconclusive(buf);
            fprintf(stderr, "VRT-WATCHDOG[%s]: ", g_harness);
            vrt_dump_actors(stderr);
            fputc('\n', stderr);
            emit_result("watchdog", "inconclusive");
            _exit(3);
        }
        if (now - last_sample < gap)
            continue;
        last_sample = now;
        uint64_t p = __atomic_load_n(&g_progress, __ATOMIC_RELAXED);
        char desc[200];
        if (p == last && looks_dead(desc, sizeof(desc))) {
            same++;
            if (same >= 3) {
                /* re-check progress once more after the structural test */
                if (__atomic_load_n(&g_progress, __ATOMIC_RELAXED) == p) {
                    char dump[1500];
                    FILE *m = fmemopen(dump, sizeof(dump), "w");
                    vrt_dump_actors(m);
                    fclose(m);
                    vrt_violation("hang:logical-deadlock", "%s: %s", desc, dump);
                    emit_result("deadlock", "violated");
                    _exit(1);
                }
                same = 0;
            }
        } else {
            same = 0;
        }
        last = p;
    }
    return NULL;
}

void vrt_supervisor_start(void)
{
    if (g_sup_started)
        return;
    __atomic_store_n(&g_sup_run, 1, __ATOMIC_RELEASE);
    g_sup_started = 1;
    pthread_attr_t a;
    pthread_attr_init(&a);
    pthread_create(&g_sup_thread, &a, supervisor, NULL);
    pthread_attr_destroy(&a);
}
void vrt_supervisor_stop(void)
{
    if (!g_sup_started)
        return;
    __atomic_store_n(&g_sup_run, 0, __ATOMIC_RELEASE);
    pthread_join(g_sup_thread, NULL);
    g_sup_started = 0;
}

/* ------------------------------------------------------------------ */
static char g_crash_label[200];
void vrt_crash_label(const char *label)
{
    /* not async-signal-safe to update, but only read by the crash handler */
    snprintf(g_crash_label, sizeof(g_crash_label), "%s", label);
}

static void crash_handler(int sig)
{
    static const char m0[] = "VRT-CRASH-LABEL ";
    ssize_t w;
    if (g_crash_label[0]) {
        w = write(2, m0, sizeof(m0) - 1);
        w = write(2, g_crash_label, strlen(g_crash_label));
        w = write(2, "\n", 1);
    }
    static const char m1[] = "VRT-CRASH signal ";
    w = write(2, m1, sizeof(m1) - 1);
    char num[8];
    int n = 0;
    int s = sig;
    char tmp[8];
    do {
        tmp[n++] = (char)('0' + s % 10);
        s /= 10;
    } while (s);
    for (int i = 0; i < n; i++)
        num[i] = tmp[n - 1 - i];
    num[n] = '\n';
    w = write(2, num, (size_t)n + 1);
    (void)w;
    void *bt[32];
    int d = backtrace(bt, 32);
    backtrace_symbols_fd(bt, d, 2);
    signal(sig, SIG_DFL);
    raise(sig);
}

#ifdef PMODELS_ARGOBOTS_VERIF
/* monitors inside the library (abtd_verif_fiber.h) report through this */
extern void (*volatile ABTI_verif_fail_f)(const char *what);
static void lib_monitor_fail(const char *what)
{
    vrt_violation("ctx:occupancy", "library monitor: %s", what);
    emit_result("lib-monitor", "violated");
    _exit(1);
}
#endif

void vrt_init(int argc, char **argv, const char *harness)
{
#ifdef PMODELS_ARGOBOTS_VERIF
    ABTI_verif_fail_f = lib_monitor_fail;
#endif
    g_argc = argc;
    g_argv = argv;
    g_harness = harness;
    g_t0 = vrt_wall();
    setvbuf(stdout, NULL, _IOLBF, 0);
    const char *es = getenv("VERIF_SEED");
    vrt_seed = es ? strtoull(es, NULL, 0) : 1;
    if (vrt_arg("seed", NULL))
        vrt_seed = strtoull(vrt_arg("seed", "1"), NULL, 0);
#if defined(VERIF_VARIANT_ASAN)
    vrt_san_scale = 3;
#elif defined(VERIF_VARIANT_TSAN)
    vrt_san_scale = 5;
#endif
    g_watchdog_s = (double)vrt_arg_int("watchdog", 120) * vrt_san_scale;
#if !defined(VERIF_VARIANT_ASAN) && !defined(VERIF_VARIANT_TSAN)
    {
        /* warm up backtrace() (it may malloc on first use) */
        void *bt[4];
        backtrace(bt, 4);
        static char altstack[1 << 16];
        stack_t ss = { altstack, 0, sizeof(altstack) };
        sigaltstack(&ss, NULL);
        struct sigaction sa;
        memset(&sa, 0, sizeof(sa));
        sa.sa_handler = crash_handler;
        sa.sa_flags = SA_ONSTACK | SA_NODEFER;
        sigaction(SIGSEGV, &sa, NULL);
        sigaction(SIGBUS, &sa, NULL);
        sigaction(SIGABRT, &sa, NULL);
        sigaction(SIGFPE, &sa, NULL);
        sigaction(SIGILL, &sa, NULL);
    }
#endif
    int sq = (int)vrt_arg_int("squeeze", 0);
    if (sq > 0)
        vrt_squeeze(sq);
    vrt_delay_profile(vrt_arg("delay", "off"));
}

static void emit_result(const char *scenario, const char *verdict)
{
    static int emitted;
    pthread_mutex_lock(&g_out_lock);
    if (emitted) {
        pthread_mutex_unlock(&g_out_lock);
        return;
    }
    emitted = 1;
    FILE *f = stdout;
    fprintf(f, "VRT-RESULT {\"harness\":");
    json_str(f, g_harness);
    fprintf(f, ",\"scenario\":");
    json_str(f, scenario);
    fprintf(f, ",\"seed\":%llu,\"verdict\":\"%s\",\"delay\":",
            (unsigned long long)vrt_seed, verdict);
    json_str(f, g_delay_name);
    fprintf(f, ",\"nviol\":%d,\"violations\":[",
            __atomic_load_n(&g_nviol, __ATOMIC_RELAXED) + __atomic_load_n(&g_nfindings, __ATOMIC_RELAXED));
    for (int i = 0; i < g_nviol_stored; i++) {
        fprintf(f, "%s{\"key\":", i ? "," : "");
        json_str(f, g_viol[i].key);
        fprintf(f, ",\"msg\":");
        json_str(f, g_viol[i].msg);
        fputc('}', f);
    }
    fprintf(f, "],\"inconclusive\":");
    json_str(f, g_inconclusive);
    fprintf(f, ",\"counters\":{");
    int nc = __atomic_load_n(&g_ncounters, __ATOMIC_ACQUIRE);
    for (int i = 0; i < nc; i++) {
        fprintf(f, "%s", i ? "," : "");
        json_str(f, g_counters[i].name);
        fprintf(f, ":%llu", (unsigned long long)__atomic_load_n(&g_counters[i].v, __ATOMIC_RELAXED));
    }
    fprintf(f, "},\"cov\":{");
#ifdef PMODELS_ARGOBOTS_VERIF
    int first = 1;
    for (int i = 0; i < 128; i++) {
        uint64_t v = __atomic_load_n(&ABTI_verif_cov[i].n, __ATOMIC_RELAXED);
        if (v) {
            fprintf(f, "%s\"%d\":%llu", first ? "" : ",", i,
                    (unsigned long long)v);
            first = 0;
        }
    }
#endif
    fprintf(f, "},\"delays\":%llu,\"signature\":",
            (unsigned long long)__atomic_load_n(&g_delays_injected,
                                                __ATOMIC_RELAXED));
    json_str(f, g_signature);
    fprintf(f, ",\"samples\":[");
    for (int i = 0; i < g_nsamples; i++) {
        fprintf(f, "%s", i ? "," : "");
        json_str(f, g_samples[i]);
    }
    fprintf(f, "],\"notes\":{");
    for (int i = 0; i < g_nnotes; i++) {
        fprintf(f, "%s", i ? "," : "");
        json_str(f, g_notes[i].key);
        fputc(':', f);
        json_str(f, g_notes[i].msg);
    }
    fprintf(f, "},\"wall_s\":%.3f}\n", vrt_wall() - g_t0);
    fflush(f);
    pthread_mutex_unlock(&g_out_lock);
}

int vrt_finish(const char *scenario)
{
    __atomic_store_n(&g_finished, 1, __ATOMIC_RELEASE);
    vrt_supervisor_stop();
    const char *verdict = "held";
    int rc = 0;
    if (__atomic_load_n(&g_nviol, __ATOMIC_RELAXED) > 0 || __atomic_load_n(&g_nfindings, __ATOMIC_RELAXED) > 0) {
        verdict = "violated";
        rc = 1;
    } else if (g_inconclusive[0]) {
        verdict = "inconclusive";
        rc = 3;
    }
    emit_result(scenario, verdict);
    return rc;
}
