#define _GNU_SOURCE
#include "allocwrap.h"
#include <errno.h>
#include <pthread.h>
#include <stdlib.h>
#include <sys/mman.h>

void *__real_malloc(size_t);
void *__real_calloc(size_t, size_t);
void *__real_realloc(void *, size_t);
int __real_posix_memalign(void **, size_t, size_t);
void __real_free(void *);
void *__real_mmap(void *, size_t, int, int, int, off_t);
int __real_munmap(void *, size_t);
int __real_pthread_create(pthread_t *, const pthread_attr_t *, void *(*)(void *), void *);
int __real_pthread_mutex_init(pthread_mutex_t *, const pthread_mutexattr_t *);
int __real_pthread_cond_init(pthread_cond_t *, const pthread_condattr_t *);
int __real_pthread_barrier_init(pthread_barrier_t *, const pthread_barrierattr_t *, unsigned);

static int64_t g_live_heap, g_live_mmap;
static uint64_t g_heap_calls, g_mmap_calls, g_bytes_mmap;
static int g_any_armed;
static uint64_t g_foreign;

static __thread int t_armed;
static __thread int t_k;       /* countdown; 0 = count only */
static __thread int t_calls;
static __thread int t_fired;
static __thread const char *t_which;

void aw_ledger(aw_ledger_t *o)
{
    o->live_heap = __atomic_load_n(&g_live_heap, __ATOMIC_SEQ_CST);
    o->live_mmap = __atomic_load_n(&g_live_mmap, __ATOMIC_SEQ_CST);
    o->heap_calls = __atomic_load_n(&g_heap_calls, __ATOMIC_SEQ_CST);
    o->mmap_calls = __atomic_load_n(&g_mmap_calls, __ATOMIC_SEQ_CST);
    o->bytes_mmap_live = __atomic_load_n(&g_bytes_mmap, __ATOMIC_SEQ_CST);
}

void aw_arm(int k)
{
    t_k = k;
    t_calls = 0;
    t_fired = 0;
    t_which = "";
    t_armed = 1;
    __atomic_fetch_add(&g_any_armed, 1, __ATOMIC_SEQ_CST);
}
int aw_disarm(int *fired, const char **which)
{
    t_armed = 0;
    __atomic_fetch_sub(&g_any_armed, 1, __ATOMIC_SEQ_CST);
    if (fired)
        *fired = t_fired;
    if (which)
        *which = t_which;
    return t_calls;
}
uint64_t aw_foreign_calls_while_armed(void)
{
    return __atomic_load_n(&g_foreign, __ATOMIC_SEQ_CST);
}

/* returns 1 if this call must fail */
static int fault(const char *name)
{
    if (!t_armed) {
        if (__atomic_load_n(&g_any_armed, __ATOMIC_RELAXED))
            __atomic_fetch_add(&g_foreign, 1, __ATOMIC_RELAXED);
        return 0;
    }
    t_calls++;
    if (t_k > 0 && t_calls == t_k && !t_fired) {
        t_fired = 1;
        t_which = name;
        return 1;
    }
    return 0;
}

void *__wrap_malloc(size_t n)
{
    __atomic_fetch_add(&g_heap_calls, 1, __ATOMIC_RELAXED);
    if (fault("malloc")) {
        errno = ENOMEM;
        return NULL;
    }
    void *p = __real_malloc(n);
    if (p)
        __atomic_fetch_add(&g_live_heap, 1, __ATOMIC_RELAXED);
    return p;
}
void *__wrap_calloc(size_t a, size_t b)
{
    __atomic_fetch_add(&g_heap_calls, 1, __ATOMIC_RELAXED);
    if (fault("calloc")) {
        errno = ENOMEM;
        return NULL;
    }
    void *p = __real_calloc(a, b);
    if (p)
        __atomic_fetch_add(&g_live_heap, 1, __ATOMIC_RELAXED);
    return p;
}
void *__wrap_realloc(void *old, size_t n)
{
    __atomic_fetch_add(&g_heap_calls, 1, __ATOMIC_RELAXED);
    if (fault("realloc")) {
        errno = ENOMEM;
        return NULL;
    }
    void *p = __real_realloc(old, n);
    if (p && !old)
        __atomic_fetch_add(&g_live_heap, 1, __ATOMIC_RELAXED);
    else if (!p && old && n == 0)
        __atomic_fetch_sub(&g_live_heap, 1, __ATOMIC_RELAXED);
    return p;
}
int __wrap_posix_memalign(void **pp, size_t al, size_t n)
{
    __atomic_fetch_add(&g_heap_calls, 1, __ATOMIC_RELAXED);
    if (fault("posix_memalign"))
        return ENOMEM;
    int rc = __real_posix_memalign(pp, al, n);
    if (rc == 0)
        __atomic_fetch_add(&g_live_heap, 1, __ATOMIC_RELAXED);
    return rc;
}
void __wrap_free(void *p)
{
    if (p)
        __atomic_fetch_sub(&g_live_heap, 1, __ATOMIC_RELAXED);
    __real_free(p);
}
void *__wrap_mmap(void *a, size_t n, int prot, int flags, int fd, off_t off)
{
    __atomic_fetch_add(&g_mmap_calls, 1, __ATOMIC_RELAXED);
    if (fault("mmap")) {
        errno = ENOMEM;
        return MAP_FAILED;
    }
    void *p = __real_mmap(a, n, prot, flags, fd, off);
    if (p != MAP_FAILED) {
        __atomic_fetch_add(&g_live_mmap, 1, __ATOMIC_RELAXED);
        __atomic_fetch_add(&g_bytes_mmap, n, __ATOMIC_RELAXED);
    }
    return p;
}
int __wrap_munmap(void *a, size_t n)
{
    int rc = __real_munmap(a, n);
    if (rc == 0) {
        __atomic_fetch_sub(&g_live_mmap, 1, __ATOMIC_RELAXED);
        __atomic_fetch_sub(&g_bytes_mmap, n, __ATOMIC_RELAXED);
    }
    return rc;
}
int __wrap_pthread_create(pthread_t *t, const pthread_attr_t *a, void *(*f)(void *), void *arg)
{
    if (fault("pthread_create"))
        return EAGAIN;
    return __real_pthread_create(t, a, f, arg);
}
int __wrap_pthread_mutex_init(pthread_mutex_t *m, const pthread_mutexattr_t *a)
{
    if (fault("pthread_mutex_init"))
        return ENOMEM;
    return __real_pthread_mutex_init(m, a);
}
int __wrap_pthread_cond_init(pthread_cond_t *c, const pthread_condattr_t *a)
{
    if (fault("pthread_cond_init"))
        return ENOMEM;
    return __real_pthread_cond_init(c, a);
}
int __wrap_pthread_barrier_init(pthread_barrier_t *b, const pthread_barrierattr_t *a, unsigned n)
{
    if (fault("pthread_barrier_init"))
        return ENOMEM;
    return __real_pthread_barrier_init(b, a, n);
}
