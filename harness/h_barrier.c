/* C08: barriers release nobody early and everybody once the last arrives.
 *
 * Oracle: per round r an atomic arrivals[r] is incremented immediately before
 * the call; when a caller returns from round r, arrivals[r] must equal
 * num_waiters; at the end every round has exactly num_waiters leaves.  Fast
 * callers re-enter round r+1 while slow ones are still leaving round r (no
 * work between rounds).  Progress: logical-deadlock rule (all callers inside
 * barrier_wait, pools empty). */
#include "actors.h"
#include <sched.h>

#define MAXA 40
#define MAXR 20000

typedef struct {
    ABT_barrier b;
    ABT_xstream_barrier xb;
    int use_xb;
    int n;      /* num_waiters */
    int rounds;
    uint32_t *arrivals;
    uint32_t *leaves;
    ABT_barrier tb; /* barrier with one waiter used by tasklet callers */
    int final_reinit, reinit_actor, reinit_done, extra_arrivals, reinit_claim;
} bctx_t;

static int c_reinit_overlap;
static int c_task_err_shared, c_xb_ext, c_xb_single_es;
static int c_rounds, c_cases, c_waits, c_task_err, c_task_ok, c_reinit, c_xb_rounds,
    c_laps;

static void barrier_body(actor_t *a)
{
    bctx_t *c = (bctx_t *)a->ctx;
    if (a->kind == ACT_TASK) {
        /* 1.x API: error; 2.0: sole waiter, returns at once. Both accepted. */
        int rejected = 0;
        for (int i = 0; i < 3; i++) {
            int rc = ABT_barrier_wait(c->tb);
            if (rc == ABT_SUCCESS)
                vrt_count(c_task_ok, 1);
            else if (rc == ABT_ERR_BARRIER) {
                vrt_count(c_task_err, 1);
                rejected = 1;
            } else
                vrt_violation("barrier:tasklet-rc", "tasklet wait returned %d", rc);
        }
        /* where tasklets are rejected, a rejected call on the barrier the
         * others use must not count as an arrival (the round accounting of the
         * real waiters would show an early release) */
#ifndef ABT_ENABLE_VER_20_API
        rejected = 1; /* the 1.x API rejects tasklet callers whatever the barrier */
#endif
        if (rejected && !c->use_xb && c->n >= 2) {
            for (int i = 0; i < 6 && vrt_num_violations() == 0; i++) {
                int rc = ABT_barrier_wait(c->b);
                if (rc != ABT_ERR_BARRIER)
                    vrt_violation("barrier:tasklet-rc", "tasklet wait on a %d-waiter barrier returned %d (a 1-waiter barrier "
                                  "rejected the same caller)", c->n, rc);
                vrt_count(c_task_err_shared, 1);
                for (volatile int k = 0; k < 2000; k++)
                    ;
            }
        }
        return;
    }
    for (int r = 0; r < c->rounds && vrt_num_violations() == 0; r++) {
        if (r > 0 && __atomic_load_n(&c->leaves[r - 1], __ATOMIC_RELAXED) <
                         (uint32_t)c->n)
            vrt_count(c_laps, 1); /* re-entering while others still leave r-1 */
        __atomic_fetch_add(&c->arrivals[r], 1, __ATOMIC_SEQ_CST);
        vrt_actor_set(a->vid, VRT_A_BLOCKED, "barrier_wait");
        int rc = c->use_xb ? ABT_xstream_barrier_wait(c->xb)
                           : ABT_barrier_wait(c->b);
        vrt_actor_set(a->vid, VRT_A_RUNNING, "between");
        if (rc != ABT_SUCCESS) {
            vrt_violation("barrier:wait-error", "wait returned %d", rc);
            return;
        }
        uint32_t arr = __atomic_load_n(&c->arrivals[r], __ATOMIC_SEQ_CST);
        if (arr != (uint32_t)c->n)
            vrt_violation(c->use_xb ? "xbarrier:released-early"
                                    : "barrier:released-early",
                          "actor %d(%s) left round %d with %u of %d arrivals",
                          a->idx, act_kind_name[a->kind], r, arr, c->n);
        __atomic_fetch_add(&c->leaves[r], 1, __ATOMIC_SEQ_CST);
        vrt_count(c_waits, 1);
        /* occasionally dawdle so that others lap this caller */
        if (vrt_range(&a->rng, 16) == 0) {
            if (a->kind == ACT_ULT && !c->use_xb)
                ABT_thread_yield();
            else
                for (volatile int i = 0; i < 300; i++)
                    ;
        }
    }
    if (c->final_reinit && !c->use_xb && vrt_num_violations() == 0) {
        /* one waiter reinitialises the barrier the moment its last wait has
         * returned (the others may still be on their way out of that round);
         * then everybody goes through one more round */
        int zero = 0;
        /* whoever comes out of the last round first (normally the last arriver,
         * which never slept) reinitialises at once */
        if (__atomic_compare_exchange_n(&c->reinit_claim, &zero, 1, 0, __ATOMIC_SEQ_CST, __ATOMIC_SEQ_CST)) {
            VRT_ABT(ABT_barrier_reinit(c->b, (uint32_t)c->n));
            __atomic_store_n(&c->reinit_done, 1, __ATOMIC_SEQ_CST);
        } else {
            while (!__atomic_load_n(&c->reinit_done, __ATOMIC_SEQ_CST) && vrt_num_violations() == 0) {
                if (a->kind == ACT_ULT)
                    ABT_thread_yield();
                else
                    sched_yield();
            }
        }
        __atomic_fetch_add(&c->extra_arrivals, 1, __ATOMIC_SEQ_CST);
        vrt_actor_set(a->vid, VRT_A_BLOCKED, "barrier_wait after reinit");
        int rc = ABT_barrier_wait(c->b);
        vrt_actor_set(a->vid, VRT_A_RUNNING, "after the extra round");
        if (rc != ABT_SUCCESS)
            vrt_violation("barrier:wait-error", "wait after reinit returned %d", rc);
        else if (__atomic_load_n(&c->extra_arrivals, __ATOMIC_SEQ_CST) != c->n)
            vrt_violation("barrier:released-early", "actor %d left the round after ABT_barrier_reinit with %d of %d arrivals",
                          a->idx, c->extra_arrivals, c->n);
    }
}

static void run_phase(world_t *w, bctx_t *c, vrt_rng *r, int n, int next,
                      int ntask, int rounds, uint64_t seed)
{
    static actor_t actors[MAXA];
    int kinds[MAXA];
    c->n = n;
    c->rounds = rounds;
    memset(c->arrivals, 0, sizeof(uint32_t) * (size_t)rounds);
    memset(c->leaves, 0, sizeof(uint32_t) * (size_t)rounds);
    actors_kinds(r, kinds, n - next, next, ntask);
    c->final_reinit = !c->use_xb && vrt_range(r, 2);
    c->reinit_done = c->extra_arrivals = c->reinit_claim = 0;
    c->reinit_actor = 0;
    for (int i = 0; i < n + ntask; i++)
        if (kinds[i] != ACT_TASK && (kinds[i] == ACT_ULT || vrt_range(r, 2))) {
            c->reinit_actor = i;
            break;
        }
    if (kinds[c->reinit_actor] == ACT_TASK)
        c->final_reinit = 0;
    if (c->final_reinit) {
        vrt_count(c_reinit_overlap, 1);
        /* often right after the first round since the barrier was created or
         * reinitialised (wait-list state still at its initial values) */
        if (vrt_range(r, 2)) {
            rounds = 1;
            c->rounds = 1;
        }
    }
    task_stream_t ts;
    vrt_actor_reset_all();
    actors_spawn(w, actors, n + ntask, kinds, barrier_body, c, &ts, seed);
    actors_join(actors, n + ntask, &ts);
    for (int i = 0; i < rounds; i++) {
        if (c->leaves[i] != (uint32_t)n || c->arrivals[i] != (uint32_t)n) {
            vrt_violation("barrier:round-count",
                          "round %d: %u arrivals, %u leaves, expected %d", i,
                          c->arrivals[i], c->leaves[i], n);
            break;
        }
    }
    vrt_count(c_rounds, (uint64_t)rounds);
}

int main(int argc, char **argv)
{
    vrt_init(argc, argv, "h_barrier");
    int scen = (int)vrt_arg_int("scenarios", 8);
    int max_rounds = (int)vrt_arg_int("max-rounds", 2000);
    int max_es = (int)vrt_arg_int("max-es", 4);
    if (max_rounds > MAXR)
        max_rounds = MAXR;
    c_rounds = vrt_counter("rounds");
    c_cases = vrt_counter("cases");
    c_waits = vrt_counter("waits_returned");
    c_task_err = vrt_counter("tasklet_wait_rejected");
    c_task_ok = vrt_counter("tasklet_wait_accepted");
    c_reinit = vrt_counter("reinits");
    c_xb_rounds = vrt_counter("xstream_barrier_rounds");
    c_reinit_overlap = vrt_counter("reinit_issued_by_a_waiter_right_after_its_last_wait");
    c_task_err_shared = vrt_counter("tasklet_rejected_on_the_shared_barrier");
    c_xb_ext = vrt_counter("xstream_barrier_external_waiters");
    c_xb_single_es = vrt_counter("xstream_barrier_phases_with_one_stream");
    c_laps = vrt_counter("reentered_while_others_leaving");
    vrt_supervisor_start();
    vrt_rng r;
    vrt_rng_init(&r, vrt_seed, 7);
    static uint32_t arrivals[MAXR], leaves[MAXR];
    for (int s = 0; s < scen && vrt_num_violations() == 0; s++) {
        int nes, shared, pk, sp;
        world_random_config(&r, max_es, &nes, &shared, &pk, &sp);
        if (s % 3 == 2)
            nes = 1; /* only the primary stream: external threads are the other waiters */
        VRT_ABT(ABT_init(0, NULL));
        world_t w;
        world_create(&w, nes, shared, pk, sp);
        bctx_t c;
        memset(&c, 0, sizeof(c));
        c.arrivals = arrivals;
        c.leaves = leaves;
        VRT_ABT(ABT_barrier_create(1, &c.tb));
        int n = 1 + (int)vrt_range(&r, 24);
        VRT_ABT(ABT_barrier_create((uint32_t)n, &c.b));
        int phases = 1 + (int)vrt_range(&r, 3);
        char wd[128];
        world_describe(&w, wd, sizeof(wd));
        if (vrt_arg_has("verbose"))
            fprintf(stderr, "scenario %d: %s n=%d phases=%d\n", s, wd, n, phases);
        for (int p = 0; p < phases && vrt_num_violations() == 0; p++) {
            if (p > 0) {
                n = 1 + (int)vrt_range(&r, 24);
                VRT_ABT(ABT_barrier_reinit(c.b, (uint32_t)n));
                vrt_count(c_reinit, 1);
            }
            uint32_t nw = 0;
            VRT_ABT(ABT_barrier_get_num_waiters(c.b, &nw));
            VRT_CHECK(nw == (uint32_t)n, "barrier:num-waiters",
                      "get_num_waiters %u != %d", nw, n);
            int next = (int)vrt_range(&r, (uint64_t)(n > 4 ? 4 : n));
            int ntask = (int)vrt_range(&r, 2);
            int rounds = 1 + (int)vrt_range(&r, (uint64_t)max_rounds);
            if (n > 12)
                rounds = 1 + rounds / 4;
            run_phase(&w, &c, &r, n, next, ntask, rounds,
                      vrt_hash64(vrt_seed * 31 + (uint64_t)s * 7 + (uint64_t)p));
            if (s < 2 && p == 0)
                vrt_sample("scenario %d: %s num_waiters=%d (ext=%d, tasklet "
                           "callers=%d) rounds=%d phases=%d delay=%s",
                           s, wd, n, next, ntask, rounds, phases,
                           vrt_delay_profile_name());
            vrt_signature_add("%s,n%d,e%d,t%d,p%d", wd, n, next, ntask, p);
        }
        VRT_ABT(ABT_barrier_free(&c.b));
        VRT_ABT(ABT_barrier_free(&c.tb));
        /* xstream barrier: at most one ULT per stream (private pools, no
         * stealing; with shared pools a single ULT), plus external threads */
        {
            int private_streams = !w.shared && w.sched_predef != ABT_SCHED_RANDWS;
            int nult = private_streams ? 1 + (int)vrt_range(&r, (uint64_t)w.nes) : (int)vrt_range(&r, 2);
            int xnext = (int)vrt_range(&r, 4);
            if (w.nes == 1 && xnext == 0)
                xnext = 1 + (int)vrt_range(&r, 3);
            if (nult + xnext >= 1) {
                c.use_xb = 1;
                VRT_ABT(ABT_xstream_barrier_create((uint32_t)(nult + xnext), &c.xb));
                int rounds = 1 + (int)vrt_range(&r, (uint64_t)max_rounds);
                /* ULT actor i goes to pool i % nes == i */
                run_phase(&w, &c, &r, nult + xnext, xnext, 0, rounds, vrt_hash64(vrt_seed + 99 + (uint64_t)s));
                vrt_count(c_xb_rounds, (uint64_t)rounds);
                vrt_count(c_xb_ext, (uint64_t)xnext);
                if (w.nes == 1 && nult + xnext >= 2)
                    vrt_count(c_xb_single_es, 1);
                VRT_ABT(ABT_xstream_barrier_free(&c.xb));
                vrt_signature_add("%s,xbarrier,u%d,e%d", wd, nult, xnext);
                c.use_xb = 0;
            }
        }
        world_destroy(&w);
        VRT_ABT(ABT_finalize());
        vrt_count(c_cases, 1);
    }
    return vrt_finish("barrier_rounds");
}
