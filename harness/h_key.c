/* C16: work-unit-local storage is a per-unit key->value map with exactly-once
 * destructors.
 *
 * Reference model: per unit an array model[key] = last value set (by the unit
 * itself for "own" keys, by its partner unit for "partner" keys; the two key
 * sets are disjoint as the property requires).  Every get through any of the
 * three APIs must return the model value (NULL if never set).  Values are
 * tagged integers (unit, key, version), so a value leaking between units or
 * keys is recognised.  Destructors log (unit, key, version): at the end each
 * (unit,key) with a non-NULL final value and a destructor has exactly one call
 * with the final version; all others none.  ABT_KEY_TABLE_SIZE comes from the
 * environment of the process (driver matrix). */
#include "actors.h"

#define MAXU 256
#define MAXK 200

typedef struct {
    uint32_t ver;   /* 0 = NULL value */
} mval_t;

typedef struct unit_s {
    int id;
    int kind; /* 0 named ULT, 1 unnamed ULT, 2 named tasklet, 3 unnamed tasklet, 4 primary */
    ABT_thread th;   /* written by the creator */
    ABT_thread self; /* written and used by the unit itself */
    mval_t model[MAXK];       /* own keys: written by the unit; partner keys: by the partner */
    int dtor_calls[MAXK];     /* atomic */
    uint32_t dtor_ver[MAXK];
    int ops;
    vrt_rng rng;
    int partner_done;         /* atomic */
    int partner_go;           /* atomic: partner is about to do its first set */
    int rendezvous;           /* owner waits for partner_go before its first set */
    int started;              /* atomic */
    int phase;                /* 0 first run, 1 revived */
    int finished;             /* atomic */
} unit_t;

static unit_t g_u[MAXU];
static int g_nu;
static ABT_key g_keys[MAXK];
static int g_has_dtor[MAXK];
static int g_nk, g_nown; /* keys [0,g_nown) own, [g_nown,g_nk) partner */
static int c_cases, c_sets, c_gets, c_gets_null, c_dtors, c_units, c_revived,
    c_partner_sets, c_by_kind[5], c_nodtor_keys, c_distinct;

static void *mkval(int unit, int key, uint32_t ver)
{
    if (ver == 0)
        return NULL;
    return (void *)(uintptr_t)(((uint64_t)(unit + 1) << 40) | ((uint64_t)key << 24) | (ver & 0xffffff));
}
static void decode(void *v, int *unit, int *key, uint32_t *ver)
{
    uint64_t x = (uint64_t)(uintptr_t)v;
    *unit = (int)(x >> 40) - 1;
    *key = (int)((x >> 24) & 0xffff);
    *ver = (uint32_t)(x & 0xffffff);
}

static void dtor(void *value)
{
    int u, k;
    uint32_t ver;
    decode(value, &u, &k, &ver);
    if (u < 0 || u >= g_nu || k < 0 || k >= g_nk) {
        vrt_violation("key:destructor-bad-value", "destructor called with unknown value %p", value);
        return;
    }
    __atomic_fetch_add(&g_u[u].dtor_calls[k], 1, __ATOMIC_SEQ_CST);
    g_u[u].dtor_ver[k] = ver;
    vrt_count(c_dtors, 1);
}

static void check_get(unit_t *u, int k, int api)
{
    void *v = (void *)0x1;
    int rc;
    if (api == 0)
        rc = ABT_key_get(g_keys[k], &v);
    else if (api == 1)
        rc = ABT_self_get_specific(g_keys[k], &v);
    else
        rc = ABT_thread_get_specific(u->self, g_keys[k], &v);
    if (rc != ABT_SUCCESS) {
        vrt_violation("key:get-rc", "get api %d returned %d", api, rc);
        return;
    }
    void *exp = mkval(u->id, k, u->model[k].ver);
    if (v != exp) {
        int vu = -1, vk = -1;
        uint32_t vv = 0;
        if (v)
            decode(v, &vu, &vk, &vv);
        vrt_violation(v && (vu != u->id || vk != k) ? "key:value-leaked" : "key:get-wrong-value",
                      "unit %d (kind %d) key %d: get(api %d) returned %p (unit %d key %d ver %u), model "
                      "expects version %u%s", u->id, u->kind, k, api, v, vu, vk, vv, u->model[k].ver,
                      u->model[k].ver ? "" : " (NULL)");
    }
    vrt_count(v ? c_gets : c_gets_null, 1);
}

static void do_set(unit_t *u, int k, int api)
{
    uint32_t ver = vrt_range(&u->rng, 8) == 0 ? 0 : u->model[k].ver + 1 + (uint32_t)(vrt_range(&u->rng, 3));
    if (ver == 0 && u->model[k].ver == 0)
        ver = 1;
    void *v = mkval(u->id, k, ver);
    int rc;
    if (api == 0)
        rc = ABT_key_set(g_keys[k], v);
    else if (api == 1)
        rc = ABT_self_set_specific(g_keys[k], v);
    else
        rc = ABT_thread_set_specific(u->self, g_keys[k], v);
    if (rc != ABT_SUCCESS) {
        vrt_violation("key:set-rc", "set api %d returned %d", api, rc);
        return;
    }
    u->model[k].ver = ver;
    vrt_count(c_sets, 1);
}

static void unit_ops(unit_t *u)
{
    /* the handle of an unnamed unit must not be used through
     * ABT_thread_*_specific after it may have been freed; inside the unit
     * itself it is fine */
    for (int i = 0; i < u->ops && vrt_num_violations() == 0; i++) {
        int k = (int)vrt_range(&u->rng, (uint64_t)g_nown);
        if (vrt_range(&u->rng, 5) < 2)
            do_set(u, k, (int)vrt_range(&u->rng, 3));
        else
            check_get(u, k, (int)vrt_range(&u->rng, 3));
        if ((u->kind <= 1 || u->kind == 4) && vrt_range(&u->rng, 16) == 0)
            ABT_thread_yield();
    }
}

static void unit_fn(void *arg)
{
    unit_t *u = (unit_t *)arg;
    /* The creation handle may be stored by the creator only after the unit has
     * started, so the unit uses its own handle. */
    if (u->kind != 4)
        VRT_ABT(ABT_self_get_thread(&u->self));
    __atomic_store_n(&u->started, 1, __ATOMIC_SEQ_CST);
    if (u->rendezvous && u->phase == 0) {
        /* both first setters arrive together: key-table creation race */
        for (int i = 0; i < 20000 && !__atomic_load_n(&u->partner_go, __ATOMIC_SEQ_CST); i++)
            ABT_thread_yield();
        do_set(u, 0, (int)vrt_range(&u->rng, 3));
    }
    if (u->phase == 1) {
        /* revived: the key table must have survived */
        for (int k = 0; k < g_nk && vrt_num_violations() == 0; k++)
            check_get(u, k, (int)vrt_range(&u->rng, 3));
        vrt_count(c_revived, 1);
    }
    unit_ops(u);
    /* after the partner finished, its keys are visible to the owner too */
    if (u->kind == 0 || u->kind == 2) {
        if (__atomic_load_n(&u->partner_done, __ATOMIC_SEQ_CST))
            for (int k = g_nown; k < g_nk && vrt_num_violations() == 0; k++)
                check_get(u, k, (int)vrt_range(&u->rng, 3));
    }
    __atomic_store_n(&u->finished, 1, __ATOMIC_SEQ_CST);
}

/* partner: sets the partner keys of named units while they run (or before /
 * after), through ABT_thread_set_specific */
typedef struct {
    int first, last;
    vrt_rng rng;
} partner_arg_t;
static void partner_fn(void *arg)
{
    partner_arg_t *pa = (partner_arg_t *)arg;
    for (int i = pa->first; i < pa->last; i++) {
        unit_t *u = &g_u[i];
        if (u->kind != 0 && u->kind != 2)
            continue;
        if (u->rendezvous) {
            for (int j = 0; j < 20000 && !__atomic_load_n(&u->started, __ATOMIC_SEQ_CST); j++)
                ABT_thread_yield();
            __atomic_store_n(&u->partner_go, 1, __ATOMIC_SEQ_CST);
        }
        for (int k = g_nown; k < g_nk; k++) {
            if (vrt_range(&pa->rng, 3) == 0 && !(u->rendezvous && k == g_nown))
                continue;
            uint32_t ver = u->model[k].ver + 1;
            int rc = ABT_thread_set_specific(u->th, g_keys[k], mkval(u->id, k, ver));
            if (rc != ABT_SUCCESS) {
                vrt_violation("key:set-rc", "ABT_thread_set_specific by partner returned %d", rc);
                return;
            }
            u->model[k].ver = ver;
            vrt_count(c_partner_sets, 1);
            if (vrt_range(&pa->rng, 8) == 0)
                ABT_thread_yield();
        }
        __atomic_store_n(&u->partner_done, 1, __ATOMIC_SEQ_CST);
    }
}

static void check_dtors(unit_t *u, const char *when)
{
    for (int k = 0; k < g_nk; k++) {
        int calls = __atomic_load_n(&u->dtor_calls[k], __ATOMIC_SEQ_CST);
        int expect = (u->model[k].ver != 0 && g_has_dtor[k]) ? 1 : 0;
        if (calls != expect) {
            vrt_violation(calls > expect ? "key:destructor-called-too-often" : "key:destructor-not-called",
                          "%s: unit %d (kind %d) key %d (%s destructor): %d destructor calls, expected %d "
                          "(final version %u)", when, u->id, u->kind, k, g_has_dtor[k] ? "with" : "no",
                          calls, expect, u->model[k].ver);
            return;
        }
        if (calls == 1 && u->dtor_ver[k] != (u->model[k].ver & 0xffffff)) {
            vrt_violation("key:destructor-stale-value",
                          "%s: unit %d key %d destructor got version %u, last set was %u", when, u->id, k,
                          u->dtor_ver[k], u->model[k].ver);
            return;
        }
    }
}

int main(int argc, char **argv)
{
    vrt_init(argc, argv, "h_key");
    int scen = (int)vrt_arg_int("scenarios", 6);
    int max_units = (int)vrt_arg_int("max-units", 64);
    int ops = (int)vrt_arg_int("ops", 300);
    int max_es = (int)vrt_arg_int("max-es", 4);
    c_cases = vrt_counter("cases");
    c_distinct = vrt_counter("distinct_nontrivial");
    c_sets = vrt_counter("sets");
    c_gets = vrt_counter("gets_value");
    c_gets_null = vrt_counter("gets_null");
    c_dtors = vrt_counter("destructor_calls");
    c_units = vrt_counter("units");
    c_revived = vrt_counter("revived_units");
    c_partner_sets = vrt_counter("sets_by_other_unit");
    c_nodtor_keys = vrt_counter("keys_without_destructor");
    c_by_kind[0] = vrt_counter("units_named_ult");
    c_by_kind[1] = vrt_counter("units_unnamed_ult");
    c_by_kind[2] = vrt_counter("units_named_tasklet");
    c_by_kind[3] = vrt_counter("units_unnamed_tasklet");
    c_by_kind[4] = vrt_counter("units_primary");
    vrt_supervisor_start();
    vrt_rng r;
    vrt_rng_init(&r, vrt_seed, 31);
    if (max_units > MAXU - 2)
        max_units = MAXU - 2;
    for (int s = 0; s < scen && vrt_num_violations() == 0; s++) {
        int nes, shared, pk, sp;
        world_random_config(&r, max_es, &nes, &shared, &pk, &sp);
        VRT_ABT(ABT_init(0, NULL));
        world_t w;
        world_create(&w, nes, shared, pk, sp);
        static const int nk_opts[] = { 1, 2, 3, 8, 17, 64, 200 };
        g_nk = nk_opts[vrt_range(&r, 7)];
        g_nown = g_nk > 1 ? (g_nk + 1) / 2 : 1;
        for (int k = 0; k < g_nk; k++) {
            g_has_dtor[k] = vrt_range(&r, 5) != 0;
            if (!g_has_dtor[k])
                vrt_count(c_nodtor_keys, 1);
            VRT_ABT(ABT_key_create(g_has_dtor[k] ? dtor : NULL, &g_keys[k]));
        }
        g_nu = 2 + (int)vrt_range(&r, (uint64_t)max_units - 1);
        memset(g_u, 0, sizeof(unit_t) * (size_t)(g_nu + 1));
        /* unit g_nu-1... are regular, plus the primary ULT as unit index g_nu */
        for (int i = 0; i < g_nu; i++) {
            unit_t *u = &g_u[i];
            u->id = i;
            u->kind = (int)vrt_range(&r, 4);
            u->ops = 1 + (int)vrt_range(&r, (uint64_t)ops);
            u->rendezvous = u->kind == 0 && g_nk > 1 && w.nes > 1 && vrt_range(&r, 2);
            vrt_rng_init(&u->rng, vrt_seed * 17 + (uint64_t)s, 1000 + (uint64_t)i);
            vrt_count(c_by_kind[u->kind], 1);
        }
        unit_t *prim = &g_u[g_nu];
        prim->id = g_nu;
        prim->kind = 4;
        prim->ops = ops;
        vrt_rng_init(&prim->rng, vrt_seed * 17 + (uint64_t)s, 999);
        VRT_ABT(ABT_self_get_thread(&prim->th));
        prim->self = prim->th;
        g_nu++;
        vrt_count(c_by_kind[4], 1);
        int nreg = g_nu - 1;
        /* create: named units keep handles */
        for (int i = 0; i < nreg; i++) {
            unit_t *u = &g_u[i];
            ABT_pool pool = w.pools[i % w.nes];
            ABT_thread *ph = (u->kind == 0 || u->kind == 2) ? &u->th : NULL;
            if (u->kind <= 1)
                VRT_ABT(ABT_thread_create(pool, unit_fn, u, ABT_THREAD_ATTR_NULL, ph));
            else
                VRT_ABT(ABT_task_create(pool, unit_fn, u, ph));
        }
        /* partners: a few ULTs racing with the owners' first sets (table
         * creation race) */
        int nparts = 1 + (int)vrt_range(&r, 3);
        static partner_arg_t pa[4];
        ABT_thread pth[4];
        for (int p = 0; p < nparts; p++) {
            pa[p].first = nreg * p / nparts;
            pa[p].last = nreg * (p + 1) / nparts;
            vrt_rng_init(&pa[p].rng, vrt_seed * 19 + (uint64_t)s, 2000 + (uint64_t)p);
            VRT_ABT(ABT_thread_create(w.pools[(p + 1) % w.nes], partner_fn, &pa[p], ABT_THREAD_ATTR_NULL, &pth[p]));
        }
        /* the primary ULT works on its own table meanwhile */
        unit_ops(prim);
        for (int p = 0; p < nparts; p++)
            VRT_ABT(ABT_thread_free(&pth[p]));
        /* join named units, check partner keys from outside, maybe revive */
        for (int i = 0; i < nreg && vrt_num_violations() == 0; i++) {
            unit_t *u = &g_u[i];
            if (u->kind != 0 && u->kind != 2)
                continue;
            VRT_ABT(ABT_thread_join(u->th));
            for (int k = 0; k < g_nk && vrt_num_violations() == 0; k++) {
                void *v = (void *)0x1;
                VRT_ABT(ABT_thread_get_specific(u->th, g_keys[k], &v));
                if (v != mkval(u->id, k, u->model[k].ver))
                    vrt_violation("key:get-wrong-value",
                                  "after join: unit %d key %d holds %p, model version %u", u->id, k, v,
                                  u->model[k].ver);
            }
            if (vrt_range(&r, 3) == 0) {
                u->phase = 1;
                u->ops = 1 + u->ops / 2;
                ABT_pool pool = w.pools[(i + 1) % w.nes];
                if (u->kind == 0)
                    VRT_ABT(ABT_thread_revive(pool, unit_fn, u, &u->th));
                else
                    VRT_ABT(ABT_task_revive(pool, unit_fn, u, &u->th));
            }
        }
        for (int i = 0; i < nreg && vrt_num_violations() == 0; i++) {
            unit_t *u = &g_u[i];
            if (u->kind != 0 && u->kind != 2)
                continue;
            /* no destructor may have run while the unit is still alive */
            for (int k = 0; k < g_nk; k++)
                if (__atomic_load_n(&u->dtor_calls[k], __ATOMIC_SEQ_CST)) {
                    vrt_violation("key:destructor-before-free", "unit %d key %d: destructor ran before the "
                                  "unit was freed", u->id, k);
                    break;
                }
            VRT_ABT(ABT_thread_free(&u->th));
            check_dtors(u, "after ABT_thread_free");
        }
        char wd[128];
        world_describe(&w, wd, sizeof(wd));
        world_destroy(&w); /* joins the secondary streams: unnamed units are done */
        /* unnamed units on the primary stream's pool finish when it yields */
        for (int spin = 0; spin < 100000; spin++) {
            int all = 1;
            for (int i = 0; i < nreg; i++)
                if (!__atomic_load_n(&g_u[i].finished, __ATOMIC_SEQ_CST))
                    all = 0;
            if (all)
                break;
            ABT_thread_yield();
        }
        ABT_thread_yield();
        for (int i = 0; i < nreg && vrt_num_violations() == 0; i++) {
            unit_t *u = &g_u[i];
            if (u->kind == 1 || u->kind == 3) {
                if (!__atomic_load_n(&u->finished, __ATOMIC_SEQ_CST)) {
                    vrt_violation("key:unnamed-unit-never-ran", "unit %d did not finish", u->id);
                    break;
                }
                check_dtors(u, "after automatic free of an unnamed unit");
            }
        }
        for (int k = 0; k < g_nk; k++) {
            /* the primary ULT's values: destructors run at finalize */
            if (__atomic_load_n(&prim->dtor_calls[k], __ATOMIC_SEQ_CST))
                vrt_violation("key:destructor-before-free", "primary ULT key %d destructor ran before finalize", k);
        }
        /* freeing a key does not affect values already stored (their
         * destructors still run when the owner is freed) */
        for (int k = 0; k < g_nk; k++)
            VRT_ABT(ABT_key_free(&g_keys[k]));
        VRT_ABT(ABT_finalize());
        if (vrt_num_violations() == 0)
            check_dtors(prim, "after ABT_finalize (primary ULT)");
        if (s < 3)
            vrt_sample("scenario %d: %s ABT_KEY_TABLE_SIZE=%s keys=%d (own %d / set-by-partner %d) units=%d "
                       "ops<=%d", s, wd, getenv("ABT_KEY_TABLE_SIZE") ? getenv("ABT_KEY_TABLE_SIZE") : "default",
                       g_nk, g_nown, g_nk - g_nown, g_nu, ops);
        vrt_signature_add("%s,k%d,u%d,ts%s", wd, g_nk, g_nu > 16 ? 99 : g_nu,
                          getenv("ABT_KEY_TABLE_SIZE") ? getenv("ABT_KEY_TABLE_SIZE") : "d");
        vrt_count(c_units, (uint64_t)g_nu);
        vrt_count(c_cases, 1);
    }
    return vrt_finish("key_maps");
}
