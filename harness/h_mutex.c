/* C04: ABT_mutex - mutual exclusion, recursion, trylock, no lost wake-up.
 *
 * Oracle (all monitor state is atomics):
 *  - owner word per mutex: CAS(-1 -> me) right after an acquiring call returns,
 *    store(-1) right before the releasing call; a failed CAS = two holders.
 *  - a plain (non-atomic) counter is incremented inside the critical section;
 *    its final value must equal the number of acquisitions (and TSan sees a
 *    race if exclusion is broken).
 *  - recursive mutexes: nested acquisitions by the owner must succeed at once;
 *    the owner word stays set until the last unlock, so an early release shows
 *    as a second holder.
 *  - scripted phases decide "trylock succeeds iff free" where the harness
 *    knows the lock state.
 *  - lost wake-ups: logical deadlock rule of the supervisor (every actor is
 *    inside a locking call, nobody holds, pools empty).
 */
#include "actors.h"

#define MAXM 2
#define MAXA 64

typedef struct {
    ABT_mutex m;
    ABT_mutex_memory mem;
    int recursive;
    int kind; /* 0 created, 1 static, 2 static recursive, 3 attr recursive */
    int owner; /* atomic: actor idx or -1 */
    long plain; /* only touched while holding */
    uint64_t acquisitions; /* atomic */
    char pad[64];
} mon_mutex_t;

typedef struct {
    mon_mutex_t mx[MAXM];
    int nm;
    int iters;
    int cs_yield; /* allow yields inside CS */
} mctx_t;

static int c_acq, c_tryfail, c_nested, c_cases, c_nontrivial, c_script,
    c_cs_yield, c_by_kind[3];

static void mm_acquired(mon_mutex_t *M, actor_t *a, int depth_before,
                        const char *op)
{
    if (depth_before == 0) {
        int exp = -1;
        if (!__atomic_compare_exchange_n(&M->owner, &exp, a->idx, 0,
                                         __ATOMIC_ACQ_REL, __ATOMIC_ACQUIRE)) {
            vrt_violation("mutex:two-holders",
                          "%s by actor %d(%s) returned while actor %d holds the "
                          "mutex (kind=%d recursive=%d)",
                          op, a->idx, act_kind_name[a->kind], exp, M->kind,
                          M->recursive);
        }
    } else {
        int o = __atomic_load_n(&M->owner, __ATOMIC_ACQUIRE);
        if (o != a->idx)
            vrt_violation("mutex:recursive-owner-changed",
                          "actor %d re-locked at depth %d but owner is %d",
                          a->idx, depth_before, o);
    }
    M->plain++;
    __atomic_fetch_add(&M->acquisitions, 1, __ATOMIC_RELAXED);
    vrt_count(c_acq, 1);
    vrt_count(c_by_kind[a->kind], 1);
}

static void mm_release(mon_mutex_t *M, actor_t *a, int depth_after)
{
    if (depth_after == 0) {
        int o = __atomic_load_n(&M->owner, __ATOMIC_ACQUIRE);
        if (o != a->idx)
            vrt_violation("mutex:owner-lost",
                          "actor %d about to unlock but owner word is %d",
                          a->idx, o);
        __atomic_store_n(&M->owner, -1, __ATOMIC_RELEASE);
    }
}

static int do_lock(mon_mutex_t *M, actor_t *a, int op)
{
    int rc;
    switch (op) {
        case 0:
            rc = ABT_mutex_lock(M->m);
            break;
        case 1:
            rc = ABT_mutex_trylock(M->m);
            break;
        case 2:
            rc = ABT_mutex_spinlock(M->m);
            break;
        case 3:
            rc = ABT_mutex_lock_low(M->m);
            break;
        default:
            rc = ABT_mutex_lock_high(M->m);
            break;
    }
    return rc;
}
static const char *op_name[] = { "lock", "trylock", "spinlock", "lock_low",
                                 "lock_high" };

static void do_unlock(mon_mutex_t *M, actor_t *a, int which)
{
    int rc;
    if (which == 0)
        rc = ABT_mutex_unlock(M->m);
    else if (which == 1)
        rc = ABT_mutex_unlock_se(M->m);
    else
        rc = ABT_mutex_unlock_de(M->m);
    if (rc != ABT_SUCCESS)
        vrt_violation("mutex:unlock-error", "unlock variant %d returned %d",
                      which, rc);
}

static void mutex_body(actor_t *a)
{
    mctx_t *c = (mctx_t *)a->ctx;
    for (int it = 0; it < c->iters && vrt_num_violations() == 0; it++) {
        mon_mutex_t *M = &c->mx[vrt_range(&a->rng, (uint64_t)c->nm)];
        int op = (int)vrt_range(&a->rng, 5);
        /* A spinning ULT occupies its stream; that is only legal if no holder
         * can be waiting in that stream's pool, so scenarios either allow
         * spinlock or yields inside the critical section, never both. */
        if (op == 2 && c->cs_yield)
            op = 0;
        int want_depth = M->recursive ? 1 + (int)vrt_range(&a->rng, 3) : 1;
        int depth = 0;
        while (depth < want_depth) {
            int o = depth == 0 ? op : (int)vrt_range(&a->rng, 5);
            if (o == 2 && c->cs_yield)
                o = 3;
            vrt_actor_set(a->vid, VRT_A_BLOCKED, op_name[o]);
            int rc = do_lock(M, a, o);
            vrt_actor_set(a->vid, VRT_A_RUNNING, "cs");
            if (o == 1 && rc == ABT_ERR_MUTEX_LOCKED) {
                if (depth > 0)
                    vrt_violation("mutex:recursive-trylock-failed",
                                  "owner %d trylock at depth %d failed", a->idx,
                                  depth);
                vrt_count(c_tryfail, 1);
                break;
            }
            if (rc != ABT_SUCCESS) {
                vrt_violation("mutex:lock-error", "%s returned %d", op_name[o],
                              rc);
                break;
            }
            mm_acquired(M, a, depth, op_name[o]);
            if (depth > 0)
                vrt_count(c_nested, 1);
            depth++;
        }
        if (depth == 0)
            continue;
        /* critical section */
        unsigned csk = (unsigned)vrt_range(&a->rng, 8);
        if (csk == 0 && a->kind == ACT_ULT && c->cs_yield) {
            vrt_count(c_cs_yield, 1);
            ABT_thread_yield();
        } else if (csk < 3) {
            unsigned n = (unsigned)vrt_range(&a->rng, 200);
            for (volatile unsigned i = 0; i < n; i++)
                ;
        }
        while (depth > 0) {
            depth--;
            mm_release(M, a, depth);
            do_unlock(M, a, (int)vrt_range(&a->rng, 3));
        }
        if (vrt_range(&a->rng, 4) == 0 && a->kind == ACT_ULT)
            ABT_thread_yield();
    }
}

/* ---- scripted phase: trylock succeeds iff free; recursion depth --------- */
typedef struct {
    ABT_mutex m;
    int rc;
    int unlock_after;
} probe_t;
static void probe_fn(void *arg)
{
    probe_t *p = (probe_t *)arg;
    p->rc = ABT_mutex_trylock(p->m);
    if (p->rc == ABT_SUCCESS)
        ABT_mutex_unlock(p->m);
}
static void *probe_pt(void *arg)
{
    probe_fn(arg);
    return NULL;
}
/* run a trylock probe from another work unit / thread; returns its rc */
static int probe(world_t *w, ABT_mutex m, int how)
{
    probe_t p = { m, -1, 0 };
    if (how == 0) { /* ULT, preferably on another stream */
        ABT_thread t;
        VRT_ABT(ABT_thread_create(w->pools[w->nes > 1 ? 1 : 0], probe_fn, &p,
                                  ABT_THREAD_ATTR_NULL, &t));
        VRT_ABT(ABT_thread_free(&t));
    } else if (how == 1) { /* tasklet */
        ABT_task t;
        VRT_ABT(ABT_task_create(w->pools[w->nes > 1 ? 1 : 0], probe_fn, &p, &t));
        VRT_ABT(ABT_task_free(&t));
    } else { /* external thread */
        pthread_t t;
        pthread_create(&t, NULL, probe_pt, &p);
        pthread_join(t, NULL);
    }
    return p.rc;
}

static void scripted(world_t *w, mon_mutex_t *M)
{
    static const char *hn[] = { "ult", "tasklet", "ext" };
    for (int how = 0; how < 3; how++) {
        vrt_count(c_script, 1);
        /* free -> probe's trylock must succeed */
        int rc = probe(w, M->m, how);
        VRT_CHECK(rc == ABT_SUCCESS, "mutex:trylock-failed-on-free",
                  "trylock by %s on a free mutex (kind %d) returned %d", hn[how],
                  M->kind, rc);
        /* held by primary ULT -> must fail */
        int depth = M->recursive ? 3 : 1;
        for (int d = 0; d < depth; d++) {
            int r2 = d == 1 ? ABT_mutex_trylock(M->m) : ABT_mutex_lock(M->m);
            VRT_CHECK(r2 == ABT_SUCCESS, "mutex:recursive-lock-error",
                      "nested lock %d returned %d", d, r2);
        }
        rc = probe(w, M->m, how);
        VRT_CHECK(rc == ABT_ERR_MUTEX_LOCKED, "mutex:trylock-succeeded-on-held",
                  "trylock by %s on a held mutex (kind %d) returned %d", hn[how],
                  M->kind, rc);
        for (int d = depth - 1; d >= 0; d--) {
            VRT_ABT(ABT_mutex_unlock(M->m));
            rc = probe(w, M->m, how);
            if (d > 0)
                VRT_CHECK(rc == ABT_ERR_MUTEX_LOCKED,
                          "mutex:recursive-released-early",
                          "after %d of %d unlocks trylock by %s returned %d",
                          depth - d, depth, hn[how], rc);
            else
                VRT_CHECK(rc == ABT_SUCCESS, "mutex:not-released",
                          "after all %d unlocks trylock by %s returned %d",
                          depth, hn[how], rc);
        }
    }
}

static void make_mutex(mon_mutex_t *M, int kind)
{
    static const ABT_mutex_memory init_plain = ABT_MUTEX_INITIALIZER;
    static const ABT_mutex_memory init_rec = ABT_RECURSIVE_MUTEX_INITIALIZER;
    memset(M, 0, sizeof(*M));
    M->kind = kind;
    M->owner = -1;
    if (kind == 0) {
        VRT_ABT(ABT_mutex_create(&M->m));
    } else if (kind == 1) {
        M->mem = init_plain;
        M->m = ABT_MUTEX_MEMORY_GET_HANDLE(&M->mem);
    } else if (kind == 2) {
        M->mem = init_rec;
        M->m = ABT_MUTEX_MEMORY_GET_HANDLE(&M->mem);
        M->recursive = 1;
    } else {
        ABT_mutex_attr at;
        VRT_ABT(ABT_mutex_attr_create(&at));
        VRT_ABT(ABT_mutex_attr_set_recursive(at, ABT_TRUE));
        VRT_ABT(ABT_mutex_create_with_attr(at, &M->m));
        VRT_ABT(ABT_mutex_attr_free(&at));
        M->recursive = 1;
    }
}

int main(int argc, char **argv)
{
    vrt_init(argc, argv, "h_mutex");
    int rounds = (int)vrt_arg_int("rounds", 10);
    int iters = (int)vrt_arg_int("iters", 2000);
    int max_es = (int)vrt_arg_int("max-es", 4);
    int max_actors = (int)vrt_arg_int("max-actors", 16);
    c_acq = vrt_counter("acquisitions");
    c_tryfail = vrt_counter("trylock_failed");
    c_nested = vrt_counter("nested_acquisitions");
    c_cases = vrt_counter("cases");
    c_nontrivial = vrt_counter("nontrivial");
    c_script = vrt_counter("scripted_phases");
    c_cs_yield = vrt_counter("yields_inside_cs");
    c_by_kind[0] = vrt_counter("acq_by_ult");
    c_by_kind[1] = vrt_counter("acq_by_ext");
    c_by_kind[2] = vrt_counter("acq_by_tasklet");
    vrt_supervisor_start();
    vrt_rng r;
    vrt_rng_init(&r, vrt_seed, 1);
    for (int round = 0; round < rounds && vrt_num_violations() == 0; round++) {
        int nes, shared, pk, sp;
        world_random_config(&r, max_es, &nes, &shared, &pk, &sp);
        VRT_ABT(ABT_init(0, NULL));
        world_t w;
        world_create(&w, nes, shared, pk, sp);
        static mctx_t c;
        memset(&c, 0, sizeof(c));
        c.nm = 1 + (int)vrt_range(&r, MAXM);
        c.iters = iters;
        c.cs_yield = (int)vrt_range(&r, 2);
        for (int i = 0; i < c.nm; i++)
            make_mutex(&c.mx[i], (int)vrt_range(&r, 4));
        for (int i = 0; i < c.nm; i++)
            scripted(&w, &c.mx[i]);
        int n = 2 + (int)vrt_range(&r, (uint64_t)max_actors - 1);
        int next = (int)vrt_range(&r, 4);
        int ntask = (int)vrt_range(&r, 3);
        if (next + ntask > n - 1)
            next = 0, ntask = n > 2 ? 1 : 0;
        int kinds[MAXA];
        actors_kinds(&r, kinds, n - next - ntask, next, ntask);
        static actor_t actors[MAXA];
        task_stream_t ts;
        vrt_actor_reset_all();
        actors_spawn(&w, actors, n, kinds, mutex_body, &c, &ts,
                     vrt_hash64(vrt_seed + (uint64_t)round));
        actors_join(actors, n, &ts);
        for (int i = 0; i < c.nm; i++) {
            mon_mutex_t *M = &c.mx[i];
            VRT_CHECK((uint64_t)M->plain == M->acquisitions,
                      "mutex:lost-update-in-cs",
                      "plain counter %ld != acquisitions %llu", M->plain,
                      (unsigned long long)M->acquisitions);
            VRT_CHECK(M->owner == -1, "mutex:owner-left",
                      "owner %d at quiescence", M->owner);
            int rc = ABT_mutex_trylock(M->m);
            VRT_CHECK(rc == ABT_SUCCESS, "mutex:not-free-at-quiescence",
                      "trylock at quiescence returned %d", rc);
            if (rc == ABT_SUCCESS)
                ABT_mutex_unlock(M->m);
            if (M->kind == 0 || M->kind == 3)
                VRT_ABT(ABT_mutex_free(&M->m));
        }
        char wd[128];
        world_describe(&w, wd, sizeof(wd));
        if (round < 2)
            vrt_sample("round %d: %s mutexes=%d(kinds %d,%d) actors=%d "
                       "(ext=%d tasklets=%d) iters=%d delay=%s",
                       round, wd, c.nm, c.mx[0].kind, c.nm > 1 ? c.mx[1].kind : -1,
                       n, next, ntask, iters, vrt_delay_profile_name());
        vrt_signature_add("%s,m%d,a%d,e%d,t%d,y%d", wd, c.nm, n, next, ntask,
                          c.cs_yield);
        world_destroy(&w);
        VRT_ABT(ABT_finalize());
        vrt_count(c_cases, 1);
    }
    return vrt_finish("mutex_soup");
}
