/* C18: a failed allocation makes the call fail cleanly and leaves the runtime
 * intact.
 *
 * For every scenario (one creating / initialising routine in one situation) the
 * number N of allocation-class calls (malloc, calloc, realloc, posix_memalign,
 * mmap, pthread_create, pthread_*_init; link-time wrappers in allocwrap.c) made
 * by the calling thread inside the routine is counted first; then, for k =
 * 1..N, a complete cycle is run:
 *     ledger L0 -> ABT_init -> world (a second stream, pools, a parked ULT, a key
 *     value, sync objects) -> scenario preparation -> snapshot S0 of the world
 *     -> routine with the k-th allocation failing -> checks -> the same call
 *     again without a fault -> use and release what it created -> follow-up
 *     workload on the old objects -> teardown -> ABT_finalize -> ledger L1
 * Oracles: the failing call returns an error (a call that succeeds although the
 * fault fired is recorded as 'tolerated' and its result is used like any other),
 * every output handle is untouched or the NULL handle of its type, S1 == S0, the
 * retry succeeds, the created object and the old objects work, L1 == L0 (no
 * allocation left behind), no crash / sanitizer report. */
#define _GNU_SOURCE
#include "vrt.h"
#include "allocwrap.h"
#include <sched.h>
#include <pthread.h>

#define SENT ((void *)(uintptr_t)0x5a5a5a5a5a5a0ULL)
#define MAXH 8

typedef struct {
    ABT_xstream xs1;
    ABT_pool p_main, p1, p_spare;
    ABT_key key;
    ABT_thread parked;
    ABT_eventual ev;
    ABT_mutex mtx;
    int parked_done;
    int key_value;
} world_t;

typedef struct {
    int xs1_state, xs1_rank, num_xstreams;
    size_t p1_total, p_main_total, p_spare_total;
    int parked_state;
    void *key_val;
    ABT_sched main_sched;
    ABT_pool main_pool;
    ABT_thread self;
    int self_rank;
} snap_t;

typedef struct fctx {
    world_t w;
    void *h[MAXH];     /* output handles of the routine under test */
    void *hnull[MAXH]; /* NULL handle of each output's type */
    int nh;
    /* scenario scratch */
    void *x[8];
    int ran[16]; /* run counters of units created by the routine */
    int variant;
} fctx_t;

typedef struct {
    const char *id; /* short, stable: part of violation keys */
    const char *name;
    void (*pre)(fctx_t *);
    int (*op)(fctx_t *);
    void (*use_undo)(fctx_t *); /* after a successful op */
    void (*post)(fctx_t *);
    int no_world; /* the routine is ABT_init itself */
    int variants; /* op is run for variant 0..variants-1 (0 = 1) */
    /* the routine is documented to leave partial results behind when it fails:
     * clean them up, report them as a finding and go on */
    void (*partial)(fctx_t *, const void *snap0);
    /* scenario-specific state that a failed call must leave unchanged */
    void (*after_fail)(fctx_t *);
} scen_t;

static fctx_t F;
static int c_cases, c_fault_cases, c_clean_fail, c_tolerated, c_scenarios, c_alloc_sites, c_retries_ok, c_followups,
    c_which[12], c_unfaultable;
static const char *which_names[] = { "malloc", "calloc", "realloc", "posix_memalign", "mmap", "pthread_create",
                                     "pthread_mutex_init", "pthread_cond_init", "pthread_barrier_init" };
static char g_label[200];
static const char *g_id = "";
static char g_keybuf[8][96];
static int g_keyn;
/* violation key with the scenario id */
static const char *FK(const char *base)
{
    char *b = g_keybuf[g_keyn++ & 7];
    snprintf(b, 96, "fault:%s:%s", base, g_id);
    return b;
}

static void count_which(const char *w)
{
    for (int i = 0; i < 9; i++)
        if (!strcmp(w, which_names[i]))
            vrt_count(c_which[i], 1);
}

/* ---------------- world ---------------- */
static void parked_fn(void *arg)
{
    world_t *w = (world_t *)arg;
    ABT_eventual_wait(w->ev, NULL);
    w->parked_done = 1;
}
static void inc_fn(void *arg)
{
    __atomic_fetch_add((int *)arg, 1, __ATOMIC_SEQ_CST);
}
static void yield_inc_fn(void *arg)
{
    ABT_thread_yield();
    __atomic_fetch_add((int *)arg, 1, __ATOMIC_SEQ_CST);
}

static void world_setup(world_t *w)
{
    memset(w, 0, sizeof(*w));
    ABT_xstream self;
    VRT_ABT(ABT_xstream_self(&self));
    VRT_ABT(ABT_xstream_get_main_pools(self, 1, &w->p_main));
    VRT_ABT(ABT_pool_create_basic(ABT_POOL_FIFO, ABT_POOL_ACCESS_MPMC, ABT_FALSE, &w->p1));
    VRT_ABT(ABT_pool_create_basic(ABT_POOL_FIFO, ABT_POOL_ACCESS_MPMC, ABT_FALSE, &w->p_spare));
    VRT_ABT(ABT_xstream_create_basic(ABT_SCHED_BASIC, 1, &w->p1, ABT_SCHED_CONFIG_NULL, &w->xs1));
    VRT_ABT(ABT_key_create(NULL, &w->key));
    w->key_value = 4711;
    VRT_ABT(ABT_key_set(w->key, &w->key_value));
    VRT_ABT(ABT_eventual_create(0, &w->ev));
    VRT_ABT(ABT_mutex_create(&w->mtx));
    VRT_ABT(ABT_thread_create(w->p1, parked_fn, w, ABT_THREAD_ATTR_NULL, &w->parked));
    /* wait until it is really parked */
    for (;;) {
        ABT_thread_state st;
        VRT_ABT(ABT_thread_get_state(w->parked, &st));
        if (st == ABT_THREAD_STATE_BLOCKED)
            break;
        sched_yield();
    }
}
static void world_snapshot(world_t *w, snap_t *s)
{
    memset(s, 0, sizeof(*s));
    ABT_xstream_state xst;
    VRT_ABT(ABT_xstream_get_state(w->xs1, &xst));
    s->xs1_state = (int)xst;
    VRT_ABT(ABT_xstream_get_rank(w->xs1, &s->xs1_rank));
    VRT_ABT(ABT_xstream_get_num(&s->num_xstreams));
    VRT_ABT(ABT_pool_get_total_size(w->p1, &s->p1_total));
    VRT_ABT(ABT_pool_get_total_size(w->p_main, &s->p_main_total));
    VRT_ABT(ABT_pool_get_total_size(w->p_spare, &s->p_spare_total));
    ABT_thread_state st;
    VRT_ABT(ABT_thread_get_state(w->parked, &st));
    s->parked_state = (int)st;
    VRT_ABT(ABT_key_get(w->key, &s->key_val));
    ABT_xstream self;
    VRT_ABT(ABT_xstream_self(&self));
    VRT_ABT(ABT_xstream_get_main_sched(self, &s->main_sched));
    VRT_ABT(ABT_xstream_get_main_pools(self, 1, &s->main_pool));
    VRT_ABT(ABT_self_get_thread(&s->self));
    VRT_ABT(ABT_self_get_xstream_rank(&s->self_rank));
}
#define SNAPCMP(field, fmt)                                                                                            \
    if (a->field != b->field)                                                                                          \
    vrt_violation(FK("world-changed"), "%s: " #field " was " fmt " before the failed call and is " fmt " after it",  \
                  g_label, a->field, b->field)
static void snap_compare(const snap_t *a, const snap_t *b)
{
    SNAPCMP(xs1_state, "%d");
    SNAPCMP(xs1_rank, "%d");
    SNAPCMP(num_xstreams, "%d");
    SNAPCMP(p1_total, "%zu");
    SNAPCMP(p_main_total, "%zu");
    SNAPCMP(p_spare_total, "%zu");
    SNAPCMP(parked_state, "%d");
    SNAPCMP(key_val, "%p");
    SNAPCMP(main_sched, "%p");
    SNAPCMP(main_pool, "%p");
    SNAPCMP(self, "%p");
    SNAPCMP(self_rank, "%d");
}
/* the old objects still work */
static void world_followup(world_t *w)
{
    int cnt = 0;
    ABT_thread t[6];
    VRT_ABT(ABT_thread_create(w->p1, yield_inc_fn, &cnt, ABT_THREAD_ATTR_NULL, &t[0]));
    VRT_ABT(ABT_thread_create(w->p_main, yield_inc_fn, &cnt, ABT_THREAD_ATTR_NULL, &t[1]));
    VRT_ABT(ABT_task_create(w->p1, inc_fn, &cnt, &t[2]));
    VRT_ABT(ABT_task_create(w->p_main, inc_fn, &cnt, &t[3]));
    VRT_ABT(ABT_thread_create_on_xstream(w->xs1, inc_fn, &cnt, ABT_THREAD_ATTR_NULL, &t[4]));
    VRT_ABT(ABT_thread_create(w->p1, inc_fn, &cnt, ABT_THREAD_ATTR_NULL, NULL));
    for (int i = 0; i < 5; i++) {
        vrt_call_begin("join in the follow-up workload");
        VRT_ABT(ABT_thread_join(t[i]));
        vrt_call_end();
        VRT_ABT(ABT_thread_free(&t[i]));
    }
    while (__atomic_load_n(&cnt, __ATOMIC_SEQ_CST) < 6)
        ABT_thread_yield();
    VRT_CHECK(cnt == 6, FK("followup"), "%s: follow-up work units ran %d times instead of 6", g_label, cnt);
    VRT_ABT(ABT_mutex_lock(w->mtx));
    VRT_ABT(ABT_mutex_unlock(w->mtx));
    void *v = NULL;
    VRT_ABT(ABT_key_get(w->key, &v));
    VRT_CHECK(v == &w->key_value, FK("key-value"), "%s: key value of the primary ULT changed", g_label);
    vrt_count(c_followups, 1);
}
static void world_teardown(world_t *w)
{
    VRT_ABT(ABT_eventual_set(w->ev, NULL, 0));
    vrt_call_begin("join of the parked ULT at teardown");
    VRT_ABT(ABT_thread_join(w->parked));
    vrt_call_end();
    VRT_CHECK(w->parked_done == 1, FK("parked-unit"), "%s: the ULT parked before the failed call did not finish", g_label);
    VRT_ABT(ABT_thread_free(&w->parked));
    VRT_ABT(ABT_xstream_join(w->xs1));
    VRT_ABT(ABT_xstream_free(&w->xs1));
    VRT_ABT(ABT_pool_free(&w->p1));
    VRT_ABT(ABT_pool_free(&w->p_spare));
    VRT_ABT(ABT_mutex_free(&w->mtx));
    VRT_ABT(ABT_eventual_free(&w->ev));
    VRT_ABT(ABT_key_free(&w->key));
}

/* ---------------- scenarios ---------------- */
#define H(i, nullv)                                                                                                    \
    do {                                                                                                               \
        f->hnull[i] = (void *)(nullv);                                                                                 \
        if (f->nh < (i) + 1)                                                                                           \
            f->nh = (i) + 1;                                                                                           \
    } while (0)

static void join_free_thread(fctx_t *f, int i)
{
    ABT_thread t = (ABT_thread)f->h[i];
    vrt_call_begin("join of a unit created by the retried call");
    VRT_ABT(ABT_thread_join(t));
    vrt_call_end();
    VRT_ABT(ABT_thread_free(&t));
}
static void expect_ran(fctx_t *f, int n, int each)
{
    for (int i = 0; i < n; i++) {
        for (int spin = 0; __atomic_load_n(&f->ran[i], __ATOMIC_SEQ_CST) < each && spin < 2000000; spin++)
            ABT_thread_yield();
        VRT_CHECK(f->ran[i] == each, FK("created-unit-runs"), "%s: unit %d created by the call ran %d times (expected %d)",
                  g_label, i, f->ran[i], each);
    }
}

/* --- threads / tasks --- */
static int op_thread_create(fctx_t *f)
{
    H(0, ABT_THREAD_NULL);
    ABT_pool p = f->variant == 0 ? f->w.p_main : f->w.p1;
    return ABT_thread_create(p, inc_fn, &f->ran[0], ABT_THREAD_ATTR_NULL, (ABT_thread *)&f->h[0]);
}
static void use_thread1(fctx_t *f)
{
    join_free_thread(f, 0);
    expect_ran(f, 1, 1);
}
static int op_thread_create_unnamed(fctx_t *f)
{
    return ABT_thread_create(f->variant == 0 ? f->w.p_main : f->w.p1, inc_fn, &f->ran[0], ABT_THREAD_ATTR_NULL, NULL);
}
static void use_unnamed(fctx_t *f)
{
    expect_ran(f, 1, 1);
}
static void pre_attr(fctx_t *f)
{
    ABT_thread_attr a;
    VRT_ABT(ABT_thread_attr_create(&a));
    if (f->variant == 0) {
        VRT_ABT(ABT_thread_attr_set_stacksize(a, 70000));
    } else {
        f->x[1] = malloc(65536 + 64);
        VRT_ABT(ABT_thread_attr_set_stack(a, (void *)(((uintptr_t)f->x[1] + 63) & ~(uintptr_t)63), 65536));
    }
    f->x[0] = a;
}
static void post_attr(fctx_t *f)
{
    ABT_thread_attr a = (ABT_thread_attr)f->x[0];
    VRT_ABT(ABT_thread_attr_free(&a));
    if (f->variant == 1)
        free(f->x[1]);
}
static int op_thread_create_attr(fctx_t *f)
{
    H(0, ABT_THREAD_NULL);
    return ABT_thread_create(f->w.p1, inc_fn, &f->ran[0], (ABT_thread_attr)f->x[0], (ABT_thread *)&f->h[0]);
}
static int op_thread_create_on_xstream(fctx_t *f)
{
    H(0, ABT_THREAD_NULL);
    return ABT_thread_create_on_xstream(f->w.xs1, inc_fn, &f->ran[0], ABT_THREAD_ATTR_NULL, (ABT_thread *)&f->h[0]);
}
static int op_thread_create_to(fctx_t *f)
{
    H(0, ABT_THREAD_NULL);
    return ABT_thread_create_to(f->w.p_main, inc_fn, &f->ran[0], ABT_THREAD_ATTR_NULL, (ABT_thread *)&f->h[0]);
}
static void (*g_many_funcs[4])(void *) = { inc_fn, yield_inc_fn, inc_fn, yield_inc_fn };
static int op_thread_create_many(fctx_t *f)
{
    ABT_pool pools[4] = { f->w.p_main, f->w.p1, f->w.p1, f->w.p_main };
    void *args[4] = { &f->ran[0], &f->ran[1], &f->ran[2], &f->ran[3] };
    for (int i = 0; i < 4; i++)
        H(i, ABT_THREAD_NULL);
    return ABT_thread_create_many(4, pools, g_many_funcs, args, ABT_THREAD_ATTR_NULL,
                                  f->variant == 0 ? (ABT_thread *)&f->h[0] : NULL);
}
static void use_many(fctx_t *f)
{
    if (f->variant == 0)
        for (int i = 0; i < 4; i++)
            join_free_thread(f, i);
    expect_ran(f, 4, 1);
}
/* ABT_thread_create_many is documented as having no error handling (it is
 * deprecated for that reason): units created before the failing one stay
 * created.  They are joined and released here and reported as a finding; a
 * handle that is no such unit is a dangling handle. */
static void partial_many(fctx_t *f, const void *snap0)
{
    const snap_t *s0 = (const snap_t *)snap0;
    int n = 0;
    if (f->variant == 0) {
        for (int i = 0; i < 4; i++) {
            if (f->h[i] == SENT || f->h[i] == (void *)ABT_THREAD_NULL)
                continue;
            for (int j = 0; j < i; j++)
                if (f->h[j] == f->h[i]) {
                    vrt_violation(FK("dangling-handle"), "%s: output handles %d and %d are the same (%p): handle %d is "
                                  "not a unit the call created", g_label, j, i, f->h[i], i);
                    return;
                }
            if (i > 0 && f->h[i - 1] == SENT) {
                vrt_violation(FK("dangling-handle"), "%s: output handle %d is set although unit %d was not created", g_label,
                              i, i - 1);
                return;
            }
            n++;
        }
        for (int i = 0; i < n; i++) {
            join_free_thread(f, i);
            f->h[i] = SENT;
        }
    }
    /* wait until the units that were created have gone */
    for (int spin = 0; spin < 1000000; spin++) {
        size_t a = 0, b = 0;
        VRT_ABT(ABT_pool_get_total_size(f->w.p1, &a));
        VRT_ABT(ABT_pool_get_total_size(f->w.p_main, &b));
        if (a == s0->p1_total && b == s0->p_main_total)
            break;
        ABT_thread_yield();
    }
    int ran = 0;
    for (int i = 0; i < 4; i++)
        ran += f->ran[i];
    if (ran > 0 || n > 0)
        vrt_finding(FK("partial-effect"), "%s: the call failed, but %d unit(s) created before the failing one stayed "
                    "created and ran", g_label, ran);
}
static int op_task_create(fctx_t *f)
{
    H(0, ABT_TASK_NULL);
    return ABT_task_create(f->variant == 0 ? f->w.p_main : f->w.p1, inc_fn, &f->ran[0],
                           f->variant == 2 ? NULL : (ABT_task *)&f->h[0]);
}
static void use_task(fctx_t *f)
{
    if (f->variant != 2)
        join_free_thread(f, 0);
    expect_ran(f, 1, 1);
}
static int op_task_create_on_xstream(fctx_t *f)
{
    H(0, ABT_TASK_NULL);
    return ABT_task_create_on_xstream(f->w.xs1, inc_fn, &f->ran[0], (ABT_task *)&f->h[0]);
}
static void pre_done_thread(fctx_t *f)
{
    ABT_thread t;
    if (f->variant == 0)
        VRT_ABT(ABT_thread_create(f->w.p1, inc_fn, &f->ran[1], ABT_THREAD_ATTR_NULL, &t));
    else
        VRT_ABT(ABT_task_create(f->w.p1, inc_fn, &f->ran[1], &t));
    VRT_ABT(ABT_thread_join(t));
    f->x[0] = t;
}
static int op_revive(fctx_t *f)
{
    ABT_thread t = (ABT_thread)f->x[0];
    int rc = f->variant == 0 ? ABT_thread_revive(f->w.p_main, inc_fn, &f->ran[0], &t)
                             : ABT_task_revive(f->w.p_main, inc_fn, &f->ran[0], &t);
    return rc;
}
static void use_revive(fctx_t *f)
{
    ABT_thread t = (ABT_thread)f->x[0];
    VRT_ABT(ABT_thread_join(t));
    expect_ran(f, 1, 1);
}
static void post_done_thread(fctx_t *f)
{
    ABT_thread t = (ABT_thread)f->x[0];
    VRT_ABT(ABT_thread_free(&t));
}
/* creation after b earlier creations whose units are still alive: with small
 * memory-pool pages one of the b hits the allocation of a new page */
#define MAXBURST 12
static ABT_thread g_burst[MAXBURST];
static void pre_burst(fctx_t *f)
{
    int b = f->variant % MAXBURST, kind = f->variant / MAXBURST;
    for (int i = 0; i < b; i++) {
        if (kind == 0)
            VRT_ABT(ABT_thread_create(f->w.p_spare, inc_fn, &f->ran[1], ABT_THREAD_ATTR_NULL, &g_burst[i]));
        else
            VRT_ABT(ABT_task_create(f->w.p_spare, inc_fn, &f->ran[1], &g_burst[i]));
    }
}
static int op_burst(fctx_t *f)
{
    int kind = f->variant / MAXBURST;
    H(0, ABT_THREAD_NULL);
    if (kind == 0)
        return ABT_thread_create(f->w.p1, inc_fn, &f->ran[0], ABT_THREAD_ATTR_NULL, (ABT_thread *)&f->h[0]);
    return ABT_task_create(f->w.p1, inc_fn, &f->ran[0], (ABT_task *)&f->h[0]);
}
static void post_burst(fctx_t *f)
{
    int b = f->variant % MAXBURST;
    for (int i = 0; i < b; i++) {
        ABT_thread popped = ABT_THREAD_NULL;
        VRT_ABT(ABT_pool_pop_thread(f->w.p_spare, &popped));
        VRT_ABT(ABT_pool_push_thread(f->w.p1, popped));
    }
    for (int i = 0; i < b; i++) {
        VRT_ABT(ABT_thread_join(g_burst[i]));
        VRT_ABT(ABT_thread_free(&g_burst[i]));
    }
    VRT_CHECK(f->ran[1] == b, FK("followup"), "%s: %d of %d earlier units ran", g_label, f->ran[1], b);
}
static int op_thread_attr_create(fctx_t *f)
{
    H(0, ABT_THREAD_ATTR_NULL);
    return ABT_thread_attr_create((ABT_thread_attr *)&f->h[0]);
}
static void use_attr(fctx_t *f)
{
    ABT_thread_attr a = (ABT_thread_attr)f->h[0];
    ABT_thread t;
    VRT_ABT(ABT_thread_attr_set_stacksize(a, 40000));
    VRT_ABT(ABT_thread_create(f->w.p1, inc_fn, &f->ran[0], a, &t));
    VRT_ABT(ABT_thread_join(t));
    VRT_ABT(ABT_thread_free(&t));
    VRT_ABT(ABT_thread_attr_free(&a));
}
static int op_thread_get_attr(fctx_t *f)
{
    H(0, ABT_THREAD_ATTR_NULL);
    return ABT_thread_get_attr(f->w.parked, (ABT_thread_attr *)&f->h[0]);
}
static void use_attr_free(fctx_t *f)
{
    ABT_thread_attr a = (ABT_thread_attr)f->h[0];
    size_t sz = 0;
    VRT_ABT(ABT_thread_attr_get_stacksize(a, &sz));
    VRT_CHECK(sz > 0, FK("created-object"), "%s: attribute object reports stack size 0", g_label);
    VRT_ABT(ABT_thread_attr_free(&a));
}

/* --- streams --- */
static int op_xstream_create(fctx_t *f)
{
    H(0, ABT_XSTREAM_NULL);
    switch (f->variant) {
        case 0:
            return ABT_xstream_create(ABT_SCHED_NULL, (ABT_xstream *)&f->h[0]);
        case 1:
            return ABT_xstream_create_basic(ABT_SCHED_BASIC, 1, &f->w.p_spare, ABT_SCHED_CONFIG_NULL, (ABT_xstream *)&f->h[0]);
        case 2:
            return ABT_xstream_create_basic(ABT_SCHED_RANDWS, 0, NULL, ABT_SCHED_CONFIG_NULL, (ABT_xstream *)&f->h[0]);
        default:
            return ABT_xstream_create_with_rank(ABT_SCHED_NULL, 7, (ABT_xstream *)&f->h[0]);
    }
}
static void use_xstream(fctx_t *f)
{
    ABT_xstream xs = (ABT_xstream)f->h[0];
    ABT_thread t;
    VRT_ABT(ABT_thread_create_on_xstream(xs, inc_fn, &f->ran[0], ABT_THREAD_ATTR_NULL, &t));
    VRT_ABT(ABT_thread_join(t));
    VRT_ABT(ABT_thread_free(&t));
    if (f->variant == 3) {
        int rank = -1;
        VRT_ABT(ABT_xstream_get_rank(xs, &rank));
        VRT_CHECK(rank == 7, FK("created-object"), "%s: stream created with rank 7 reports rank %d", g_label, rank);
    }
    VRT_ABT(ABT_xstream_join(xs));
    VRT_ABT(ABT_xstream_free(&xs));
    expect_ran(f, 1, 1);
}
static void pre_sched_for_xs(fctx_t *f)
{
    ABT_sched s;
    VRT_ABT(ABT_sched_create_basic(ABT_SCHED_PRIO, 1, &f->w.p_spare, ABT_SCHED_CONFIG_NULL, &s));
    f->x[0] = s;
}
static int op_xstream_create_sched(fctx_t *f)
{
    H(0, ABT_XSTREAM_NULL);
    return ABT_xstream_create((ABT_sched)f->x[0], (ABT_xstream *)&f->h[0]);
}
static void post_sched_for_xs(fctx_t *f)
{
    /* the scheduler was consumed by the stream that the retry created */
    (void)f;
}
static int op_set_main_sched_basic(fctx_t *f)
{
    ABT_xstream self;
    VRT_ABT(ABT_xstream_self(&self));
    ABT_pool pools[2] = { f->w.p_main, (ABT_pool)f->x[1] };
    if (f->variant == 0)
        return ABT_xstream_set_main_sched_basic(self, ABT_SCHED_PRIO, 2, pools);
    ABT_sched s = (ABT_sched)f->x[0];
    return ABT_xstream_set_main_sched(self, s);
}
static void pre_set_main_sched(fctx_t *f)
{
    /* a second pool for the new main scheduler; automatic: it goes away with
     * that scheduler at ABT_finalize */
    ABT_pool extra;
    VRT_ABT(ABT_pool_create_basic(ABT_POOL_FIFO, ABT_POOL_ACCESS_MPMC, ABT_TRUE, &extra));
    f->x[1] = extra;
    if (f->variant == 1) {
        ABT_sched s;
        ABT_pool pools[2] = { f->w.p_main, extra };
        VRT_ABT(ABT_sched_create_basic(ABT_SCHED_BASIC, 2, pools, ABT_SCHED_CONFIG_NULL, &s));
        f->x[0] = s;
    }
}
static void use_main_sched(fctx_t *f)
{
    ABT_thread t;
    VRT_ABT(ABT_thread_create((ABT_pool)f->x[1], inc_fn, &f->ran[0], ABT_THREAD_ATTR_NULL, &t));
    VRT_ABT(ABT_thread_join(t));
    VRT_ABT(ABT_thread_free(&t));
    expect_ran(f, 1, 1);
}

/* --- schedulers / pools --- */
static int op_sched_create_basic(fctx_t *f)
{
    static const ABT_sched_predef pd[] = { ABT_SCHED_DEFAULT, ABT_SCHED_BASIC, ABT_SCHED_PRIO, ABT_SCHED_RANDWS,
                                           ABT_SCHED_BASIC_WAIT };
    H(0, ABT_SCHED_NULL);
    int v = f->variant;
    if (v < 5)
        return ABT_sched_create_basic(pd[v], 0, NULL, ABT_SCHED_CONFIG_NULL, (ABT_sched *)&f->h[0]);
    ABT_pool pools[2] = { f->w.p_spare, ABT_POOL_NULL };
    return ABT_sched_create_basic(pd[v - 5], 2, pools, (ABT_sched_config)f->x[0], (ABT_sched *)&f->h[0]);
}
static void pre_sched_config(fctx_t *f)
{
    f->x[0] = ABT_SCHED_CONFIG_NULL;
    if (f->variant >= 5) {
        ABT_sched_config c;
        VRT_ABT(ABT_sched_config_create(&c, ABT_sched_basic_freq, 3, ABT_sched_config_automatic, 0, ABT_sched_config_var_end));
        f->x[0] = c;
    }
}
static void post_sched_config(fctx_t *f)
{
    ABT_sched_config c = (ABT_sched_config)f->x[0];
    if (c != ABT_SCHED_CONFIG_NULL)
        VRT_ABT(ABT_sched_config_free(&c));
}
static void use_sched(fctx_t *f)
{
    ABT_sched s = (ABT_sched)f->h[0];
    int n = 0;
    VRT_ABT(ABT_sched_get_num_pools(s, &n));
    VRT_CHECK(n >= 1, FK("created-object"), "%s: created scheduler has %d pools", g_label, n);
    /* run it as the main scheduler of a new stream */
    ABT_pool p;
    VRT_ABT(ABT_sched_get_pools(s, 1, 0, &p));
    ABT_xstream xs;
    VRT_ABT(ABT_xstream_create(s, &xs));
    VRT_ABT(ABT_thread_create(p, inc_fn, &f->ran[0], ABT_THREAD_ATTR_NULL, NULL));
    expect_ran(f, 1, 1);
    VRT_ABT(ABT_xstream_join(xs));
    VRT_ABT(ABT_xstream_free(&xs));
    if (f->variant >= 5)
        VRT_ABT(ABT_sched_free(&s)); /* automatic = 0 */
}
static int us_init(ABT_sched s, ABT_sched_config c)
{
    (void)c;
    void *d = malloc(32);
    if (!d)
        return ABT_ERR_MEM;
    ABT_sched_set_data(s, d);
    return ABT_SUCCESS;
}
static void us_run(ABT_sched s)
{
    ABT_pool p;
    ABT_sched_get_pools(s, 1, 0, &p);
    for (;;) {
        ABT_thread th = ABT_THREAD_NULL;
        ABT_pool_pop_thread(p, &th);
        if (th != ABT_THREAD_NULL)
            ABT_self_schedule(th, ABT_POOL_NULL);
        ABT_bool stop = ABT_FALSE;
        ABT_xstream_check_events(s);
        ABT_sched_has_to_stop(s, &stop);
        if (stop == ABT_TRUE)
            break;
    }
}
static int us_free(ABT_sched s)
{
    void *d = NULL;
    ABT_sched_get_data(s, &d);
    free(d);
    return ABT_SUCCESS;
}
static ABT_sched_def g_us_def = { .type = ABT_SCHED_TYPE_ULT, .init = us_init, .run = us_run, .free = us_free,
                                  .get_migr_pool = NULL };
static int op_sched_create_user(fctx_t *f)
{
    H(0, ABT_SCHED_NULL);
    ABT_pool pools[1] = { f->variant == 0 ? f->w.p_spare : ABT_POOL_NULL };
    return ABT_sched_create(&g_us_def, 1, pools, ABT_SCHED_CONFIG_NULL, (ABT_sched *)&f->h[0]);
}
static void use_sched_user(fctx_t *f)
{
    ABT_sched s = (ABT_sched)f->h[0];
    ABT_pool p;
    VRT_ABT(ABT_sched_get_pools(s, 1, 0, &p));
    ABT_xstream xs;
    VRT_ABT(ABT_xstream_create(s, &xs));
    VRT_ABT(ABT_thread_create(p, inc_fn, &f->ran[0], ABT_THREAD_ATTR_NULL, NULL));
    expect_ran(f, 1, 1);
    VRT_ABT(ABT_xstream_join(xs));
    VRT_ABT(ABT_xstream_free(&xs));
    VRT_ABT(ABT_sched_free(&s));
}
static int op_sched_config_create(fctx_t *f)
{
    H(0, ABT_SCHED_CONFIG_NULL);
    ABT_sched_config_var v1 = { .idx = 0, .type = ABT_SCHED_CONFIG_INT };
    ABT_sched_config_var v2 = { .idx = 5, .type = ABT_SCHED_CONFIG_DOUBLE };
    return ABT_sched_config_create((ABT_sched_config *)&f->h[0], v1, 11, v2, 2.5, ABT_sched_basic_freq, 9,
                                   ABT_sched_config_var_end);
}
static void use_sched_config(fctx_t *f)
{
    ABT_sched_config c = (ABT_sched_config)f->h[0];
    int v = 0;
    VRT_ABT(ABT_sched_config_get(c, 0, NULL, &v));
    VRT_CHECK(v == 11, FK("created-object"), "%s: scheduler config returns %d for index 0", g_label, v);
    VRT_ABT(ABT_sched_config_free(&c));
}
static int op_pool_create_basic(fctx_t *f)
{
    static const ABT_pool_kind k[] = { ABT_POOL_FIFO, ABT_POOL_FIFO_WAIT, ABT_POOL_RANDWS };
    H(0, ABT_POOL_NULL);
    return ABT_pool_create_basic(k[f->variant], ABT_POOL_ACCESS_MPMC, ABT_FALSE, (ABT_pool *)&f->h[0]);
}
static void use_pool(fctx_t *f)
{
    ABT_pool p = (ABT_pool)f->h[0];
    ABT_thread t;
    VRT_ABT(ABT_thread_create(p, inc_fn, &f->ran[0], ABT_THREAD_ATTR_NULL, &t));
    size_t n = 0;
    VRT_ABT(ABT_pool_get_size(p, &n));
    VRT_CHECK(n == 1, FK("created-object"), "%s: created pool reports size %zu after one push", g_label, n);
    ABT_thread popped = ABT_THREAD_NULL;
    VRT_ABT(ABT_pool_pop_thread(p, &popped));
    VRT_CHECK(popped == t, FK("created-object"), "%s: created pool popped another unit", g_label);
    VRT_ABT(ABT_pool_push_thread(f->w.p1, t));
    VRT_ABT(ABT_thread_join(t));
    VRT_ABT(ABT_thread_free(&t));
    VRT_ABT(ABT_pool_free(&p));
    expect_ran(f, 1, 1);
}
/* user-defined pool: a tiny LIFO */
typedef struct uu {
    ABT_thread th;
    struct uu *next;
} uu_t;
typedef struct {
    uu_t *head;
    pthread_spinlock_t lk;
    int units_live;
} up_t;
static up_t g_up;
static ABT_unit up_create_unit(ABT_pool p, ABT_thread th)
{
    (void)p;
    uu_t *u = (uu_t *)malloc(sizeof(uu_t));
    if (!u)
        return ABT_UNIT_NULL;
    u->th = th;
    u->next = NULL;
    __atomic_fetch_add(&g_up.units_live, 1, __ATOMIC_SEQ_CST);
    return (ABT_unit)u;
}
static void up_free_unit(ABT_pool p, ABT_unit u)
{
    (void)p;
    __atomic_fetch_sub(&g_up.units_live, 1, __ATOMIC_SEQ_CST);
    free(u);
}
static ABT_bool up_is_empty(ABT_pool p)
{
    (void)p;
    return __atomic_load_n(&g_up.head, __ATOMIC_SEQ_CST) ? ABT_FALSE : ABT_TRUE;
}
static ABT_thread up_pop(ABT_pool p, ABT_pool_context c)
{
    (void)p;
    (void)c;
    pthread_spin_lock(&g_up.lk);
    uu_t *u = g_up.head;
    if (u)
        g_up.head = u->next;
    pthread_spin_unlock(&g_up.lk);
    return u ? u->th : ABT_THREAD_NULL;
}
static void up_push(ABT_pool p, ABT_unit unit, ABT_pool_context c)
{
    (void)p;
    (void)c;
    uu_t *u = (uu_t *)unit;
    pthread_spin_lock(&g_up.lk);
    u->next = g_up.head;
    g_up.head = u;
    pthread_spin_unlock(&g_up.lk);
}
static int op_pool_user_def_create(fctx_t *f)
{
    H(0, ABT_POOL_USER_DEF_NULL);
    return ABT_pool_user_def_create(up_create_unit, up_free_unit, up_is_empty, up_pop, up_push, (ABT_pool_user_def *)&f->h[0]);
}
static void use_pool_user_def(fctx_t *f)
{
    ABT_pool_user_def d = (ABT_pool_user_def)f->h[0];
    VRT_ABT(ABT_pool_user_def_free(&d));
}
static void pre_user_def(fctx_t *f)
{
    ABT_pool_user_def d;
    VRT_ABT(ABT_pool_user_def_create(up_create_unit, up_free_unit, up_is_empty, up_pop, up_push, &d));
    f->x[0] = d;
    g_up.head = NULL;
    g_up.units_live = 0;
    f->x[1] = ABT_POOL_CONFIG_NULL;
    if (f->variant == 1) {
        ABT_pool_config c;
        VRT_ABT(ABT_pool_config_create(&c));
        const ABT_bool automatic = ABT_FALSE;
        VRT_ABT(ABT_pool_config_set(c, ABT_pool_config_automatic.key, ABT_pool_config_automatic.type, &automatic));
        f->x[1] = c;
    }
}
static void post_user_def(fctx_t *f)
{
    ABT_pool_user_def d = (ABT_pool_user_def)f->x[0];
    VRT_ABT(ABT_pool_user_def_free(&d));
    ABT_pool_config c = (ABT_pool_config)f->x[1];
    if (c != ABT_POOL_CONFIG_NULL)
        VRT_ABT(ABT_pool_config_free(&c));
    VRT_CHECK(g_up.units_live == 0, FK("user-units-left"), "%s: %d user-pool unit objects were never freed", g_label,
              g_up.units_live);
}
static int op_pool_create_user(fctx_t *f)
{
    H(0, ABT_POOL_NULL);
    return ABT_pool_create((ABT_pool_user_def)f->x[0], (ABT_pool_config)f->x[1], (ABT_pool *)&f->h[0]);
}
static void use_user_pool(fctx_t *f)
{
    ABT_pool p = (ABT_pool)f->h[0];
    ABT_thread t;
    VRT_ABT(ABT_thread_create(p, inc_fn, &f->ran[0], ABT_THREAD_ATTR_NULL, &t));
    ABT_thread popped = ABT_THREAD_NULL;
    VRT_ABT(ABT_pool_pop_thread(p, &popped));
    VRT_CHECK(popped == t, FK("created-object"), "%s: created user pool popped another unit", g_label);
    VRT_ABT(ABT_pool_push_thread(f->w.p1, t));
    VRT_ABT(ABT_thread_join(t));
    VRT_ABT(ABT_thread_free(&t));
    VRT_ABT(ABT_pool_free(&p));
    expect_ran(f, 1, 1);
}
static int op_pool_config_create(fctx_t *f)
{
    H(0, ABT_POOL_CONFIG_NULL);
    return ABT_pool_config_create((ABT_pool_config *)&f->h[0]);
}
static void pre_pool_config(fctx_t *f)
{
    ABT_pool_config c;
    VRT_ABT(ABT_pool_config_create(&c));
    f->x[0] = c;
}
static int op_pool_config_set(fctx_t *f)
{
    int v = 77;
    return ABT_pool_config_set((ABT_pool_config)f->x[0], 3 + f->variant * 100, ABT_POOL_CONFIG_INT, &v);
}
static void use_pool_config_set(fctx_t *f)
{
    int v = 0;
    VRT_ABT(ABT_pool_config_get((ABT_pool_config)f->x[0], 3 + f->variant * 100, NULL, &v));
    VRT_CHECK(v == 77, FK("created-object"), "%s: pool config returns %d", g_label, v);
}
static void post_pool_config(fctx_t *f)
{
    ABT_pool_config c = (ABT_pool_config)f->x[0];
    VRT_ABT(ABT_pool_config_free(&c));
}
static void use_pool_config(fctx_t *f)
{
    ABT_pool_config c = (ABT_pool_config)f->h[0];
    VRT_ABT(ABT_pool_config_free(&c));
}
/* units that enter a user pool: unit map entries */
static void pre_user_pool(fctx_t *f)
{
    int v = f->variant;
    f->variant = 0;
    pre_user_def(f);
    f->variant = v;
    ABT_pool p;
    VRT_ABT(ABT_pool_create((ABT_pool_user_def)f->x[0], ABT_POOL_CONFIG_NULL, &p));
    f->x[2] = p;
    f->x[3] = NULL;
    if (f->variant >= 1) {
        /* a ULT living in a built-in pool that is going to be moved */
        ABT_thread t, popped = ABT_THREAD_NULL;
        VRT_ABT(ABT_thread_create(f->w.p_spare, f->variant == 2 ? yield_inc_fn : inc_fn, &f->ran[0], ABT_THREAD_ATTR_NULL, &t));
        f->x[3] = t;
        if (f->variant == 1) {
            /* take it out of the built-in pool; the call under test pushes it
             * to the user pool */
            VRT_ABT(ABT_pool_pop_thread(f->w.p_spare, &popped));
            VRT_CHECK(popped == t, FK("scenario"), "%s: unexpected unit in the spare pool", g_label);
        }
    }
}
static int op_into_user_pool(fctx_t *f)
{
    ABT_pool p = (ABT_pool)f->x[2];
    if (f->variant == 0) {
        H(0, ABT_THREAD_NULL);
        return ABT_thread_create(p, inc_fn, &f->ran[0], ABT_THREAD_ATTR_NULL, (ABT_thread *)&f->h[0]);
    }
    ABT_thread t = (ABT_thread)f->x[3];
    if (f->variant == 1)
        return ABT_pool_push_thread(p, t);
    /* migration request: allocates the migration record */
    return ABT_thread_migrate_to_pool(t, p);
}
static void use_into_user_pool(fctx_t *f)
{
    ABT_pool p = (ABT_pool)f->x[2];
    ABT_thread t = f->variant == 0 ? (ABT_thread)f->h[0] : (ABT_thread)f->x[3];
    if (f->variant == 2) {
        /* nobody schedules the spare pool: hand the unit to the second stream;
         * at its yield the request moves it into the user pool, from where it
         * is handed to the second stream again */
        ABT_thread popped = ABT_THREAD_NULL;
        VRT_ABT(ABT_pool_pop_thread(f->w.p_spare, &popped));
        VRT_CHECK(popped == t, FK("scenario"), "%s: unexpected unit in the spare pool", g_label);
        VRT_ABT(ABT_pool_push_thread(f->w.p1, t));
        vrt_call_begin("wait for the migrated unit to arrive in the user pool");
        while (up_is_empty(p) == ABT_TRUE)
            ABT_thread_yield();
        vrt_call_end();
        popped = ABT_THREAD_NULL;
        VRT_ABT(ABT_pool_pop_thread(p, &popped));
        VRT_CHECK(popped == t, FK("created-object"), "%s: the user pool popped another unit", g_label);
        VRT_ABT(ABT_pool_push_thread(f->w.p1, t));
    } else {
        ABT_thread popped = ABT_THREAD_NULL;
        VRT_ABT(ABT_pool_pop_thread(p, &popped));
        VRT_CHECK(popped == t, FK("created-object"), "%s: the user pool popped another unit", g_label);
        VRT_ABT(ABT_pool_push_thread(f->w.p1, t));
    }
    VRT_ABT(ABT_thread_join(t));
    VRT_ABT(ABT_thread_free(&t));
    expect_ran(f, 1, 1);
}
static void post_user_pool(fctx_t *f)
{
    ABT_pool p = (ABT_pool)f->x[2];
    VRT_ABT(ABT_pool_free(&p));
    int v = f->variant;
    f->variant = 0;
    post_user_def(f);
    f->variant = v;
}
/* revive of a terminated unit into a user-defined pool (a new unit object and a
 * unit-map entry are needed) */
static void pre_revive_user(fctx_t *f)
{
    int v = f->variant;
    f->variant = 0;
    pre_user_def(f);
    f->variant = v;
    ABT_pool p;
    VRT_ABT(ABT_pool_create((ABT_pool_user_def)f->x[0], ABT_POOL_CONFIG_NULL, &p));
    f->x[2] = p;
    ABT_thread t;
    if (f->variant == 0)
        VRT_ABT(ABT_thread_create(f->w.p1, inc_fn, &f->ran[1], ABT_THREAD_ATTR_NULL, &t));
    else
        VRT_ABT(ABT_task_create(f->w.p1, inc_fn, &f->ran[1], &t));
    VRT_ABT(ABT_thread_join(t));
    f->x[3] = t;
}
static int op_revive_user(fctx_t *f)
{
    ABT_thread t = (ABT_thread)f->x[3];
    ABT_pool p = (ABT_pool)f->x[2];
    return f->variant == 0 ? ABT_thread_revive(p, inc_fn, &f->ran[0], &t) : ABT_task_revive(p, inc_fn, &f->ran[0], &t);
}
static void after_fail_revive_user(fctx_t *f)
{
    ABT_thread t = (ABT_thread)f->x[3];
    ABT_thread_state st;
    VRT_ABT(ABT_thread_get_state(t, &st));
    VRT_CHECK(st == ABT_THREAD_STATE_TERMINATED, FK("object-changed"),
              "%s: the revive failed, but the unit is in state %d (it was TERMINATED)", g_label, (int)st);
    VRT_CHECK(up_is_empty((ABT_pool)f->x[2]) == ABT_TRUE, FK("object-changed"), "%s: the revive failed, but the user pool is "
              "not empty", g_label);
}
static void use_revive_user(fctx_t *f)
{
    ABT_thread t = (ABT_thread)f->x[3], popped = ABT_THREAD_NULL;
    ABT_pool p = (ABT_pool)f->x[2];
    VRT_ABT(ABT_pool_pop_thread(p, &popped));
    VRT_CHECK(popped == t, FK("created-object"), "%s: the user pool does not hold the revived unit", g_label);
    if (popped == t) {
        VRT_ABT(ABT_pool_push_thread(f->w.p1, t));
        vrt_call_begin("join of the revived unit");
        VRT_ABT(ABT_thread_join(t));
        vrt_call_end();
        expect_ran(f, 1, 1);
    }
}
static void post_revive_user(fctx_t *f)
{
    ABT_thread t = (ABT_thread)f->x[3];
    ABT_pool p = (ABT_pool)f->x[2];
    VRT_ABT(ABT_thread_free(&t));
    VRT_ABT(ABT_pool_free(&p));
    int v = f->variant;
    f->variant = 0;
    post_user_def(f);
    f->variant = v;
}
static int op_pool_add_sched(fctx_t *f)
{
    return ABT_pool_add_sched(f->w.p1, (ABT_sched)f->x[0]);
}
static void pre_add_sched(fctx_t *f)
{
    ABT_sched s;
    ABT_pool p;
    VRT_ABT(ABT_pool_create_basic(ABT_POOL_FIFO, ABT_POOL_ACCESS_MPMC, ABT_TRUE, &p));
    VRT_ABT(ABT_thread_create(p, inc_fn, &f->ran[0], ABT_THREAD_ATTR_NULL, NULL));
    VRT_ABT(ABT_sched_create_basic(ABT_SCHED_BASIC, 1, &p, ABT_SCHED_CONFIG_NULL, &s));
    f->x[0] = s;
}
static void use_add_sched(fctx_t *f)
{
    expect_ran(f, 1, 1);
}

/* --- sync objects, keys, timers --- */
static int op_sync_create(fctx_t *f)
{
    switch (f->variant) {
        case 0:
            H(0, ABT_MUTEX_NULL);
            return ABT_mutex_create((ABT_mutex *)&f->h[0]);
        case 1:
            H(0, ABT_MUTEX_ATTR_NULL);
            return ABT_mutex_attr_create((ABT_mutex_attr *)&f->h[0]);
        case 2:
            H(0, ABT_COND_NULL);
            return ABT_cond_create((ABT_cond *)&f->h[0]);
        case 3:
            H(0, ABT_RWLOCK_NULL);
            return ABT_rwlock_create((ABT_rwlock *)&f->h[0]);
        case 4:
            H(0, ABT_EVENTUAL_NULL);
            return ABT_eventual_create(0, (ABT_eventual *)&f->h[0]);
        case 5:
            H(0, ABT_EVENTUAL_NULL);
            return ABT_eventual_create(24, (ABT_eventual *)&f->h[0]);
        case 6:
            H(0, ABT_FUTURE_NULL);
            return ABT_future_create(3, NULL, (ABT_future *)&f->h[0]);
        case 7:
            H(0, ABT_BARRIER_NULL);
            return ABT_barrier_create(2, (ABT_barrier *)&f->h[0]);
        case 8:
            H(0, ABT_XSTREAM_BARRIER_NULL);
            return ABT_xstream_barrier_create(1, (ABT_xstream_barrier *)&f->h[0]);
        case 9:
            H(0, ABT_TIMER_NULL);
            return ABT_timer_create((ABT_timer *)&f->h[0]);
        case 10:
            H(0, ABT_KEY_NULL);
            return ABT_key_create(NULL, (ABT_key *)&f->h[0]);
        default: {
            H(0, ABT_MUTEX_NULL);
            ABT_mutex_attr a;
            int rc = ABT_mutex_attr_create(&a);
            if (rc != ABT_SUCCESS)
                return rc;
            VRT_ABT(ABT_mutex_attr_set_recursive(a, ABT_TRUE));
            rc = ABT_mutex_create_with_attr(a, (ABT_mutex *)&f->h[0]);
            VRT_ABT(ABT_mutex_attr_free(&a));
            return rc;
        }
    }
}
static void use_sync(fctx_t *f)
{
    void *h = f->h[0];
    switch (f->variant) {
        case 0:
        case 11: {
            ABT_mutex m = (ABT_mutex)h;
            VRT_ABT(ABT_mutex_lock(m));
            if (f->variant == 11) {
                VRT_ABT(ABT_mutex_lock(m));
                VRT_ABT(ABT_mutex_unlock(m));
            }
            VRT_ABT(ABT_mutex_unlock(m));
            VRT_ABT(ABT_mutex_free(&m));
            break;
        }
        case 1: {
            ABT_mutex_attr a = (ABT_mutex_attr)h;
            VRT_ABT(ABT_mutex_attr_free(&a));
            break;
        }
        case 2: {
            ABT_cond c = (ABT_cond)h;
            VRT_ABT(ABT_cond_signal(c));
            VRT_ABT(ABT_cond_free(&c));
            break;
        }
        case 3: {
            ABT_rwlock l = (ABT_rwlock)h;
            VRT_ABT(ABT_rwlock_rdlock(l));
            VRT_ABT(ABT_rwlock_unlock(l));
            VRT_ABT(ABT_rwlock_free(&l));
            break;
        }
        case 4:
        case 5: {
            ABT_eventual e = (ABT_eventual)h;
            char buf[24] = "0123456789abcdefghijklm";
            void *out = NULL;
            VRT_ABT(ABT_eventual_set(e, f->variant == 5 ? buf : NULL, f->variant == 5 ? 24 : 0));
            VRT_ABT(ABT_eventual_wait(e, &out));
            if (f->variant == 5)
                VRT_CHECK(out && !memcmp(out, buf, 24), FK("created-object"), "%s: eventual value differs", g_label);
            VRT_ABT(ABT_eventual_free(&e));
            break;
        }
        case 6: {
            ABT_future fu = (ABT_future)h;
            int a = 1, b = 2, c = 3;
            VRT_ABT(ABT_future_set(fu, &a));
            VRT_ABT(ABT_future_set(fu, &b));
            VRT_ABT(ABT_future_set(fu, &c));
            VRT_ABT(ABT_future_wait(fu));
            VRT_ABT(ABT_future_free(&fu));
            break;
        }
        case 7: {
            ABT_barrier b = (ABT_barrier)h;
            ABT_thread t;
            VRT_ABT(ABT_thread_create(f->w.p1, (void (*)(void *))ABT_barrier_wait, b, ABT_THREAD_ATTR_NULL, &t));
            VRT_ABT(ABT_barrier_wait(b));
            VRT_ABT(ABT_thread_join(t));
            VRT_ABT(ABT_thread_free(&t));
            VRT_ABT(ABT_barrier_free(&b));
            break;
        }
        case 8: {
            ABT_xstream_barrier b = (ABT_xstream_barrier)h;
            VRT_ABT(ABT_xstream_barrier_wait(b));
            VRT_ABT(ABT_xstream_barrier_free(&b));
            break;
        }
        case 9: {
            ABT_timer t = (ABT_timer)h;
            double s = -1;
            VRT_ABT(ABT_timer_start(t));
            VRT_ABT(ABT_timer_stop(t));
            VRT_ABT(ABT_timer_read(t, &s));
            VRT_CHECK(s >= 0, FK("created-object"), "%s: timer read %f", g_label, s);
            VRT_ABT(ABT_timer_free(&t));
            break;
        }
        case 10: {
            ABT_key k = (ABT_key)h;
            int v = 5;
            void *out = NULL;
            VRT_ABT(ABT_key_set(k, &v));
            VRT_ABT(ABT_key_get(k, &out));
            VRT_CHECK(out == &v, FK("created-object"), "%s: new key returns another value", g_label);
            VRT_ABT(ABT_key_free(&k));
            break;
        }
    }
}
/* key tables */
#define NKEYS 200
static ABT_key g_keys[NKEYS];
static void keyholder_fn(void *arg)
{
    fctx_t *f = (fctx_t *)arg;
    /* x[5]: 0 -> wait; the key table of this running unit is created by
     * somebody else meanwhile */
    while (!__atomic_load_n(&f->x[5], __ATOMIC_SEQ_CST))
        ABT_thread_yield();
    void *v = NULL;
    ABT_key_get((ABT_key)f->x[0], &v);
    f->x[6] = v;
    __atomic_fetch_add(&f->ran[0], 1, __ATOMIC_SEQ_CST);
}
static void pre_key(fctx_t *f)
{
    ABT_key k;
    VRT_ABT(ABT_key_create(NULL, &k));
    f->x[0] = k;
    f->x[5] = NULL;
    f->x[6] = NULL;
    if (f->variant == 1 || f->variant == 2) {
        ABT_thread t;
        VRT_ABT(ABT_thread_create(f->variant == 1 ? f->w.p1 : f->w.p_spare, keyholder_fn, f, ABT_THREAD_ATTR_NULL, &t));
        f->x[1] = t;
    }
    if (f->variant == 3) {
        /* many keys so that the table of the primary ULT needs more blocks */
        for (int i = 0; i < NKEYS; i++)
            VRT_ABT(ABT_key_create(NULL, &g_keys[i]));
    }
}
static int g_keyval = 99;
static int op_key_set(fctx_t *f)
{
    ABT_key k = (ABT_key)f->x[0];
    if (f->variant == 0)
        return ABT_key_set(k, &g_keyval); /* first value of a new key of the caller */
    if (f->variant == 3) {
        for (int i = 0; i < NKEYS; i++) {
            int rc = ABT_key_set(g_keys[i], &g_keyval);
            if (rc != ABT_SUCCESS)
                return rc;
        }
        return ABT_key_set(k, &g_keyval);
    }
    return ABT_thread_set_specific((ABT_thread)f->x[1], k, &g_keyval);
}
static void use_key(fctx_t *f)
{
    ABT_key k = (ABT_key)f->x[0];
    void *v = NULL;
    if (f->variant == 0 || f->variant == 3) {
        VRT_ABT(ABT_key_get(k, &v));
        VRT_CHECK(v == &g_keyval, FK("created-object"), "%s: key value not stored", g_label);
    } else {
        ABT_thread t = (ABT_thread)f->x[1];
        VRT_ABT(ABT_thread_get_specific(t, k, &v));
        VRT_CHECK(v == &g_keyval, FK("created-object"), "%s: key value of another unit not stored", g_label);
    }
}
static void post_key(fctx_t *f)
{
    ABT_key k = (ABT_key)f->x[0];
    if (f->variant == 1 || f->variant == 2) {
        ABT_thread t = (ABT_thread)f->x[1];
        if (f->variant == 2) {
            ABT_thread popped = ABT_THREAD_NULL;
            VRT_ABT(ABT_pool_pop_thread(f->w.p_spare, &popped));
            VRT_CHECK(popped == t, FK("scenario"), "%s: unexpected unit in the spare pool", g_label);
            VRT_ABT(ABT_pool_push_thread(f->w.p1, t));
        }
        __atomic_store_n(&f->x[5], (void *)1, __ATOMIC_SEQ_CST);
        VRT_ABT(ABT_thread_join(t));
        VRT_ABT(ABT_thread_free(&t));
        VRT_CHECK(f->x[6] == &g_keyval, FK("created-object"), "%s: the unit itself reads another key value", g_label);
    }
    if (f->variant == 3)
        for (int i = 0; i < NKEYS; i++)
            VRT_ABT(ABT_key_free(&g_keys[i]));
    VRT_ABT(ABT_key_free(&k));
}
/* migration record */
static void mig_cb(ABT_thread t, void *arg)
{
    (void)t;
    __atomic_fetch_add((int *)arg, 1, __ATOMIC_SEQ_CST);
}
static void pre_mig(fctx_t *f)
{
    ABT_thread t;
    VRT_ABT(ABT_thread_create(f->w.p_spare, yield_inc_fn, &f->ran[0], ABT_THREAD_ATTR_NULL, &t));
    f->x[0] = t;
}
static int op_mig(fctx_t *f)
{
    ABT_thread t = (ABT_thread)f->x[0];
    if (f->variant == 0)
        return ABT_thread_set_callback(t, mig_cb, &f->ran[1]);
    if (f->variant == 1)
        return ABT_thread_migrate_to_pool(t, f->w.p1);
    return ABT_thread_migrate_to_xstream(t, f->w.xs1);
}
static void use_mig(fctx_t *f)
{
    ABT_thread t = (ABT_thread)f->x[0], popped = ABT_THREAD_NULL;
    if (f->variant == 0)
        VRT_ABT(ABT_thread_migrate_to_pool(t, f->w.p1));
    /* nobody schedules the spare pool: run the unit once on the primary
     * stream; the request is handled there */
    VRT_ABT(ABT_pool_pop_thread(f->w.p_spare, &popped));
    VRT_CHECK(popped == t, FK("scenario"), "%s: unexpected unit in the spare pool", g_label);
    VRT_ABT(ABT_pool_push_thread(f->w.p_main, t));
    VRT_ABT(ABT_thread_join(t));
    expect_ran(f, 1, 1);
    if (f->variant == 0)
        VRT_CHECK(f->ran[1] == 1, FK("created-object"), "%s: migration callback ran %d times", g_label, f->ran[1]);
    VRT_ABT(ABT_thread_free(&t));
}

static int op_init(fctx_t *f)
{
    (void)f;
    return ABT_init(0, NULL);
}

static const scen_t g_scen[] = {
    { "init", "ABT_init", NULL, op_init, NULL, NULL, 1, 0 },
    { "thread_create", "thread_create(named)", NULL, op_thread_create, use_thread1, NULL, 0, 2 },
    { "thread_create_unnamed", "thread_create(unnamed)", NULL, op_thread_create_unnamed, use_unnamed, NULL, 0, 2 },
    { "thread_create_attr", "thread_create(attr:stacksize|user stack)", pre_attr, op_thread_create_attr, use_thread1, post_attr, 0, 2 },
    { "thread_create_on_xstream", "thread_create_on_xstream", NULL, op_thread_create_on_xstream, use_thread1, NULL, 0, 0 },
    { "thread_create_to", "thread_create_to", NULL, op_thread_create_to, use_thread1, NULL, 0, 0 },
    { "thread_create_many", "thread_create_many(named|unnamed)", NULL, op_thread_create_many, use_many, NULL, 0, 2,
      partial_many },
    { "task_create", "task_create(main pool|other pool|unnamed)", NULL, op_task_create, use_task, NULL, 0, 3 },
    { "task_create_on_xstream", "task_create_on_xstream", NULL, op_task_create_on_xstream, use_thread1, NULL, 0, 0 },
    { "revive", "revive(thread|task)", pre_done_thread, op_revive, use_revive, post_done_thread, 0, 2 },
    { "create_after_burst", "creation with b=0..11 live earlier units (ULT b | tasklet b)", pre_burst, op_burst, use_thread1, post_burst, 0,
      2 * MAXBURST },
    { "thread_attr_create", "thread_attr_create", NULL, op_thread_attr_create, use_attr, NULL, 0, 0 },
    { "thread_get_attr", "thread_get_attr", NULL, op_thread_get_attr, use_attr_free, NULL, 0, 0 },
    { "xstream_create", "xstream_create(default|basic+pool|randws auto pools|with_rank)", NULL, op_xstream_create, use_xstream, NULL, 0, 4 },
    { "xstream_create_sched", "xstream_create(user sched)", pre_sched_for_xs, op_xstream_create_sched, use_xstream, post_sched_for_xs, 0, 0 },
    { "set_main_sched", "set_main_sched(basic|sched) on the running primary stream", pre_set_main_sched, op_set_main_sched_basic, use_main_sched,
      NULL, 0, 2 },
    { "sched_create_basic", "sched_create_basic(5 kinds auto pools|5 kinds given+auto pool, config)", pre_sched_config, op_sched_create_basic,
      use_sched, post_sched_config, 0, 10 },
    { "sched_create", "sched_create(user def, given|auto pool)", NULL, op_sched_create_user, use_sched_user, NULL, 0, 2 },
    { "sched_config_create", "sched_config_create", NULL, op_sched_config_create, use_sched_config, NULL, 0, 0 },
    { "pool_create_basic", "pool_create_basic(fifo|fifo_wait|randws)", NULL, op_pool_create_basic, use_pool, NULL, 0, 3 },
    { "pool_user_def_create", "pool_user_def_create", NULL, op_pool_user_def_create, use_pool_user_def, NULL, 0, 0 },
    { "pool_create", "pool_create(user def; default|config)", pre_user_def, op_pool_create_user, use_user_pool, post_user_def, 0, 2 },
    { "pool_config_create", "pool_config_create", NULL, op_pool_config_create, use_pool_config, NULL, 0, 0 },
    { "pool_config_set", "pool_config_set", pre_pool_config, op_pool_config_set, use_pool_config_set, post_pool_config, 0, 2 },
    { "unit_into_user_pool", "unit enters a user pool(create|push_thread|migrate request)", pre_user_pool, op_into_user_pool, use_into_user_pool,
      post_user_pool, 0, 3 },
    { "revive_into_user_pool", "revive of a terminated unit into a user-defined pool(thread|task)", pre_revive_user,
      op_revive_user, use_revive_user, post_revive_user, 0, 2, NULL, after_fail_revive_user },
    { "pool_add_sched", "pool_add_sched", pre_add_sched, op_pool_add_sched, use_add_sched, NULL, 0, 0 },
    { "sync_create", "sync object create(mutex|mutex_attr|cond|rwlock|eventual0|eventual24|future|barrier|xstream_barrier|timer|key|"
      "mutex_with_attr)", NULL, op_sync_create, use_sync, NULL, 0, 12 },
    { "key_set", "key value(self first set|running unit on other stream|unstarted unit|self, table grows)", pre_key, op_key_set, use_key,
      post_key, 0, 4 },
    { "migration_record", "migration record(set_callback|migrate_to_pool|migrate_to_xstream)", pre_mig, op_mig, use_mig, NULL, 0, 3 },
};
#define NSCEN ((int)(sizeof(g_scen) / sizeof(g_scen[0])))

static void handles_preset(fctx_t *f)
{
    for (int i = 0; i < MAXH; i++) {
        f->h[i] = SENT;
        f->hnull[i] = NULL;
    }
    f->nh = 0;
}
static void handles_check_after_failure(fctx_t *f)
{
    for (int i = 0; i < f->nh; i++)
        if (f->h[i] != SENT && f->h[i] != f->hnull[i])
            vrt_violation(FK("dangling-handle"),
                          "%s: the call failed but output handle %d is %p (neither untouched nor the NULL handle %p)", g_label,
                          i, f->h[i], f->hnull[i]);
}

static void ledger_compare(const aw_ledger_t *a, const aw_ledger_t *b, const char *when)
{
    if (a->live_heap != b->live_heap || a->live_mmap != b->live_mmap)
        vrt_violation(FK("leak"), "%s: %s: %lld heap blocks and %lld mappings are left behind", g_label, when,
                      (long long)(b->live_heap - a->live_heap), (long long)(b->live_mmap - a->live_mmap));
}

/* one cycle; k = 0 counts.  Returns the number of allocation calls seen
 * inside the routine. */
static int cycle(const scen_t *sc, int variant, int k, int *p_fired)
{
    fctx_t *f = &F;
    memset(f, 0, sizeof(*f));
    f->variant = variant;
    g_id = sc->id;
    snprintf(g_label, sizeof(g_label), "%s[variant %d] with allocation #%d failing", sc->id, variant, k);
    vrt_crash_label(g_label);
    aw_ledger_t l0, l1, lf;
    aw_ledger(&l0);
    int fired = 0, calls, rc;
    const char *which = "";
    if (sc->no_world) {
        aw_arm(k);
        rc = ABT_init(0, NULL);
        calls = aw_disarm(&fired, &which);
        if (fired && rc != ABT_SUCCESS) {
            vrt_count(c_clean_fail, 1);
            aw_ledger(&lf);
            ledger_compare(&l0, &lf, "right after the failed ABT_init");
            VRT_CHECK(ABT_initialized() == ABT_ERR_UNINITIALIZED, FK("init-state"),
                      "%s: ABT_initialized() does not report an uninitialised runtime", g_label);
            rc = ABT_init(0, NULL);
            VRT_CHECK(rc == ABT_SUCCESS, FK("retry-failed"), "%s: ABT_init without a fault returned %d", g_label, rc);
            vrt_count(c_retries_ok, 1);
        } else if (fired) {
            vrt_count(c_tolerated, 1);
            vrt_note(g_label, "succeeded although %s failed (fallback)", which);
        } else if (rc != ABT_SUCCESS) {
            vrt_violation(FK("unprovoked-error"), "%s: returned %d without a fault", g_label, rc);
        }
        if (vrt_num_violations())
            return calls;
        world_setup(&f->w);
    } else {
        VRT_ABT(ABT_init(0, NULL));
        world_setup(&f->w);
        if (sc->pre)
            sc->pre(f);
        snap_t s0, s1;
        world_snapshot(&f->w, &s0);
        handles_preset(f);
        vrt_call_begin("the routine under test (with the injected failure)");
        aw_arm(k);
        rc = sc->op(f);
        calls = aw_disarm(&fired, &which);
        vrt_call_end();
        if (fired && rc != ABT_SUCCESS) {
            vrt_count(c_clean_fail, 1);
            if (sc->partial)
                sc->partial(f, &s0);
            if (vrt_num_violations())
                return calls;
            handles_check_after_failure(f);
            if (sc->after_fail)
                sc->after_fail(f);
            world_snapshot(&f->w, &s1);
            snap_compare(&s0, &s1);
            if (vrt_num_violations())
                return calls;
            handles_preset(f);
            memset(f->ran, 0, sizeof(f->ran));
            vrt_call_begin("the same routine again, without a failure");
            rc = sc->op(f);
            vrt_call_end();
            VRT_CHECK(rc == ABT_SUCCESS, FK("retry-failed"), "%s: the same call without a fault returned %d", g_label, rc);
            if (vrt_num_violations())
                return calls;
            vrt_count(c_retries_ok, 1);
        } else if (fired) {
            vrt_count(c_tolerated, 1);
            vrt_note(sc->name, "variant %d: succeeded although allocation #%d (%s) failed", variant, k, which);
        } else if (rc != ABT_SUCCESS) {
            vrt_violation(FK("unprovoked-error"), "%s: returned %d without a fault", g_label, rc);
            return calls;
        }
        if (sc->use_undo)
            sc->use_undo(f);
        if (vrt_num_violations())
            return calls;
        if (sc->post)
            sc->post(f);
    }
    if (fired)
        count_which(which);
    world_followup(&f->w);
    if (vrt_num_violations())
        return calls;
    world_teardown(&f->w);
    VRT_ABT(ABT_finalize());
    aw_ledger(&l1);
    ledger_compare(&l0, &l1, "after ABT_finalize");
    *p_fired = fired;
    vrt_count(c_cases, 1);
    if (fired)
        vrt_count(c_fault_cases, 1);
    return calls;
}

int main(int argc, char **argv)
{
    vrt_init(argc, argv, "h_fault");
    const char *only = vrt_arg("only", "");
    int part = (int)vrt_arg_int("part", 0), parts = (int)vrt_arg_int("parts", 1);
    int stride = (int)vrt_arg_int("stride", 1); /* quick tier: every stride-th k, rotated by the seed */
    c_cases = vrt_counter("cases");
    vrt_counter("distinct_nontrivial");
    c_fault_cases = vrt_counter("cycles_with_a_delivered_fault");
    c_clean_fail = vrt_counter("calls_failed_cleanly");
    c_tolerated = vrt_counter("faults_tolerated_by_fallback");
    c_scenarios = vrt_counter("scenario_variants");
    c_alloc_sites = vrt_counter("allocation_calls_enumerated");
    c_retries_ok = vrt_counter("retries_succeeded");
    c_followups = vrt_counter("followup_workloads");
    c_unfaultable = vrt_counter("scenario_variants_without_allocation");
    for (int i = 0; i < 9; i++) {
        char nm[64];
        snprintf(nm, sizeof(nm), "failed_%s", which_names[i]);
        c_which[i] = vrt_counter(nm);
    }
    pthread_spin_init(&g_up.lk, 0);
    vrt_supervisor_start();
    /* absorb one-time allocations (stdio buffers, TLS) before any ledger */
    {
        int fired = 0;
        cycle(&g_scen[1], 0, 0, &fired);
    }
    int idx = 0, nsamples = 0;
    for (int s = 0; s < NSCEN && vrt_num_violations() == 0; s++) {
        const scen_t *sc = &g_scen[s];
        if (only[0] && !strstr(sc->name, only))
            continue;
        int nv = sc->variants ? sc->variants : 1;
        for (int v = 0; v < nv && vrt_num_violations() == 0; v++, idx++) {
            if (idx % parts != part)
                continue;
            int fired = 0;
            int n = cycle(sc, v, 0, &fired);
            if (vrt_num_violations())
                break;
            vrt_count(c_scenarios, 1);
            if (n == 0)
                vrt_count(c_unfaultable, 1);
            int done = 0;
            int off = stride > 1 ? (int)((vrt_seed + (uint64_t)idx) % (uint64_t)stride) : 0;
            for (int k = 1 + off; k <= n && vrt_num_violations() == 0; k += stride) {
                cycle(sc, v, k, &fired);
                vrt_count(c_alloc_sites, 1);
                done++;
            }
            vrt_signature_add("%d.%d:n%d", s, v, n);
            if (nsamples < 4 && n > 0) {
                vrt_sample("%s [variant %d]: %d allocation-class calls inside the routine, %d of them failed one at a time "
                           "(full cycle each: init, world, failing call, retry, use, follow-up workload, finalize, ledger)",
                           sc->name, v, n, done);
                nsamples++;
            }
        }
    }
    return vrt_finish("fault");
}
