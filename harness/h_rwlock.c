/* C10: reader-writer lock: writers exclusive, readers shared, nobody stuck.
 *
 * Oracle: atomics readers/writers updated right after an acquiring call returns
 * and right before the releasing call; writer => writers==1 && readers==0,
 * reader => writers==0.  A plain counter is written under the write lock and
 * read under the read lock (TSan sees a race if exclusion breaks).  Reader
 * inclusion is decided without timing in a scripted phase: R1 keeps the read
 * lock until R2 is inside the read lock too; if R2 blocked, everybody is
 * blocked -> logical deadlock.  Progress: logical-deadlock rule. */
#include "actors.h"

#define MAXA 40

typedef struct {
    ABT_rwlock l;
    int readers, writers; /* atomic */
    long plain;           /* written under wrlock, read under rdlock */
    uint64_t wr_acq;      /* atomic */
    int iters;
    int write_pct;
    /* scripted inclusion */
    int r1_in, r2_in, release; /* atomic */
    int max_readers;      /* atomic: maximum concurrent readers seen */
} rctx_t;

static int c_cases, c_rd, c_wr, c_task_rejected, c_incl, c_shared_readers,
    c_cs_yield;

static void rw_body(actor_t *a)
{
    rctx_t *c = (rctx_t *)a->ctx;
    for (int it = 0; it < c->iters && vrt_num_violations() == 0; it++) {
        int wr = (int)vrt_range(&a->rng, 100) < c->write_pct;
        vrt_actor_set(a->vid, VRT_A_BLOCKED, wr ? "wrlock" : "rdlock");
        int rc = wr ? ABT_rwlock_wrlock(c->l) : ABT_rwlock_rdlock(c->l);
        vrt_actor_set(a->vid, VRT_A_RUNNING, "cs");
        if (a->kind == ACT_TASK && rc == ABT_ERR_RWLOCK) {
            vrt_count(c_task_rejected, 1);
            return;
        }
        if (rc != ABT_SUCCESS) {
            vrt_violation("rwlock:lock-rc", "%s returned %d",
                          wr ? "wrlock" : "rdlock", rc);
            return;
        }
        if (wr) {
            int w = __atomic_add_fetch(&c->writers, 1, __ATOMIC_SEQ_CST);
            int rd = __atomic_load_n(&c->readers, __ATOMIC_SEQ_CST);
            if (w != 1 || rd != 0)
                vrt_violation("rwlock:writer-not-exclusive",
                              "actor %d(%s) holds the write lock with %d "
                              "writers and %d readers inside",
                              a->idx, act_kind_name[a->kind], w, rd);
            c->plain++;
            __atomic_fetch_add(&c->wr_acq, 1, __ATOMIC_RELAXED);
            vrt_count(c_wr, 1);
        } else {
            int rd = __atomic_add_fetch(&c->readers, 1, __ATOMIC_SEQ_CST);
            int w = __atomic_load_n(&c->writers, __ATOMIC_SEQ_CST);
            if (w != 0)
                vrt_violation("rwlock:reader-with-writer",
                              "actor %d(%s) holds the read lock while %d writer "
                              "is inside",
                              a->idx, act_kind_name[a->kind], w);
            long v = *(volatile long *)&c->plain;
            (void)v;
            int mx = __atomic_load_n(&c->max_readers, __ATOMIC_RELAXED);
            while (rd > mx &&
                   !__atomic_compare_exchange_n(&c->max_readers, &mx, rd, 0,
                                                __ATOMIC_RELAXED,
                                                __ATOMIC_RELAXED))
                ;
            if (rd > 1)
                vrt_count(c_shared_readers, 1);
            vrt_count(c_rd, 1);
        }
        unsigned k = (unsigned)vrt_range(&a->rng, 8);
        if (k == 0 && a->kind == ACT_ULT) {
            vrt_count(c_cs_yield, 1);
            ABT_thread_yield();
        } else if (k < 3) {
            unsigned n = (unsigned)vrt_range(&a->rng, 300);
            for (volatile unsigned i = 0; i < n; i++)
                ;
        }
        if (wr) {
            /* re-check on the way out */
            int rd = __atomic_load_n(&c->readers, __ATOMIC_SEQ_CST);
            if (rd != 0)
                vrt_violation("rwlock:reader-entered-during-write",
                              "%d readers inside at the end of a write section",
                              rd);
            __atomic_sub_fetch(&c->writers, 1, __ATOMIC_SEQ_CST);
        } else {
            int w = __atomic_load_n(&c->writers, __ATOMIC_SEQ_CST);
            if (w != 0)
                vrt_violation("rwlock:writer-entered-during-read",
                              "%d writers inside at the end of a read section", w);
            __atomic_sub_fetch(&c->readers, 1, __ATOMIC_SEQ_CST);
        }
        rc = ABT_rwlock_unlock(c->l);
        if (rc != ABT_SUCCESS)
            vrt_violation("rwlock:unlock-rc", "unlock returned %d", rc);
        if (a->kind == ACT_ULT && vrt_range(&a->rng, 4) == 0)
            ABT_thread_yield();
    }
}

/* scripted reader inclusion with two external threads (pure blocking, so the
 * logical-deadlock rule decides) and with two ULTs on different streams */
static void incl_body(actor_t *a)
{
    rctx_t *c = (rctx_t *)a->ctx;
    if (a->idx == 0) {
        vrt_actor_set(a->vid, VRT_A_BLOCKED, "rdlock(R1)");
        VRT_ABT(ABT_rwlock_rdlock(c->l));
        __atomic_store_n(&c->r1_in, 1, __ATOMIC_SEQ_CST);
        /* wait (blocked from the monitor's point of view) until R2 is in */
        vrt_actor_set(a->vid, VRT_A_BLOCKED, "R1 holds read lock, awaits R2 inside");
        while (!__atomic_load_n(&c->r2_in, __ATOMIC_SEQ_CST)) {
            if (a->kind == ACT_ULT)
                ABT_thread_yield();
            else
                vrt_sleep_us(50);
            if (vrt_num_violations())
                break;
        }
        vrt_actor_set(a->vid, VRT_A_RUNNING, "R1 leaving");
        VRT_ABT(ABT_rwlock_unlock(c->l));
    } else {
        while (!__atomic_load_n(&c->r1_in, __ATOMIC_SEQ_CST)) {
            if (a->kind == ACT_ULT)
                ABT_thread_yield();
            else
                vrt_sleep_us(50);
        }
        vrt_actor_set(a->vid, VRT_A_BLOCKED, "rdlock(R2) while R1 reads");
        VRT_ABT(ABT_rwlock_rdlock(c->l));
        vrt_actor_set(a->vid, VRT_A_RUNNING, "R2 inside");
        __atomic_store_n(&c->r2_in, 1, __ATOMIC_SEQ_CST);
        VRT_ABT(ABT_rwlock_unlock(c->l));
    }
}

/* scripted: k readers queue up behind a writer; when the writer unlocks, all of
 * them must get the read lock together (each keeps it until all k are inside).
 * If only some are woken, the ones inside wait for the rest: logical deadlock. */
static int g_bw_k, g_bw_announced, g_bw_inside, c_behind_writer;
static void behind_writer_body(actor_t *a)
{
    rctx_t *c = (rctx_t *)a->ctx;
    if (a->idx == 0) {
        VRT_ABT(ABT_rwlock_wrlock(c->l));
        __atomic_store_n(&c->r1_in, 1, __ATOMIC_SEQ_CST);
        vrt_actor_set(a->vid, VRT_A_RUNNING, "writer holds, readers queue up");
        while (__atomic_load_n(&g_bw_announced, __ATOMIC_SEQ_CST) < g_bw_k && vrt_num_violations() == 0) {
            if (a->kind == ACT_ULT)
                ABT_thread_yield();
            else
                vrt_sleep_us(50);
        }
        /* give them time to block (a reader that is late simply acquires
         * later: weaker case, never a false alarm) */
        for (int i = 0; i < 40; i++) {
            if (a->kind == ACT_ULT)
                ABT_thread_yield();
            vrt_sleep_us(50);
        }
        VRT_ABT(ABT_rwlock_unlock(c->l));
    } else {
        while (!__atomic_load_n(&c->r1_in, __ATOMIC_SEQ_CST)) {
            if (a->kind == ACT_ULT)
                ABT_thread_yield();
            else
                vrt_sleep_us(50);
        }
        __atomic_fetch_add(&g_bw_announced, 1, __ATOMIC_SEQ_CST);
        vrt_actor_set(a->vid, VRT_A_BLOCKED, "rdlock behind a writer");
        VRT_ABT(ABT_rwlock_rdlock(c->l));
        __atomic_fetch_add(&g_bw_inside, 1, __ATOMIC_SEQ_CST);
        vrt_actor_set(a->vid, VRT_A_BLOCKED, "holds the read lock, awaits the other readers inside");
        while (__atomic_load_n(&g_bw_inside, __ATOMIC_SEQ_CST) < g_bw_k && vrt_num_violations() == 0) {
            if (a->kind == ACT_ULT)
                ABT_thread_yield();
            else
                vrt_sleep_us(50);
        }
        vrt_actor_set(a->vid, VRT_A_RUNNING, "leaving");
        VRT_ABT(ABT_rwlock_unlock(c->l));
    }
}

int main(int argc, char **argv)
{
    vrt_init(argc, argv, "h_rwlock");
    int rounds = (int)vrt_arg_int("rounds", 8);
    int iters = (int)vrt_arg_int("iters", 1500);
    int max_es = (int)vrt_arg_int("max-es", 4);
    c_cases = vrt_counter("cases");
    c_rd = vrt_counter("read_acquisitions");
    c_wr = vrt_counter("write_acquisitions");
    c_task_rejected = vrt_counter("tasklet_lock_rejected");
    c_incl = vrt_counter("scripted_reader_inclusion");
    c_behind_writer = vrt_counter("scripted_readers_admitted_together_after_writer");
    c_shared_readers = vrt_counter("reads_with_other_readers_inside");
    c_cs_yield = vrt_counter("yields_inside_cs");
    vrt_supervisor_start();
    vrt_rng r;
    vrt_rng_init(&r, vrt_seed, 17);
    for (int round = 0; round < rounds && vrt_num_violations() == 0; round++) {
        int nes, shared, pk, sp;
        world_random_config(&r, max_es, &nes, &shared, &pk, &sp);
        VRT_ABT(ABT_init(0, NULL));
        world_t w;
        world_create(&w, nes, shared, pk, sp);
        static rctx_t c;
        memset(&c, 0, sizeof(c));
        VRT_ABT(ABT_rwlock_create(&c.l));
        static actor_t actors[MAXA];
        int kinds[MAXA];
        task_stream_t ts;
        /* scripted inclusion: two externals; then (if >=2 streams with
         * private pools) two ULTs on different streams */
        for (int v = 0; v < 2; v++) {
            if (v == 1 && (w.nes < 2 || w.shared))
                continue;
            c.r1_in = c.r2_in = 0;
            kinds[0] = kinds[1] = v == 0 ? ACT_EXT : ACT_ULT;
            vrt_actor_reset_all();
            actors_spawn(&w, actors, 2, kinds, incl_body, &c, &ts,
                         vrt_hash64(vrt_seed + (uint64_t)round));
            actors_join(actors, 2, &ts);
            vrt_count(c_incl, 1);
        }
        /* readers queued behind a writer are all admitted when it unlocks:
         * externals; then ULTs, each on its own stream */
        for (int v = 0; v < 2; v++) {
            int k = 2 + (int)vrt_range(&r, 3);
            if (v == 1) {
                if (w.nes < 3 || w.shared || w.sched_predef == ABT_SCHED_RANDWS)
                    continue;
                if (k + 1 > w.nes)
                    k = w.nes - 1;
            }
            c.r1_in = 0;
            g_bw_k = k;
            g_bw_announced = g_bw_inside = 0;
            for (int i = 0; i <= k; i++)
                kinds[i] = v == 0 ? ACT_EXT : ACT_ULT;
            vrt_actor_reset_all();
            actors_spawn(&w, actors, k + 1, kinds, behind_writer_body, &c, &ts, vrt_hash64(vrt_seed + 77 + (uint64_t)round));
            actors_join(actors, k + 1, &ts);
            vrt_count(c_behind_writer, 1);
        }
        static const int wp[] = { 5, 20, 50, 90 };
        c.write_pct = wp[vrt_range(&r, 4)];
        int n = 2 + (int)vrt_range(&r, 24);
        /* every unlock wakes all waiters, so the cost per operation grows with
         * the number of lockers: keep the total work per scenario bounded */
        c.iters = iters * 4 / n;
        if (c.iters > iters)
            c.iters = iters;
        if (c.iters < 30)
            c.iters = 30;
        int next = (int)vrt_range(&r, 4);
        int ntask = (int)vrt_range(&r, 2);
        if (next + ntask > n - 1)
            next = 0, ntask = 0;
        actors_kinds(&r, kinds, n - next - ntask, next, ntask);
        vrt_actor_reset_all();
        actors_spawn(&w, actors, n, kinds, rw_body, &c, &ts,
                     vrt_hash64(vrt_seed * 7 + (uint64_t)round));
        actors_join(actors, n, &ts);
        VRT_CHECK((uint64_t)c.plain == c.wr_acq, "rwlock:lost-update",
                  "plain %ld != write acquisitions %llu", c.plain,
                  (unsigned long long)c.wr_acq);
        VRT_CHECK(c.readers == 0 && c.writers == 0, "rwlock:counts-left",
                  "readers=%d writers=%d at quiescence", c.readers, c.writers);
        char wd[128];
        world_describe(&w, wd, sizeof(wd));
        if (round < 2)
            vrt_sample("round %d: %s lockers=%d (ext=%d tasklet=%d) write%%=%d "
                       "iters/locker=%d max concurrent readers seen=%d delay=%s",
                       round, wd, n, next, ntask, c.write_pct, c.iters,
                       c.max_readers, vrt_delay_profile_name());
        vrt_signature_add("%s,n%d,e%d,w%d", wd, n, next, c.write_pct);
        VRT_ABT(ABT_rwlock_free(&c.l));
        world_destroy(&w);
        VRT_ABT(ABT_finalize());
        vrt_count(c_cases, 1);
    }
    return vrt_finish("rwlock_soup");
}
