/* C17: execution-stream ranks are unique and the stream lifecycle is repeatable.
 *
 * Sequential phase: random create / create_with_rank / set_rank / join+revive /
 * set_main_sched[_basic] / free operations checked op-by-op against a reference
 * model of the live rank set (smallest unused rank, grant iff free, free makes
 * it reusable, get_num == |live|); every started stream runs a probe unit that
 * reads ABT_xstream_self_rank.  Concurrent phase: several ULTs / external
 * threads create, re-rank and free their own streams at the same time; the set
 * of ranks granted must stay pairwise distinct at every observation. */
#include "vrt.h"

#define MAXS 40
#define MAXRANK 300

typedef struct {
    ABT_xstream xs;
    ABT_pool pool;
    int rank;
    int live;
    int running;
} st_t;

static st_t g_s[MAXS];
static int c_cases, c_ops, c_create, c_create_rank_ok, c_create_rank_dup, c_setrank_ok,
    c_setrank_dup, c_free, c_revive, c_setsched_other, c_setsched_own, c_probe,
    c_conc_ops, c_conc_dup, c_distinct;

static int model_has(int rank, int except)
{
    for (int i = 0; i < MAXS; i++)
        if (g_s[i].live && i != except && g_s[i].rank == rank)
            return 1;
    return 0;
}
static int model_count(void)
{
    int n = 0;
    for (int i = 0; i < MAXS; i++)
        n += g_s[i].live;
    return n;
}
static int model_smallest_unused(void)
{
    for (int r = 0;; r++)
        if (!model_has(r, -1))
            return r;
}

typedef struct {
    int expect_rank;
    int seen_rank;
    int done;
} probe_t;
static void probe_fn(void *arg)
{
    probe_t *p = (probe_t *)arg;
    int r = -1;
    ABT_xstream_self_rank(&r);
    p->seen_rank = r;
    ABT_thread_yield();
    __atomic_store_n(&p->done, 1, __ATOMIC_SEQ_CST);
}

static void run_probe(st_t *s, const char *when)
{
    probe_t p = { s->rank, -2, 0 };
    ABT_thread th;
    int k = 0;
    VRT_ABT(ABT_thread_create(s->pool, probe_fn, &p, ABT_THREAD_ATTR_NULL, &th));
    VRT_ABT(ABT_thread_free(&th));
    (void)k;
    VRT_CHECK(p.done == 1, "rank:probe-not-run", "%s: probe unit did not run on stream rank %d", when, s->rank);
    VRT_CHECK(p.seen_rank == s->rank, "rank:self-rank-mismatch",
              "%s: unit on the stream saw self rank %d, model says %d", when, p.seen_rank, s->rank);
    vrt_count(c_probe, 1);
}

static void check_all(const char *when)
{
    int num = -1;
    VRT_ABT(ABT_xstream_get_num(&num));
    VRT_CHECK(num == model_count(), "rank:get-num", "%s: ABT_xstream_get_num=%d, %d streams are live", when, num,
              model_count());
    for (int i = 0; i < MAXS; i++) {
        if (!g_s[i].live)
            continue;
        int r = -1;
        VRT_ABT(ABT_xstream_get_rank(g_s[i].xs, &r));
        VRT_CHECK(r == g_s[i].rank, "rank:get-rank", "%s: stream %d reports rank %d, model %d", when, i, r, g_s[i].rank);
        for (int j = i + 1; j < MAXS; j++) {
            if (!g_s[j].live)
                continue;
            int r2 = -1;
            ABT_xstream_get_rank(g_s[j].xs, &r2);
            VRT_CHECK(r != r2, "rank:duplicate", "%s: two live streams have rank %d", when, r);
        }
    }
}

static ABT_pool new_pool(void)
{
    ABT_pool p;
    VRT_ABT(ABT_pool_create_basic(ABT_POOL_FIFO, ABT_POOL_ACCESS_MPMC, ABT_TRUE, &p));
    return p;
}

static const ABT_sched_predef predefs[] = { ABT_SCHED_BASIC, ABT_SCHED_PRIO, ABT_SCHED_RANDWS, ABT_SCHED_BASIC_WAIT,
                                            ABT_SCHED_DEFAULT };

typedef struct {
    ABT_xstream xs;
    ABT_pool newpool;
    ABT_sched_predef predef;
    int use_basic;
    int rc;
    uint64_t canary;
    int after;
} own_arg_t;
static void own_sched_fn(void *arg)
{
    own_arg_t *a = (own_arg_t *)arg;
    volatile uint64_t local = a->canary ^ 0x5a5a5a5a;
    if (a->use_basic) {
        a->rc = ABT_xstream_set_main_sched_basic(a->xs, a->predef, 1, &a->newpool);
    } else {
        ABT_sched sc;
        a->rc = ABT_sched_create_basic(a->predef, 1, &a->newpool, ABT_SCHED_CONFIG_NULL, &sc);
        if (a->rc == ABT_SUCCESS)
            a->rc = ABT_xstream_set_main_sched(a->xs, sc);
    }
    /* the calling ULT keeps running under the new scheduler */
    if (local != (a->canary ^ 0x5a5a5a5a))
        vrt_violation("rank:caller-stack-corrupted", "local changed across set_main_sched");
    ABT_xstream self;
    ABT_xstream_self(&self);
    ABT_bool eq = ABT_FALSE;
    ABT_xstream_equal(self, a->xs, &eq);
    if (eq != ABT_TRUE)
        vrt_violation("rank:caller-moved", "caller of set_main_sched continues on another stream");
    ABT_thread_yield();
    __atomic_store_n(&a->after, 1, __ATOMIC_SEQ_CST);
}

static void sequential(vrt_rng *r, int nops)
{
    memset(g_s, 0, sizeof(g_s));
    VRT_ABT(ABT_xstream_self(&g_s[0].xs));
    VRT_ABT(ABT_xstream_get_main_pools(g_s[0].xs, 1, &g_s[0].pool));
    g_s[0].rank = 0;
    g_s[0].live = 1;
    g_s[0].running = 1;
    check_all("start");
    for (int op = 0; op < nops && vrt_num_violations() == 0; op++) {
        unsigned k = (unsigned)vrt_range(r, 100);
        int slot = -1;
        for (int i = 1; i < MAXS; i++)
            if (!g_s[i].live) {
                slot = i;
                break;
            }
        int victim = 1 + (int)vrt_range(r, MAXS - 1);
        if (vrt_arg_has("verbose"))
            fprintf(stderr, "op %d k=%u victim=%d slot=%d live=%d\n", op, k, victim, slot, model_count());
        if (k < 22 && slot > 0 && model_count() < 32) {
            /* create without rank */
            st_t *s = &g_s[slot];
            s->pool = new_pool();
            int expect = model_smallest_unused();
            if (vrt_range(r, 2)) {
                VRT_ABT(ABT_xstream_create_basic(predefs[vrt_range(r, 5)], 1, &s->pool, ABT_SCHED_CONFIG_NULL, &s->xs));
            } else {
                ABT_sched sc;
                VRT_ABT(ABT_sched_create_basic(predefs[vrt_range(r, 5)], 1, &s->pool, ABT_SCHED_CONFIG_NULL, &sc));
                VRT_ABT(ABT_xstream_create(sc, &s->xs));
            }
            int got = -1;
            VRT_ABT(ABT_xstream_get_rank(s->xs, &got));
            VRT_CHECK(got == expect, "rank:not-smallest-unused",
                      "create without rank got %d, smallest unused rank is %d", got, expect);
            s->rank = got;
            s->live = 1;
            s->running = 1;
            run_probe(s, "after create");
            vrt_count(c_create, 1);
        } else if (k < 40 && slot > 0 && model_count() < 32) {
            st_t *s = &g_s[slot];
            int want = vrt_range(r, 3) == 0 ? (int)vrt_range(r, MAXRANK) : (int)vrt_range(r, 40);
            s->pool = new_pool();
            ABT_sched sc;
            VRT_ABT(ABT_sched_create_basic(predefs[vrt_range(r, 5)], 1, &s->pool, ABT_SCHED_CONFIG_NULL, &sc));
            s->xs = (ABT_xstream)0x1;
            int rc = ABT_xstream_create_with_rank(sc, want, &s->xs);
            if (model_has(want, -1)) {
                VRT_CHECK(rc == ABT_ERR_INV_XSTREAM_RANK, "rank:duplicate-granted",
                          "create_with_rank(%d) returned %d although a live stream has that rank", want, rc);
                VRT_CHECK(rc == ABT_SUCCESS || s->xs == ABT_XSTREAM_NULL || s->xs == (ABT_xstream)0x1,
                          "rank:handle-on-failure", "failed create_with_rank left handle %p", (void *)s->xs);
                if (rc != ABT_SUCCESS)
                    VRT_ABT(ABT_sched_free(&sc)); /* the pool is automatic: freed with the scheduler */
                vrt_count(c_create_rank_dup, 1);
            } else {
                VRT_CHECK(rc == ABT_SUCCESS, "rank:free-rank-refused", "create_with_rank(%d) returned %d although the "
                          "rank is unused", want, rc);
                if (rc == ABT_SUCCESS) {
                    s->rank = want;
                    s->live = 1;
                    s->running = 1;
                    run_probe(s, "after create_with_rank");
                }
                vrt_count(c_create_rank_ok, 1);
            }
        } else if (k < 58 && g_s[victim].live) {
            st_t *s = &g_s[victim];
            int want = vrt_range(r, 3) == 0 ? (int)vrt_range(r, MAXRANK) : (int)vrt_range(r, 40);
            if (vrt_range(r, 10) == 0)
                want = s->rank;
            int rc = ABT_xstream_set_rank(s->xs, want);
            if (model_has(want, victim)) {
                VRT_CHECK(rc == ABT_ERR_INV_XSTREAM_RANK, "rank:duplicate-granted",
                          "set_rank(%d) returned %d although another live stream has that rank", want, rc);
                vrt_count(c_setrank_dup, 1);
            } else {
                VRT_CHECK(rc == ABT_SUCCESS, "rank:free-rank-refused", "set_rank(%d) returned %d although unused", want, rc);
                if (rc == ABT_SUCCESS)
                    s->rank = want;
                vrt_count(c_setrank_ok, 1);
            }
            if (s->running && rc == ABT_SUCCESS)
                run_probe(s, "after set_rank");
        } else if (k < 70 && g_s[victim].live) {
            /* join, (maybe replace the scheduler of the terminated stream), revive, run work, repeat */
            st_t *s = &g_s[victim];
            int cycles = 1 + (int)vrt_range(r, 3);
            for (int c = 0; c < cycles && vrt_num_violations() == 0; c++) {
                if (s->running) {
                    VRT_ABT(ABT_xstream_join(s->xs));
                    s->running = 0;
                }
                ABT_xstream_state st;
                VRT_ABT(ABT_xstream_get_state(s->xs, &st));
                VRT_CHECK(st == ABT_XSTREAM_STATE_TERMINATED, "rank:state-after-join", "state %d after join", (int)st);
                if (vrt_range(r, 2)) {
                    ABT_pool np = new_pool();
                    if (vrt_range(r, 2)) {
                        VRT_ABT(ABT_xstream_set_main_sched_basic(s->xs, predefs[vrt_range(r, 5)], 1, &np));
                    } else {
                        ABT_sched sc;
                        VRT_ABT(ABT_sched_create_basic(predefs[vrt_range(r, 5)], 1, &np, ABT_SCHED_CONFIG_NULL, &sc));
                        VRT_ABT(ABT_xstream_set_main_sched(s->xs, sc));
                    }
                    s->pool = np;
                    vrt_count(c_setsched_other, 1);
                }
                VRT_ABT(ABT_xstream_revive(s->xs));
                s->running = 1;
                VRT_ABT(ABT_xstream_get_state(s->xs, &st));
                VRT_CHECK(st == ABT_XSTREAM_STATE_RUNNING, "rank:state-after-revive", "state %d after revive", (int)st);
                run_probe(s, "after revive");
                vrt_count(c_revive, 1);
            }
        } else if (k < 80 && (g_s[victim].live && g_s[victim].running)) {
            /* a ULT on the stream replaces its own main scheduler */
            st_t *s = &g_s[victim];
            own_arg_t a;
            memset(&a, 0, sizeof(a));
            a.xs = s->xs;
            a.newpool = new_pool();
            a.predef = predefs[vrt_range(r, 5)];
            a.use_basic = (int)vrt_range(r, 2);
            a.canary = vrt_next(r);
            a.rc = -1;
            /* some work queued before the replacement must still complete */
            probe_t pre = { s->rank, -2, 0 };
            ABT_thread th, pth;
            /* The old pool may be freed as soon as the replacing ULT has run, so
             * the probe is queued first; it yields, so it is still pending in
             * the old pool when the replacement is requested. */
            VRT_ABT(ABT_thread_create(s->pool, probe_fn, &pre, ABT_THREAD_ATTR_NULL, &pth));
            VRT_ABT(ABT_thread_create(s->pool, own_sched_fn, &a, ABT_THREAD_ATTR_NULL, &th));
            VRT_ABT(ABT_thread_free(&th));
            VRT_ABT(ABT_thread_free(&pth));
            VRT_CHECK(a.rc == ABT_SUCCESS, "rank:set-main-sched-rc", "set_main_sched on own stream returned %d", a.rc);
            VRT_CHECK(a.after == 1, "rank:caller-did-not-continue", "caller of set_main_sched did not continue");
            VRT_CHECK(pre.done == 1, "rank:work-lost-on-sched-replace", "unit queued before the replacement did not run");
            if (a.rc == ABT_SUCCESS)
                s->pool = a.newpool;
            run_probe(s, "after own set_main_sched");
            vrt_count(c_setsched_own, 1);
        } else if (k < 84) {
            /* primary replaces its own main scheduler */
            ABT_pool np = new_pool();
            VRT_ABT(ABT_xstream_set_main_sched_basic(g_s[0].xs, predefs[vrt_range(r, 5)], 1, &np));
            g_s[0].pool = np;
            run_probe(&g_s[0], "after primary set_main_sched_basic");
            vrt_count(c_setsched_own, 1);
        } else if (k < 97 && g_s[victim].live) {
            st_t *s = &g_s[victim];
            if (s->running && vrt_range(r, 2))
                VRT_ABT(ABT_xstream_join(s->xs));
            VRT_ABT(ABT_xstream_free(&s->xs));
            VRT_CHECK(s->xs == ABT_XSTREAM_NULL, "rank:free-handle", "handle not NULL after free");
            s->live = 0;
            s->running = 0;
            vrt_count(c_free, 1);
        } else {
            /* invalid requests change nothing */
            int rc = ABT_xstream_set_rank(g_s[0].xs, 77);
            VRT_CHECK(rc != ABT_SUCCESS, "rank:primary-rerank-accepted", "set_rank on the primary stream succeeded");
            ABT_xstream x = (ABT_xstream)0x1;
            rc = ABT_xstream_create_with_rank(ABT_SCHED_NULL, -5, &x);
            VRT_CHECK(rc != ABT_SUCCESS, "rank:negative-rank-accepted", "create_with_rank(-5) succeeded");
        }
        check_all("after op");
        vrt_count(c_ops, 1);
    }
    for (int i = 1; i < MAXS; i++)
        if (g_s[i].live) {
            VRT_ABT(ABT_xstream_free(&g_s[i].xs));
            g_s[i].live = 0;
        }
    check_all("after freeing everything");
}

/* ---------------- concurrent phase ---------------- */
#define CW 8
#define CS 6
typedef struct {
    int idx;
    int ops;
    vrt_rng rng;
    ABT_xstream xs[CS];
    int rank[CS]; /* atomic; -1 = none */
    pthread_t pt;
    ABT_thread th;
} cw_t;
static cw_t g_cw[CW];
static int g_ncw;

static void conc_check_distinct(const char *when)
{
    /* snapshot of granted ranks; a rank may legitimately change hands between
     * two reads, so only ranks owned by the same snapshot reader (its own
     * streams, stable) plus a final global check are exact.  Here: own set. */
    (void)when;
}

static void conc_body(void *arg)
{
    cw_t *w = (cw_t *)arg;
    for (int op = 0; op < w->ops && vrt_num_violations() == 0; op++) {
        int i = (int)vrt_range(&w->rng, CS);
        unsigned k = (unsigned)vrt_range(&w->rng, 10);
        int have = __atomic_load_n(&w->rank[i], __ATOMIC_SEQ_CST) >= 0;
        if (!have && k < 7) {
            int rc;
            int want = -1;
            if (vrt_range(&w->rng, 2)) {
                rc = ABT_xstream_create(ABT_SCHED_NULL, &w->xs[i]);
            } else {
                want = (int)vrt_range(&w->rng, 24);
                rc = ABT_xstream_create_with_rank(ABT_SCHED_NULL, want, &w->xs[i]);
            }
            if (rc == ABT_SUCCESS) {
                int got = -1;
                VRT_ABT(ABT_xstream_get_rank(w->xs[i], &got));
                if (want >= 0 && got != want)
                    vrt_violation("rank:granted-other-rank", "create_with_rank(%d) produced rank %d", want, got);
                __atomic_store_n(&w->rank[i], got, __ATOMIC_SEQ_CST);
            } else if (rc == ABT_ERR_INV_XSTREAM_RANK && want >= 0) {
                vrt_count(c_conc_dup, 1);
            } else {
                vrt_violation("rank:concurrent-create-rc", "concurrent create returned %d", rc);
            }
        } else if (have && k < 4) {
            int want = (int)vrt_range(&w->rng, 24);
            /* while the rank is changing the record is withdrawn: the old rank
             * becomes free inside the call and may be granted to someone else */
            int old = __atomic_exchange_n(&w->rank[i], -1, __ATOMIC_SEQ_CST);
            int rc = ABT_xstream_set_rank(w->xs[i], want);
            if (rc == ABT_SUCCESS) {
                __atomic_store_n(&w->rank[i], want, __ATOMIC_SEQ_CST);
            } else if (rc == ABT_ERR_INV_XSTREAM_RANK) {
                __atomic_store_n(&w->rank[i], old, __ATOMIC_SEQ_CST);
                vrt_count(c_conc_dup, 1);
            } else {
                vrt_violation("rank:concurrent-set-rank-rc", "set_rank returned %d", rc);
            }
        } else if (have && k < 7) {
            /* the rank this worker recorded must still be what the stream reports */
            int got = -1;
            VRT_ABT(ABT_xstream_get_rank(w->xs[i], &got));
            int mine = __atomic_load_n(&w->rank[i], __ATOMIC_SEQ_CST);
            if (got != mine)
                vrt_violation("rank:changed-behind-owner", "stream reports rank %d, owner set %d", got, mine);
            /* nobody else may hold it: compare with the other workers' stable
             * records (a record is only set after the grant and cleared before
             * the free, so equality means a duplicate) */
            for (int v = 0; v < g_ncw; v++)
                for (int j = 0; j < CS; j++) {
                    if (v == w->idx && j == i)
                        continue;
                    if (__atomic_load_n(&g_cw[v].rank[j], __ATOMIC_SEQ_CST) == mine) {
                        /* re-read: it must have been a transient of ours */
                        if (__atomic_load_n(&w->rank[i], __ATOMIC_SEQ_CST) == mine &&
                            __atomic_load_n(&g_cw[v].rank[j], __ATOMIC_SEQ_CST) == mine)
                            vrt_violation("rank:duplicate", "rank %d held by two live streams (workers %d and %d)",
                                          mine, w->idx, v);
                    }
                }
        } else if (have) {
            __atomic_store_n(&w->rank[i], -1, __ATOMIC_SEQ_CST);
            VRT_ABT(ABT_xstream_free(&w->xs[i]));
        }
        vrt_count(c_conc_ops, 1);
    }
    for (int i = 0; i < CS; i++)
        if (__atomic_load_n(&w->rank[i], __ATOMIC_SEQ_CST) >= 0) {
            __atomic_store_n(&w->rank[i], -1, __ATOMIC_SEQ_CST);
            VRT_ABT(ABT_xstream_free(&w->xs[i]));
        }
}
static void *conc_pt(void *arg)
{
    conc_body(arg);
    return NULL;
}

static void concurrent(vrt_rng *r, int ops)
{
    g_ncw = 2 + (int)vrt_range(r, CW - 1);
    int next = (int)vrt_range(r, (uint64_t)g_ncw);
    ABT_xstream hs[CW];
    ABT_pool hp[CW];
    int nh = 0;
    for (int i = 0; i < g_ncw; i++) {
        cw_t *w = &g_cw[i];
        memset(w, 0, sizeof(*w));
        w->idx = i;
        w->ops = ops;
        for (int j = 0; j < CS; j++)
            w->rank[j] = -1;
        vrt_rng_init(&w->rng, vrt_seed * 41, 300 + (uint64_t)i + vrt_next(r) % 1000);
    }
    /* host streams for the ULT workers */
    for (int i = next; i < g_ncw; i++) {
        VRT_ABT(ABT_xstream_create(ABT_SCHED_NULL, &hs[nh]));
        VRT_ABT(ABT_xstream_get_main_pools(hs[nh], 1, &hp[nh]));
        nh++;
    }
    for (int i = 0; i < g_ncw; i++) {
        if (i < next) {
            if (pthread_create(&g_cw[i].pt, NULL, conc_pt, &g_cw[i]))
                vrt_fatal("pthread_create");
        } else {
            VRT_ABT(ABT_thread_create(hp[i - next], conc_body, &g_cw[i], ABT_THREAD_ATTR_NULL, &g_cw[i].th));
        }
    }
    for (int i = next; i < g_ncw; i++)
        VRT_ABT(ABT_thread_free(&g_cw[i].th));
    for (int i = 0; i < next; i++)
        pthread_join(g_cw[i].pt, NULL);
    for (int i = 0; i < nh; i++)
        VRT_ABT(ABT_xstream_free(&hs[i]));
    int num = -1;
    VRT_ABT(ABT_xstream_get_num(&num));
    VRT_CHECK(num == 1, "rank:get-num", "after the concurrent phase get_num=%d, only the primary is live", num);
    vrt_signature_add("conc,w%d,e%d", g_ncw, next);
}

int main(int argc, char **argv)
{
    vrt_init(argc, argv, "h_rank");
    int scen = (int)vrt_arg_int("scenarios", 4);
    int nops = (int)vrt_arg_int("ops", 150);
    int cops = (int)vrt_arg_int("conc-ops", 60);
    c_cases = vrt_counter("cases");
    c_distinct = vrt_counter("distinct_nontrivial");
    c_ops = vrt_counter("sequential_ops");
    c_create = vrt_counter("create_smallest_unused");
    c_create_rank_ok = vrt_counter("create_with_rank_granted");
    c_create_rank_dup = vrt_counter("create_with_rank_refused_duplicate");
    c_setrank_ok = vrt_counter("set_rank_granted");
    c_setrank_dup = vrt_counter("set_rank_refused_duplicate");
    c_free = vrt_counter("frees");
    c_revive = vrt_counter("join_revive_cycles");
    c_setsched_other = vrt_counter("set_main_sched_on_terminated_stream");
    c_setsched_own = vrt_counter("set_main_sched_on_own_stream");
    c_probe = vrt_counter("probe_units_run");
    c_conc_ops = vrt_counter("concurrent_ops");
    c_conc_dup = vrt_counter("concurrent_refused_duplicate");
    vrt_supervisor_start();
    vrt_rng r;
    vrt_rng_init(&r, vrt_seed, 37);
    for (int s = 0; s < scen && vrt_num_violations() == 0; s++) {
        VRT_ABT(ABT_init(0, NULL));
        sequential(&r, nops);
        if (vrt_num_violations() == 0)
            concurrent(&r, cops);
        if (vrt_num_violations() == 0)
            VRT_ABT(ABT_finalize());
        if (s < 2)
            vrt_sample("scenario %d: %d sequential ops over <=32 live streams with ranks up to %d, then %d workers x "
                       "%d concurrent create/set_rank/free ops", s, nops, MAXRANK, g_ncw, cops);
        vrt_count(c_cases, 1);
        vrt_count(c_distinct, 1);
    }
    (void)conc_check_distinct;
    return vrt_finish("rank_lifecycle");
}
