/* C14: user-defined pools see a consistent unit <-> work-unit mapping.
 *
 * Four user pools (two through ABT_pool_user_def, two through the legacy
 * ABT_pool_def) plus built-in pools; work units are created in them, yield,
 * change their associated pool (ABT_self_set_associated_pool, migration
 * requests) between user/user, user/built-in, built-in/user, get joined, revived
 * and freed, from several streams.  The user pool's unit objects come from an
 * arena whose addresses fall into few buckets of the runtime's unit hash table
 * (long chains, tombstone reuse).  Oracles:
 *   - unit object state machine: FREE -> CREATED -> (PUSHED <-> POPPED)* -> FREED;
 *     create_unit exactly once per association, free_unit exactly once, never a
 *     callback on a freed object (magic word, quarantine), creates == frees at
 *     the end;
 *   - ABT_unit_get_thread(unit) == thread and ABT_thread_get_unit(thread) == unit
 *     for the running unit, checked while other streams map/unmap units;
 *   - every work unit runs exactly once whatever the pop policy (FIFO, LIFO,
 *     random). */
#define _GNU_SOURCE
#include "abti.h"
#include "vrt.h"
#include <sched.h>
#include <pthread.h>

#define NUPOOLS 4
#define ARENA_SLOTS (1 << 16)
#define SLOT_SIZE 64
#define MAXQ 4096

enum { US_FREE = 0, US_CREATED, US_PUSHED, US_POPPED, US_FREED };
#define MAGIC_LIVE 0x11fe11fe
#define MAGIC_DEAD 0xdeaddead

typedef struct uunit {
    uint32_t magic;
    int state; /* atomic */
    ABT_thread thread;
    int pool;
    int slot;
    uint64_t gen;
    char pad[SLOT_SIZE - 40];
} uunit_t;

typedef struct {
    int id;
    int legacy;
    int policy; /* 0 FIFO, 1 LIFO, 2 random */
    pthread_spinlock_t lock;
    uunit_t *q[MAXQ];
    int n;
    vrt_rng rng;
    ABT_pool pool;
    uint64_t creates, frees, pushes, pops; /* atomic */
} upool_t;

static upool_t g_up[NUPOOLS];
static uunit_t *g_arena;
static int *g_freeslots;
static int g_nfree;
static int g_quarantine[512];
static int g_nquar, g_quar_head;
static int g_qlen = 512; /* 0: a freed unit object is handed out again at once (LIFO) */
static pthread_spinlock_t g_arena_lock;
static int g_colliding;

static int c_scen_quarantine, c_scen_reuse, c_us_bulk_transfer, c_us_bulk_run;
static int c_cases, c_units, c_creates, c_frees, c_pushes, c_pops, c_map_checks, c_pool_changes, c_revives,
    c_by_policy[3], c_legacy_units, c_newapi_units, c_migrations, c_distinct;

/* same function as the runtime (src/unit.c) to pick colliding addresses */
static size_t hash_index(void *unit)
{
    size_t val = (uintptr_t)unit;
    size_t base_val = val >> 3;
    base_val += val >> (8 + 3);
    base_val += val >> (8 * 2 + 3);
    return base_val & 255;
}

static uunit_t *arena_alloc(void)
{
    uunit_t *u = NULL;
    pthread_spin_lock(&g_arena_lock);
    if (g_nfree > 0) {
        int k = g_nfree - 1;
        /* random choice makes tombstones of different ages get reused */
        u = &g_arena[g_freeslots[k]];
        g_nfree--;
    }
    pthread_spin_unlock(&g_arena_lock);
    if (!u)
        vrt_fatal("unit arena exhausted");
    return u;
}
static void arena_free(uunit_t *u)
{
    pthread_spin_lock(&g_arena_lock);
    if (g_qlen == 0) {
        g_freeslots[g_nfree++] = u->slot;
        pthread_spin_unlock(&g_arena_lock);
        return;
    }
    /* quarantine: a freed object is not handed out again for a while so that a
     * late use by the runtime meets MAGIC_DEAD */
    if (g_nquar == 512) {
        int old = g_quarantine[g_quar_head];
        g_freeslots[g_nfree++] = old;
        g_quarantine[g_quar_head] = u->slot;
        g_quar_head = (g_quar_head + 1) % 512;
    } else {
        g_quarantine[(g_quar_head + g_nquar) % 512] = u->slot;
        g_nquar++;
    }
    pthread_spin_unlock(&g_arena_lock);
}

static int live(uunit_t *u, const char *where)
{
    if ((uintptr_t)u < (uintptr_t)g_arena || (uintptr_t)u >= (uintptr_t)(g_arena + ARENA_SLOTS)) {
        vrt_violation("upool:foreign-unit", "%s received a unit %p that this pool never created", where, (void *)u);
        return 0;
    }
    if (u->magic != MAGIC_LIVE) {
        vrt_violation("upool:use-after-free-unit",
                      "%s was called with a unit that free_unit has already released (state %d)", where, u->state);
        return 0;
    }
    return 1;
}

static ABT_unit up_create_unit(upool_t *p, ABT_thread thread)
{
    uunit_t *u = arena_alloc();
    if (u->magic == MAGIC_LIVE) {
        vrt_violation("upool:arena", "arena handed out a live object");
        return ABT_UNIT_NULL;
    }
    u->magic = MAGIC_LIVE;
    u->thread = thread;
    u->pool = p->id;
    u->gen++;
    __atomic_store_n(&u->state, US_CREATED, __ATOMIC_SEQ_CST);
    __atomic_fetch_add(&p->creates, 1, __ATOMIC_RELAXED);
    vrt_count(c_creates, 1);
    return (ABT_unit)u;
}
static void up_free_unit(upool_t *p, ABT_unit unit)
{
    uunit_t *u = (uunit_t *)unit;
    if (!live(u, "free_unit"))
        return;
    if (u->pool != p->id)
        vrt_violation("upool:free-on-wrong-pool", "free_unit on pool %d for a unit created by pool %d", p->id, u->pool);
    int st = __atomic_load_n(&u->state, __ATOMIC_SEQ_CST);
    if (st == US_PUSHED)
        vrt_violation("upool:free-while-in-pool", "free_unit for a unit that is still queued in the pool");
    u->magic = MAGIC_DEAD;
    __atomic_store_n(&u->state, US_FREED, __ATOMIC_SEQ_CST);
    uint64_t nfrees = __atomic_fetch_add(&p->frees, 1, __ATOMIC_RELAXED);
    vrt_count(c_frees, 1);
    arena_free(u);
    if (g_qlen == 0) {
        /* the object can be handed out again from now on; a user callback may
         * well take its time before it returns */
        unsigned h = (unsigned)vrt_hash64((uint64_t)(uintptr_t)u + nfrees);
        if ((h & 3) == 0)
            sched_yield();
        else if ((h & 3) == 1)
            for (volatile unsigned i = 0; i < 200 + (h >> 8) % 2000; i++)
                ;
    }
}
static void up_push(upool_t *p, ABT_unit unit)
{
    uunit_t *u = (uunit_t *)unit;
    if (!live(u, "push"))
        return;
    if (u->pool != p->id)
        vrt_violation("upool:push-foreign-unit", "push on pool %d of a unit created by pool %d", p->id, u->pool);
    int st = __atomic_exchange_n(&u->state, US_PUSHED, __ATOMIC_SEQ_CST);
    if (st != US_CREATED && st != US_POPPED)
        vrt_violation("upool:push-state", "push of a unit in state %d (pushed twice or after free)", st);
    pthread_spin_lock(&p->lock);
    if (p->n >= MAXQ)
        vrt_fatal("user pool overflow");
    p->q[p->n++] = u;
    pthread_spin_unlock(&p->lock);
    __atomic_fetch_add(&p->pushes, 1, __ATOMIC_RELAXED);
    vrt_count(c_pushes, 1);
}
static uunit_t *up_pop(upool_t *p)
{
    uunit_t *u = NULL;
    pthread_spin_lock(&p->lock);
    if (p->n > 0) {
        int i = p->policy == 0 ? 0 : p->policy == 1 ? p->n - 1 : (int)vrt_range(&p->rng, (uint64_t)p->n);
        u = p->q[i];
        memmove(&p->q[i], &p->q[i + 1], sizeof(p->q[0]) * (size_t)(p->n - 1 - i));
        p->n--;
    }
    pthread_spin_unlock(&p->lock);
    if (u) {
        if (!live(u, "pop"))
            return NULL;
        int st = __atomic_exchange_n(&u->state, US_POPPED, __ATOMIC_SEQ_CST);
        if (st != US_PUSHED)
            vrt_violation("upool:pop-state", "popped a unit in state %d", st);
        __atomic_fetch_add(&p->pops, 1, __ATOMIC_RELAXED);
        vrt_count(c_pops, 1);
    }
    return u;
}
static int up_is_empty(upool_t *p)
{
    pthread_spin_lock(&p->lock);
    int e = p->n == 0;
    pthread_spin_unlock(&p->lock);
    return e;
}
static size_t up_size(upool_t *p)
{
    pthread_spin_lock(&p->lock);
    size_t n = (size_t)p->n;
    pthread_spin_unlock(&p->lock);
    return n;
}

/* ---- new API (ABT_pool_user_def) ---- */
static upool_t *up_of(ABT_pool pool)
{
    void *d = NULL;
    ABT_pool_get_data(pool, &d);
    return (upool_t *)d;
}
static ABT_unit n_create_unit(ABT_pool pool, ABT_thread thread)
{
    return up_create_unit(up_of(pool), thread);
}
static void n_free_unit(ABT_pool pool, ABT_unit unit)
{
    up_free_unit(up_of(pool), unit);
}
static ABT_bool n_is_empty(ABT_pool pool)
{
    return up_is_empty(up_of(pool)) ? ABT_TRUE : ABT_FALSE;
}
static ABT_thread n_pop(ABT_pool pool, ABT_pool_context ctx)
{
    (void)ctx;
    uunit_t *u = up_pop(up_of(pool));
    return u ? u->thread : ABT_THREAD_NULL;
}
static void n_push(ABT_pool pool, ABT_unit unit, ABT_pool_context ctx)
{
    (void)ctx;
    up_push(up_of(pool), unit);
}
static size_t n_get_size(ABT_pool pool)
{
    return up_size(up_of(pool));
}
static void n_pop_many(ABT_pool pool, ABT_thread *threads, size_t max_threads, size_t *num_popped, ABT_pool_context ctx)
{
    (void)ctx;
    size_t n = 0;
    while (n < max_threads) {
        uunit_t *u = up_pop(up_of(pool));
        if (!u)
            break;
        threads[n++] = u->thread;
    }
    *num_popped = n;
}
static void n_push_many(ABT_pool pool, const ABT_unit *units, size_t num_units, ABT_pool_context ctx)
{
    (void)ctx;
    for (size_t i = 0; i < num_units; i++)
        up_push(up_of(pool), units[i]);
}

/* ---- legacy API (ABT_pool_def): no pool argument for unit functions ---- */
#define LEGACY(N)                                                                                                      \
    static ABT_unit l##N##_create(ABT_thread t)                                                                       \
    {                                                                                                                  \
        return up_create_unit(&g_up[N], t);                                                                           \
    }                                                                                                                  \
    static void l##N##_free(ABT_unit *pu)                                                                             \
    {                                                                                                                  \
        up_free_unit(&g_up[N], *pu);                                                                                  \
        *pu = ABT_UNIT_NULL;                                                                                           \
    }                                                                                                                  \
    static int l##N##_init(ABT_pool pool, ABT_pool_config c)                                                          \
    {                                                                                                                  \
        (void)c;                                                                                                       \
        (void)pool;                                                                                                    \
        return ABT_SUCCESS;                                                                                            \
    }                                                                                                                  \
    static size_t l##N##_size(ABT_pool pool)                                                                          \
    {                                                                                                                  \
        (void)pool;                                                                                                    \
        return up_size(&g_up[N]);                                                                                      \
    }                                                                                                                  \
    static void l##N##_push(ABT_pool pool, ABT_unit u)                                                                \
    {                                                                                                                  \
        (void)pool;                                                                                                    \
        up_push(&g_up[N], u);                                                                                          \
    }                                                                                                                  \
    static ABT_unit l##N##_pop(ABT_pool pool)                                                                         \
    {                                                                                                                  \
        (void)pool;                                                                                                    \
        uunit_t *u = up_pop(&g_up[N]);                                                                                 \
        return u ? (ABT_unit)u : ABT_UNIT_NULL;                                                                        \
    }                                                                                                                  \
    static int l##N##_pfree(ABT_pool pool)                                                                            \
    {                                                                                                                  \
        (void)pool;                                                                                                    \
        return ABT_SUCCESS;                                                                                            \
    }
LEGACY(2)
LEGACY(3)

static void make_pools(vrt_rng *r)
{
    for (int i = 0; i < NUPOOLS; i++) {
        upool_t *p = &g_up[i];
        memset(p, 0, sizeof(*p));
        p->id = i;
        p->legacy = i >= 2;
        p->policy = (int)vrt_range(r, 3);
        vrt_count(c_by_policy[p->policy], 1);
        pthread_spin_init(&p->lock, 0);
        vrt_rng_init(&p->rng, vrt_seed * 71, 400 + (uint64_t)i + vrt_next(r) % 100);
        if (!p->legacy) {
            ABT_pool_user_def def;
            VRT_ABT(ABT_pool_user_def_create(n_create_unit, n_free_unit, n_is_empty, n_pop, n_push, &def));
            VRT_ABT(ABT_pool_user_def_set_get_size(def, n_get_size));
            if (i == 1) {
                /* pool 1 has its own many-operations, pool 0 relies on the
                 * runtime's fall-back to single operations */
                VRT_ABT(ABT_pool_user_def_set_pop_many(def, n_pop_many));
                VRT_ABT(ABT_pool_user_def_set_push_many(def, n_push_many));
            }
            VRT_ABT(ABT_pool_create(def, ABT_POOL_CONFIG_NULL, &p->pool));
            VRT_ABT(ABT_pool_user_def_free(&def));
            VRT_ABT(ABT_pool_set_data(p->pool, p));
        } else {
            ABT_pool_def def;
            memset(&def, 0, sizeof(def));
            def.access = ABT_POOL_ACCESS_MPMC;
            if (i == 2) {
                def.u_create_from_thread = l2_create;
                def.u_free = l2_free;
                def.p_init = l2_init;
                def.p_get_size = l2_size;
                def.p_push = l2_push;
                def.p_pop = l2_pop;
                def.p_free = l2_pfree;
            } else {
                def.u_create_from_thread = l3_create;
                def.u_free = l3_free;
                def.p_init = l3_init;
                def.p_get_size = l3_size;
                def.p_push = l3_push;
                def.p_pop = l3_pop;
                def.p_free = l3_pfree;
            }
            VRT_ABT(ABT_pool_create(&def, ABT_POOL_CONFIG_NULL, &p->pool));
        }
    }
}

/* ---- work units ---- */
#define MAXW 600
typedef struct {
    int id;
    int is_task;
    int named;
    int starts, ends; /* atomic */
    int pool0;        /* index into g_allpools */
    uint64_t seed;
    ABT_thread th;
    int lives;
} wunit_t;
static wunit_t g_wu[MAXW];
static ABT_pool g_allpools[NUPOOLS + 3];
static int g_nall;
static int g_nbuiltin;

/* parked units: a ULT publishes its (unit, thread) pair and keeps yielding;
 * ULTs on other streams look the pair up through the runtime while the first
 * one is pushed/popped and while other units are mapped/unmapped. */
#define NPARK 16
typedef struct {
    int st; /* 0 free, 3 claiming, 1 parked, 2 being checked, 4 checked */
    ABT_unit unit;
    ABT_thread th;
} park_t;
static park_t g_park[NPARK];
static int g_user_scheds;
static ABT_mutex g_mtx;
static int c_remote_checks, c_mutex_blocks;

static void park_self(vrt_rng *r)
{
    int k = (int)vrt_range(r, NPARK), exp = 0;
    park_t *p = &g_park[k];
    if (!__atomic_compare_exchange_n(&p->st, &exp, 3, 0, __ATOMIC_SEQ_CST, __ATOMIC_SEQ_CST))
        return;
    VRT_ABT(ABT_self_get_thread(&p->th));
    VRT_ABT(ABT_self_get_unit(&p->unit));
    __atomic_store_n(&p->st, 1, __ATOMIC_SEQ_CST);
    /* With a user scheduler around, any scheduling point may re-associate this
     * unit with another pool (new unit object), so the published pair is only
     * stable while this unit keeps running: wait without yielding then. */
    if (g_user_scheds) {
        for (int y = 0; y < 300 && __atomic_load_n(&p->st, __ATOMIC_SEQ_CST) == 1; y++)
            sched_yield();
    } else {
        for (int y = 0; y < 30 && __atomic_load_n(&p->st, __ATOMIC_SEQ_CST) == 1; y++)
            ABT_thread_yield();
    }
    exp = 1;
    if (__atomic_compare_exchange_n(&p->st, &exp, 0, 0, __ATOMIC_SEQ_CST, __ATOMIC_SEQ_CST))
        return;
    while (__atomic_load_n(&p->st, __ATOMIC_SEQ_CST) == 2)
        sched_yield();
    __atomic_store_n(&p->st, 0, __ATOMIC_SEQ_CST);
}
static void check_parked(vrt_rng *r)
{
    int k = (int)vrt_range(r, NPARK), exp = 1;
    park_t *p = &g_park[k];
    if (!__atomic_compare_exchange_n(&p->st, &exp, 2, 0, __ATOMIC_SEQ_CST, __ATOMIC_SEQ_CST))
        return;
    ABT_thread t = ABT_THREAD_NULL;
    ABT_unit u = ABT_UNIT_NULL;
    VRT_ABT(ABT_unit_get_thread(p->unit, &t));
    VRT_ABT(ABT_thread_get_unit(p->th, &u));
    if (t != p->th)
        vrt_violation("upool:unit-maps-to-other-thread", "ABT_unit_get_thread from another work unit returned %p for the unit of %p",
                      (void *)t, (void *)p->th);
    if (u != p->unit)
        vrt_violation("upool:get-unit-mismatch", "ABT_thread_get_unit from another work unit returned a different unit");
    vrt_count(c_remote_checks, 1);
    __atomic_store_n(&p->st, 4, __ATOMIC_SEQ_CST);
}

static void check_mapping(wunit_t *w)
{
    ABT_thread self;
    ABT_unit unit, unit2;
    VRT_ABT(ABT_self_get_thread(&self));
    VRT_ABT(ABT_self_get_unit(&unit));
    VRT_ABT(ABT_thread_get_unit(self, &unit2));
    if (unit != unit2)
        vrt_violation("upool:get-unit-mismatch", "ABT_self_get_unit and ABT_thread_get_unit disagree for unit %d", w->id);
    ABT_thread back = ABT_THREAD_NULL;
    VRT_ABT(ABT_unit_get_thread(unit, &back));
    if (back != self)
        vrt_violation("upool:unit-maps-to-other-thread",
                      "ABT_unit_get_thread(unit of work unit %d) returned another work unit", w->id);
    /* if the current pool is a user pool, the unit is one of its live objects */
    ABT_pool lp;
    VRT_ABT(ABT_self_get_last_pool(&lp));
    for (int i = 0; i < NUPOOLS; i++)
        if (g_up[i].pool == lp) {
            uunit_t *u = (uunit_t *)unit;
            if (live(u, "mapping check") && (u->thread != self || u->pool != i))
                vrt_violation("upool:unit-object-mismatch", "the unit object of work unit %d records another thread/pool", w->id);
        }
    vrt_count(c_map_checks, 1);
}

static void wunit_fn(void *arg)
{
    wunit_t *w = (wunit_t *)arg;
    int s = __atomic_add_fetch(&w->starts, 1, __ATOMIC_SEQ_CST);
    if (s != w->lives)
        vrt_violation("upool:started-twice", "work unit %d started %d times (lives %d)", w->id, s, w->lives);
    vrt_rng r = { w->seed + (uint64_t)w->lives };
    if (!w->is_task) {
        int steps = 2 + (int)vrt_range(&r, 10);
        for (int i = 0; i < steps && vrt_num_violations() == 0; i++) {
            check_mapping(w);
            unsigned k = (unsigned)vrt_range(&r, 10);
            if (k < 3) {
                int t = (int)vrt_range(&r, (uint64_t)g_nall);
                VRT_ABT(ABT_self_set_associated_pool(g_allpools[t]));
                vrt_count(c_pool_changes, 1);
                check_mapping(w);
            } else if (k == 3) {
                ABT_thread self;
                VRT_ABT(ABT_self_get_thread(&self));
                int t = (int)vrt_range(&r, (uint64_t)g_nall);
                int rc = ABT_thread_migrate_to_pool(self, g_allpools[t]);
                if (rc == ABT_SUCCESS)
                    vrt_count(c_migrations, 1);
            } else if (k == 4) {
                park_self(&r);
            } else if (k == 5 || k == 6) {
                check_parked(&r);
            } else if (k == 7) {
                /* block on a contended mutex: resume pushes the unit back */
                VRT_ABT(ABT_mutex_lock(g_mtx));
                ABT_thread_yield();
                VRT_ABT(ABT_mutex_unlock(g_mtx));
                vrt_count(c_mutex_blocks, 1);
            }
            ABT_thread_yield();
        }
        check_mapping(w);
    }
    __atomic_add_fetch(&w->ends, 1, __ATOMIC_SEQ_CST);
}

/* ---- user-defined scheduler: pops in random pool order through both pop
 * APIs, runs units in place, runs them after re-associating them with another
 * pool, or hands them to another pool instead of running them ---- */
static int c_us_run_thread, c_us_run_unit, c_us_run_reassoc, c_us_transfer;
typedef struct {
    vrt_rng r;
    int n;
    ABT_pool pools[NUPOOLS + 3];
} usched_t;
/* ABT_pool_push_threads/pop_threads need the pool's many-operations: built-in
 * pools and user pool 1 have them */
static int pool_has_many(ABT_pool p)
{
    if (p == g_up[1].pool)
        return 1;
    for (int i = 0; i < NUPOOLS; i++)
        if (p == g_up[i].pool)
            return 0;
    return 1;
}
static int us_init(ABT_sched sched, ABT_sched_config cfg)
{
    (void)cfg;
    usched_t *d = (usched_t *)calloc(1, sizeof(*d));
    static int ctr;
    vrt_rng_init(&d->r, vrt_seed * 131, 900 + (uint64_t)__atomic_fetch_add(&ctr, 1, __ATOMIC_RELAXED));
    ABT_sched_get_num_pools(sched, &d->n);
    ABT_sched_get_pools(sched, d->n, 0, d->pools);
    ABT_sched_set_data(sched, d);
    return ABT_SUCCESS;
}
static void us_run(ABT_sched sched)
{
    usched_t *d;
    ABT_sched_get_data(sched, (void **)&d);
    for (unsigned iter = 1;; iter++) {
        int ran = 0;
        int i = (int)vrt_range(&d->r, (uint64_t)d->n);
        int j = (int)vrt_range(&d->r, (uint64_t)d->n);
        unsigned how = (unsigned)vrt_range(&d->r, 20);
        if (how >= 16) {
            /* bulk: pop up to 4, then push them to another pool in one call
             * or run them */
            ABT_thread ths[4];
            size_t got = 0;
            if (pool_has_many(d->pools[i]))
                VRT_ABT(ABT_pool_pop_threads(d->pools[i], ths, 4, &got));
            if (got > 0) {
                ran = 1;
                if (how < 18 && pool_has_many(d->pools[j])) {
                    VRT_ABT(ABT_pool_push_threads(d->pools[j], ths, got));
                    vrt_count(c_us_bulk_transfer, got);
                } else {
                    for (size_t k = 0; k < got; k++)
                        VRT_ABT(ABT_self_schedule(ths[k], ABT_POOL_NULL));
                    vrt_count(c_us_bulk_run, got);
                }
            }
        } else if (how < 8) {
            ABT_thread th = ABT_THREAD_NULL;
            ABT_pool_pop_thread(d->pools[i], &th);
            if (th != ABT_THREAD_NULL) {
                ran = 1;
                if (how == 0) {
                    VRT_ABT(ABT_pool_push_thread(d->pools[j], th));
                    vrt_count(c_us_transfer, 1);
                } else if (how == 1) {
                    VRT_ABT(ABT_self_schedule(th, d->pools[j]));
                    vrt_count(c_us_run_reassoc, 1);
                } else {
                    VRT_ABT(ABT_self_schedule(th, ABT_POOL_NULL));
                    vrt_count(c_us_run_thread, 1);
                }
            }
        } else {
            ABT_unit u = ABT_UNIT_NULL;
            ABT_pool_pop(d->pools[i], &u);
            if (u != ABT_UNIT_NULL) {
                ran = 1;
                if (how == 8) {
                    VRT_ABT(ABT_pool_push(d->pools[j], u));
                    vrt_count(c_us_transfer, 1);
                } else if (how == 9) {
                    VRT_ABT(ABT_xstream_run_unit(u, d->pools[j]));
                    vrt_count(c_us_run_reassoc, 1);
                } else {
                    VRT_ABT(ABT_xstream_run_unit(u, d->pools[i]));
                    vrt_count(c_us_run_unit, 1);
                }
            }
        }
        if ((iter & 7) == 0 || !ran) {
            ABT_bool stop = ABT_FALSE;
            ABT_xstream_check_events(sched);
            ABT_sched_has_to_stop(sched, &stop);
            if (stop == ABT_TRUE)
                break;
            if (!ran && (iter & 63) == 0)
                sched_yield();
        }
    }
}
static int us_free(ABT_sched sched)
{
    usched_t *d;
    ABT_sched_get_data(sched, (void **)&d);
    free(d);
    return ABT_SUCCESS;
}
static ABT_sched_def g_us_def = { .type = ABT_SCHED_TYPE_ULT, .init = us_init, .run = us_run, .free = us_free,
                                  .get_migr_pool = NULL };

int main(int argc, char **argv)
{
    vrt_init(argc, argv, "h_upool");
    int scen = (int)vrt_arg_int("scenarios", 5);
    int nunits = (int)vrt_arg_int("units", 300);
    c_cases = vrt_counter("cases");
    c_distinct = vrt_counter("distinct_nontrivial");
    c_units = vrt_counter("work_units");
    c_creates = vrt_counter("create_unit_calls");
    c_frees = vrt_counter("free_unit_calls");
    c_pushes = vrt_counter("user_pool_pushes");
    c_pops = vrt_counter("user_pool_pops");
    c_map_checks = vrt_counter("mapping_checks");
    c_pool_changes = vrt_counter("set_associated_pool_calls");
    c_migrations = vrt_counter("migration_requests");
    c_revives = vrt_counter("revives");
    c_scen_quarantine = vrt_counter("scenarios_with_unit_quarantine");
    c_scen_reuse = vrt_counter("scenarios_with_immediate_unit_address_reuse");
    c_us_bulk_transfer = vrt_counter("user_sched_bulk_pushed_to_other_pool");
    c_us_bulk_run = vrt_counter("user_sched_ran_bulk_popped_threads");
    c_us_run_thread = vrt_counter("user_sched_ran_popped_thread");
    c_us_run_unit = vrt_counter("user_sched_ran_popped_unit");
    c_us_run_reassoc = vrt_counter("user_sched_ran_after_reassociating_pool");
    c_us_transfer = vrt_counter("user_sched_pushed_to_other_pool");
    c_remote_checks = vrt_counter("lookups_of_parked_unit_from_other_work_unit");
    c_mutex_blocks = vrt_counter("mutex_sections_with_yield");
    c_by_policy[0] = vrt_counter("pools_fifo_policy");
    c_by_policy[1] = vrt_counter("pools_lifo_policy");
    c_by_policy[2] = vrt_counter("pools_random_policy");
    c_legacy_units = vrt_counter("units_created_in_legacy_def_pool");
    c_newapi_units = vrt_counter("units_created_in_user_def_pool");
    if (nunits > MAXW)
        nunits = MAXW;
    vrt_supervisor_start();
    vrt_rng r;
    vrt_rng_init(&r, vrt_seed, 67);
    /* arena: keep only slots whose addresses hash into few buckets */
    g_arena = (uunit_t *)aligned_alloc(64, sizeof(uunit_t) * ARENA_SLOTS);
    g_freeslots = (int *)malloc(sizeof(int) * ARENA_SLOTS);
    memset(g_arena, 0, sizeof(uunit_t) * ARENA_SLOTS);
    pthread_spin_init(&g_arena_lock, 0);
    for (int s = 0; s < scen && vrt_num_violations() == 0; s++) {
        g_colliding = (int)vrt_range(&r, 3) != 0;
        g_qlen = vrt_range(&r, 2) ? 512 : 0;
        vrt_count(g_qlen ? c_scen_quarantine : c_scen_reuse, 1);
        g_nfree = 0;
        g_nquar = 0;
        g_quar_head = 0;
        size_t b0 = (size_t)vrt_range(&r, 256);
        for (int i = 0; i < ARENA_SLOTS; i++) {
            g_arena[i].slot = i;
            g_arena[i].magic = 0;
            size_t h = hash_index(&g_arena[i]);
            if (!g_colliding || ((h - b0) & 255) < 3)
                g_freeslots[g_nfree++] = i;
        }
        VRT_ABT(ABT_init(0, NULL));
        make_pools(&r);
        memset(g_park, 0, sizeof(g_park));
        VRT_ABT(ABT_mutex_create(&g_mtx));
        g_nall = 0;
        for (int i = 0; i < NUPOOLS; i++)
            g_allpools[g_nall++] = g_up[i].pool;
        g_nbuiltin = 2;
        VRT_ABT(ABT_pool_create_basic(ABT_POOL_FIFO, ABT_POOL_ACCESS_MPMC, ABT_FALSE, &g_allpools[g_nall++]));
        VRT_ABT(ABT_pool_create_basic(ABT_POOL_RANDWS, ABT_POOL_ACCESS_MPMC, ABT_FALSE, &g_allpools[g_nall++]));
        /* streams: each schedules all pools (basic / prio / randws schedulers) */
        int nes = 1 + (int)vrt_range(&r, 4), nus = 0;
        int want_us = vrt_range(&r, 2) == 0;
        g_user_scheds = want_us;
        ABT_xstream xs[5];
        static const ABT_sched_predef sp[] = { ABT_SCHED_BASIC, ABT_SCHED_PRIO, ABT_SCHED_RANDWS };
        for (int i = 0; i < nes; i++) {
            /* rotate the pool order per stream */
            ABT_pool mine[NUPOOLS + 3];
            for (int k = 0; k < g_nall; k++)
                mine[k] = g_allpools[(k + i) % g_nall];
            if (want_us && (i == 0 || vrt_range(&r, 2) == 0)) {
                ABT_sched_config cfg;
                ABT_sched sch;
                VRT_ABT(ABT_sched_config_create(&cfg, ABT_sched_config_automatic, 1, ABT_sched_config_var_end));
                VRT_ABT(ABT_sched_create(&g_us_def, g_nall, mine, cfg, &sch));
                VRT_ABT(ABT_sched_config_free(&cfg));
                VRT_ABT(ABT_xstream_create(sch, &xs[i]));
                nus++;
            } else {
                VRT_ABT(ABT_xstream_create_basic(sp[vrt_range(&r, 3)], g_nall, mine, ABT_SCHED_CONFIG_NULL, &xs[i]));
            }
        }
        int n = 20 + (int)vrt_range(&r, (uint64_t)nunits - 19);
        memset(g_wu, 0, sizeof(wunit_t) * (size_t)n);
        for (int i = 0; i < n; i++) {
            wunit_t *w = &g_wu[i];
            w->id = i;
            w->is_task = vrt_range(&r, 4) == 0;
            w->named = vrt_range(&r, 3) != 0;
            w->pool0 = (int)vrt_range(&r, (uint64_t)g_nall);
            w->seed = vrt_next(&r);
            w->lives = 1;
            ABT_thread *ph = w->named ? &w->th : NULL;
            if (w->is_task)
                VRT_ABT(ABT_task_create(g_allpools[w->pool0], wunit_fn, w, ph));
            else
                VRT_ABT(ABT_thread_create(g_allpools[w->pool0], wunit_fn, w, ABT_THREAD_ATTR_NULL, ph));
            if (w->pool0 < NUPOOLS)
                vrt_count(g_up[w->pool0].legacy ? c_legacy_units : c_newapi_units, 1);
        }
        /* join, sometimes revive into another pool, free */
        for (int i = 0; i < n && vrt_num_violations() == 0; i++) {
            wunit_t *w = &g_wu[i];
            if (!w->named)
                continue;
            VRT_ABT(ABT_thread_join(w->th));
            int cycles = (int)vrt_range(&r, 3);
            for (int c = 0; c < cycles && vrt_num_violations() == 0; c++) {
                w->lives++;
                int t = (int)vrt_range(&r, (uint64_t)g_nall);
                if (w->is_task)
                    VRT_ABT(ABT_task_revive(g_allpools[t], wunit_fn, w, &w->th));
                else
                    VRT_ABT(ABT_thread_revive(g_allpools[t], wunit_fn, w, &w->th));
                vrt_count(c_revives, 1);
                VRT_ABT(ABT_thread_join(w->th));
            }
            VRT_ABT(ABT_thread_free(&w->th));
        }
        for (int i = 0; i < nes; i++) {
            VRT_ABT(ABT_xstream_join(xs[i]));
            VRT_ABT(ABT_xstream_free(&xs[i]));
        }
        for (int i = 0; i < n && vrt_num_violations() == 0; i++) {
            wunit_t *w = &g_wu[i];
            if (w->starts != w->lives || w->ends != w->lives)
                vrt_violation("upool:not-exactly-once", "work unit %d (task %d named %d): %d lives, %d starts, %d ends", i,
                              w->is_task, w->named, w->lives, w->starts, w->ends);
        }
        uint64_t cr = 0, fr = 0;
        for (int i = 0; i < NUPOOLS; i++) {
            upool_t *p = &g_up[i];
            cr += p->creates;
            fr += p->frees;
            if (vrt_num_violations() == 0) {
                VRT_CHECK(p->creates == p->frees, "upool:create-free-imbalance",
                          "pool %d (%s API): create_unit called %llu times, free_unit %llu times", i,
                          p->legacy ? "legacy" : "user_def", (unsigned long long)p->creates, (unsigned long long)p->frees);
                VRT_CHECK(p->n == 0 && p->pushes == p->pops, "upool:units-left", "pool %d: %d units left, %llu pushes, %llu pops",
                          i, p->n, (unsigned long long)p->pushes, (unsigned long long)p->pops);
            }
        }
        if (vrt_num_violations())
            break;
        VRT_ABT(ABT_mutex_free(&g_mtx));
        for (int i = 0; i < g_nall; i++)
            VRT_ABT(ABT_pool_free(&g_allpools[i]));
        VRT_ABT(ABT_finalize());
        if (s < 3)
            vrt_sample("scenario %d: %d streams scheduling 2 user_def pools + 2 legacy-def pools + 2 built-in pools (pop "
                       "policies %d,%d,%d,%d), %d work units, %s unit addresses, %llu unit objects created", s, nes,
                       g_up[0].policy, g_up[1].policy, g_up[2].policy, g_up[3].policy, n,
                       g_colliding ? "hash-colliding (3 buckets)" : "spread", (unsigned long long)cr);
        vrt_signature_add("es%d,us%d,col%d,q%d,p%d%d%d%d", nes, nus, g_colliding, g_qlen != 0, g_up[0].policy, g_up[1].policy, g_up[2].policy, g_up[3].policy);
        vrt_count(c_units, (uint64_t)n);
        vrt_count(c_cases, 1);
        (void)fr;
    }
    return vrt_finish("user_pools");
}
